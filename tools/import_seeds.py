#!/usr/bin/env python3
"""Development helper: copy confirmed seeded changes from the sub-agents' scratch worktrees
into /verif/seeded/<id>/ (patch.diff, demo.py, notes.md, meta.json)."""

import json
import pathlib
import re
import shutil
import subprocess
import sys

WT = pathlib.Path('/tmp/wt')
OUT = pathlib.Path('/verif/seeded')
RES = pathlib.Path('/tmp/dev')


def main():
    OUT.mkdir(exist_ok=True)
    rows = []
    rnd = int(sys.argv[sys.argv.index('--round') + 1]) if '--round' in sys.argv else 1
    off = 3 * (rnd - 1)
    pre = '' if rnd == 1 else f'r{rnd}_'
    for i in range(1, 21):
        prop = f'C{i:02d}'
        for k in (1, 2, 3, 4):
            sd = WT / prop / 'seeds' / str(k)
            if not (sd / 'patch.diff').exists():
                continue
            first = RES / f'{pre}seed_{prop}_{k}.json'
            final = RES / f'{pre}final_{prop}_{k}.json'
            if not final.exists():
                print('no final result for', prop, k)
                continue
            f0 = json.loads(first.read_text()) if first.exists() else {}
            f1 = json.loads(final.read_text())
            if not f0:
                f0 = f1
            if f1.get('demo_clean_rc') != 0 or f1.get('demo_patched_rc') in (0, None) or not f0.get('tests_same', False):
                print('NOT CONFIRMED', prop, k, f1.get('demo_clean_rc'), f1.get('demo_patched_rc'), f0.get('tests_same'))
                continue
            sid = f'{prop}-{k + off}'
            dst = OUT / sid
            dst.mkdir(exist_ok=True)
            shutil.copy(sd / 'patch.diff', dst / 'patch.diff')
            demo = (sd / 'demo.py').read_text().replace(f'/tmp/wt/{prop}', '/repo').replace('/tmp/wt/stubs', '/verif/seeded/_stubs')
            (dst / 'demo.py').write_text(demo)
            notes = (sd / 'notes.md').read_text().replace(f'/tmp/wt/{prop}', '/repo').replace('/tmp/wt/stubs', '/verif/seeded/_stubs') if (sd / 'notes.md').exists() else ''
            (dst / 'notes.md').write_text(notes)
            files = sorted(set(re.findall(r'^\+\+\+ b/(.*)$', (sd / 'patch.diff').read_text(), flags=re.M)))
            caught = {}
            for p, v in f1.get('caught_by', {}).items():
                rules = sorted({l.split(' at ')[0].replace('  rule ', '').strip() for l in v['lines'] if l.startswith('  rule')})
                caught[p] = rules if rules else ['ANALYSIS-ERROR' if v['rc'] == 2 else 'exit %d' % v['rc']]
            needs = ''
            mm = re.search(r'(?is)(needs?[^\n]*\n.*?)(?:\n\n|\Z)', notes)
            if mm:
                needs = ' '.join(mm.group(1).split())[:600]
            meta = {
                'id': sid,
                'property': prop,
                'origin': 'independent sub-agent given only the property text and a scratch worktree of /repo (nothing from /verif)',
                'files_touched': files,
                'needs_to_manifest': needs or 'see notes.md',
                'confirmed': {
                    'demo_on_clean_tree_exit': f1.get('demo_clean_rc'),
                    'demo_with_patch_exit': f1.get('demo_patched_rc'),
                    'demo_with_patch_tail': f1.get('demo_patched_tail'),
                    'pytest_with_patch': f0.get('tests'),
                    'pytest_baseline': '2129 passed, 127 deselected, 8 errors',
                },
                'what_was_run': [
                    'git apply seeded/%s/patch.diff (in a scratch worktree of /repo at HEAD)' % sid,
                    '/venv/bin/python seeded/%s/demo.py  -> exit 0 clean, non-zero patched' % sid,
                    '/venv/bin/python -m pytest -q -p no:cacheprovider --timeout=900 --continue-on-collection-errors  -> unchanged summary',
                    'CIRBO_VERIF_REPO=<worktree> /venv/bin/python -m cirbo_verif check <every property>',
                ],
                'caught_by': caught,
                'detected': bool(caught) and any('ANALYSIS-ERROR' not in r for rs in caught.values() for r in rs),
            }
            (dst / 'meta.json').write_text(json.dumps(meta, indent=1) + '\n')
            rows.append((sid, files, caught))
    for sid, files, caught in rows:
        print(sid, ','.join(f.split('/')[-1] for f in files), caught)
    print(len(rows), 'seeds imported;', sum(1 for r in rows if r[2]), 'detected')


if __name__ == '__main__':
    main()
