#!/usr/bin/env python3
"""Development helper: tools/try_mutant.py <mutant-id> [prop]  -- apply one registered mutant to a scratch copy and show the check's output."""
import os, pathlib, shutil, subprocess, sys, tempfile
VERIF = pathlib.Path(__file__).resolve().parent.parent
sys.path.insert(0, str(VERIF))
from cirbo_verif import mutants, selftest
m = next(x for x in mutants.MUTANTS if x['id'] == sys.argv[1])
tmp = pathlib.Path(tempfile.mkdtemp(prefix='cirbo_mut_'))
try:
    selftest._copy_tree(tmp)
    print('apply:', selftest._apply(tmp, m))
    env = dict(os.environ, CIRBO_VERIF_REPO=str(tmp), CIRBO_VERIF_EVIDENCE=str(tmp / 'evidence'))
    r = subprocess.run(['/venv/bin/python', '-m', 'cirbo_verif', 'check', sys.argv[2] if len(sys.argv) > 2 else m['prop']], cwd=VERIF, env=env, capture_output=True, text=True)
    print('\n'.join(l[:1200] for l in r.stdout.splitlines()[-12:]))
    print(r.stderr[-1500:])
finally:
    shutil.rmtree(tmp, ignore_errors=True)
