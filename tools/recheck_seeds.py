#!/usr/bin/env python3
"""Development helper: re-run the checks against every stored seeded change.

For each /verif/seeded/<id>/patch.diff a scratch copy of /repo/cirbo is made under a temporary
directory (never under /repo or /verif), the patch is applied there, and the check of the
seed's own property (or with --all every check) is run with CIRBO_VERIF_REPO pointing at the
copy.  meta.json's `caught_by` / `detected` are refreshed and a markdown table is printed.

    tools/recheck_seeds.py [--all] [--jobs N] [ids...]
"""

import concurrent.futures
import json
import os
import pathlib
import re
import shutil
import subprocess
import sys
import tempfile

VERIF = pathlib.Path(__file__).resolve().parent.parent
SEEDED = VERIF / 'seeded'
PY = '/venv/bin/python' if os.path.exists('/venv/bin/python') else sys.executable


def one(args):
    sid, every = args
    d = SEEDED / sid
    meta = json.loads((d / 'meta.json').read_text())
    prop = meta['property']
    tmp = pathlib.Path(tempfile.mkdtemp(prefix='cirbo_seed_'))
    try:
        shutil.copytree('/repo/cirbo', tmp / 'cirbo')
        r = subprocess.run(['patch', '-p1', '-s', '-i', str(d / 'patch.diff')], cwd=tmp, capture_output=True, text=True)
        if r.returncode != 0:
            return sid, prop, {'apply_error': (r.stdout + r.stderr)[-300:]}
        props = [f'C{i:02d}' for i in range(1, 21)] if every else [prop]
        out = {}
        env = dict(os.environ, CIRBO_VERIF_REPO=str(tmp), CIRBO_VERIF_EVIDENCE=str(tmp / 'evidence'))
        for p in props:
            r = subprocess.run([PY, '-m', 'cirbo_verif', 'check', p], cwd=VERIF, env=env, capture_output=True, text=True)
            if r.returncode != 0:
                rules = sorted({l.split(' at ')[0].replace('  rule ', '').strip() for l in r.stdout.splitlines() if l.startswith('  rule')})
                out[p] = rules if rules and r.returncode == 1 else ['ANALYSIS-ERROR']
        return sid, prop, out
    finally:
        shutil.rmtree(tmp, ignore_errors=True)


def main():
    every = '--all' in sys.argv
    jobs = int(sys.argv[sys.argv.index('--jobs') + 1]) if '--jobs' in sys.argv else 12
    ids = [a for a in sys.argv[1:] if re.fullmatch(r'C\d\d-\d+', a)] or sorted(p.name for p in SEEDED.iterdir() if (p / 'patch.diff').exists())
    rows = []
    with concurrent.futures.ProcessPoolExecutor(jobs) as ex:
        for sid, prop, out in ex.map(one, [(i, every) for i in ids]):
            rows.append((sid, prop, out))
            meta_p = SEEDED / sid / 'meta.json'
            meta = json.loads(meta_p.read_text())
            if 'apply_error' not in out:
                if every:
                    meta['caught_by'] = out
                else:
                    cb = dict(meta.get('caught_by', {}))
                    cb.pop(prop, None)
                    if prop in out:
                        cb = {prop: out[prop], **cb}
                    meta['caught_by'] = cb
                meta['detected'] = any(r != ['ANALYSIS-ERROR'] for r in meta['caught_by'].values())
                meta['detected_by_own_property'] = prop in meta['caught_by'] and meta['caught_by'][prop] != ['ANALYSIS-ERROR']
                meta_p.write_text(json.dumps(meta, indent=1) + '\n')
    own = 0
    for sid, prop, out in sorted(rows):
        ok = prop in out and out[prop] != ['ANALYSIS-ERROR']
        own += ok
        print(sid, 'OWN' if ok else ('APPLY-ERROR' if 'apply_error' in out else 'MISS'), out)
    print(f'{own} of {len(rows)} seeds are reported by the check of their own property')


if __name__ == '__main__':
    main()
