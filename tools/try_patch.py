#!/usr/bin/env python3
"""Development helper: tools/try_patch.py <patch.diff> <prop> [prop...]  -- apply a patch to a scratch copy of /repo/cirbo and show the checks' output."""
import os, pathlib, shutil, subprocess, sys, tempfile
VERIF = pathlib.Path(__file__).resolve().parent.parent
tmp = pathlib.Path(tempfile.mkdtemp(prefix='cirbo_patch_'))
try:
    shutil.copytree('/repo/cirbo', tmp / 'cirbo')
    r = subprocess.run(['patch', '-p1', '-s', '-i', str(pathlib.Path(sys.argv[1]).resolve())], cwd=tmp, capture_output=True, text=True)
    print('apply rc', r.returncode, (r.stdout + r.stderr)[-200:])
    env = dict(os.environ, CIRBO_VERIF_REPO=str(tmp), CIRBO_VERIF_EVIDENCE=str(tmp / 'evidence'))
    for p in sys.argv[2:]:
        r = subprocess.run(['/venv/bin/python', '-m', 'cirbo_verif', 'check', p], cwd=VERIF, env=env, capture_output=True, text=True)
        print('\n'.join(l[:900] for l in r.stdout.splitlines()[-8:]))
        if r.stderr.strip():
            print(r.stderr[-800:])
finally:
    shutil.rmtree(tmp, ignore_errors=True)
