#!/usr/bin/env python3
"""Regenerates /verif/MANIFEST.json from the table below (kept by hand)."""

import json
import pathlib

VERIF = pathlib.Path(__file__).resolve().parent.parent
PY = '/venv/bin/python'

TRUST = (
    'Trusted: CPython ast parser; the oracle table of gate semantics in '
    'cirbo_verif/semantics.py (written from the statement of C01); the analyser itself '
    '(thorough tier re-runs it on seeded still-compiling mutants that must fire and on '
    'behaviour-preserving twins that must stay silent); no monkey-patching of analysed names.'
)

# property -> (technique, level text, design ref, extra note)
CLAIMS = {
    'C05': (
        'ast clause-template extraction + exhaustive equivalence over finite arities; structural allocation/unit-clause rules',
        'Decides the four structural conditions of the classical Tseytin argument from the syntax tree: '
        '(1) for every gate type and arity 0/1/2 and 2..4 (2..6 thorough) the clause template emitted by its '
        'handler is logically equivalent to top <-> f(operands) (exhaustive over all 2^(n+1) assignments, no foreign literal); '
        '(2) the dispatch table covers all 19 types with one signature, a gate is encoded once and only after its operands; '
        '(3) one unconditional unit clause per selected output; (4) inputs are literals 1..n in input order; plus the '
        'is_circuit_satisfiable -> Cnf.from_circuit -> solver plumbing. Holds for every circuit containing those gate types, '
        'which no sampled test can give; these files are imported by no collectable test in this sandbox. '
        'Not decided: the SAT solver itself; arities above the enumerated bound are covered only through the loop shape of the n-ary handlers.',
        'DESIGN.md 4 C05',
    ),
}

CLAIMS.update({
    'C01': (
        'operator tables and sibling gate tables folded by a finite-domain evaluator and compared with an oracle; evaluator shape rules',
        'Decides: (SEM-OP) the two-valued restriction of every operator in operators.py equals the fixed Boolean function of its type on every operand tuple '
        'of arity 1/2 and 2..4 (2..6 thorough), including that NAND/NOR/NXOR negate the fold; (SEM-REG) the 19 GateType constants carry their own name, the right '
        'operator and a sound is_symmetric flag; (SEM-SIB) every other interpreter of a gate type - Operation codes, _tt_to_gate_type, binary_tt_to_type/add_gate_from_tt, '
        'the bit-parallel pattern simulator, the Tseytin templates, the bench rewrites - denotes that same function (exhaustive over the finite table domains); '
        '(APPLY) both evaluators apply g.operator to the values of g.operands in operand order from one assignment map, inputs are bound by position, results are '
        'collected in output order and every truth-table enumeration is product((False, True)). Not decided: termination/ordering of the explicit-stack evaluator '
        'on arbitrary DAGs (relies on C20).',
        'DESIGN.md 4 C01',
    ),
    'C02': (
        'folding of the representation primitives over label-equality patterns + package-wide write-site enumeration, guard-before-write and fresh-container rules',
        'Inductive preservation of the well-formedness invariant, per function that writes the representation: (IDX) _add_gate/_emplace_gate/_remove_gate/'
        'rename_gate/replace_inputs/Block._rename_gate and all bench rewrites are folded over model states that cover every equality pattern of operand tuples '
        'up to length 3 and every membership pattern (input/output twice/block member/used twice) and must re-establish: operands and outputs name gates, users '
        'index = inverse operand multiset, input list = INPUT gates, blocks name existing gates (rename must equal label substitution); every other write to a gate '
        'map / users index anywhere under cirbo/ must match a recognised paired shape; (VALID) each public mutator validates each label parameter on a raising '
        'path before its first write; (COPY) no store into circuit state aliases a parameter, Block lists are fresh, __copy__ builds through copying APIs; (ACYC) '
        'operand re-pointing ends in the cycle check. Not decided: top_sort/dfs/order_list correctness, equality of a copy beyond same constructor calls.',
        'DESIGN.md 4 C02',
    ),
    'C14': (
        'bench rewrites folded over a recording circuit model for all operand patterns and input values',
        'Decided at the level of the rewrites: the converter table covers every non-bench type; each rewrite, evaluated on a model circuit for operands distinct / identical / '
        'involving the first input and all input values, denotes the old type, emits only bench-basis types, leaves users index = inverse operand multiset, and adds its helper '
        'gate to exactly the blocks containing the rewritten gate; constants obtain their helper input through input_at_index (raises without inputs); into_bench iterates a snapshot. '
        'Together with C02 this is the whole statement; assumes constants carry no operands.',
        'DESIGN.md 4 C14',
    ),
    'C15': (
        'exhaustive enumeration of the three-valued operator tables extracted from the syntax tree; defaulting-loop shape rule',
        'Completely decided at operator level: for every operator and every operand tuple over {False, True, Undefined} up to arity 3 (4 thorough; covers the fold composition of n-ary gates) '
        'a defined result equals the result under every completion of the undefined operands (soundness, hence monotonicity) and total operands give a defined result; both evaluators default '
        'unassigned inputs to Undefined on a copy of the assignment and gate values flow only through operators (C01.APPLY). Soundness of the composition follows by induction over the DAG. '
        'Not decided: the traversal clause shared with C01.',
        'DESIGN.md 4 C15',
    ),
})

PENDING = 'check under construction in this session (see DESIGN.md section 4); not claimed until its rules run clean'

ALL = [f'C{i:02d}' for i in range(1, 21)]


def main():
    checks = []
    for p in ALL:
        if p not in CLAIMS:
            continue
        tech, text, ref = CLAIMS[p]
        checks.append({
            'property_id': p,
            'quick_cmd': f'{PY} -m cirbo_verif check {p} --tier quick',
            'thorough_cmd': f'{PY} -m cirbo_verif check {p} --tier thorough',
            'evidence_file': f'/verif/evidence/{p}.json',
            'replay_cmd_template': f'{PY} -m cirbo_verif explain {{path}}',
            'engine': 'cirbo_verif',
            'level_claimed': {'category': 'other', 'text': text, 'design_ref': ref},
            'level_note': TRUST,
            'technique': 'static analysis: ' + tech,
        })
    na_reasons = json.loads((VERIF / 'tools' / 'not_applicable.json').read_text()) if (VERIF / 'tools' / 'not_applicable.json').exists() else {}
    na = [
        {'property_id': p, 'reason': na_reasons.get(p, PENDING)}
        for p in ALL if p not in CLAIMS
    ]
    manifest = {
        'version': 1,
        'setup_cmd': f'{PY} -m cirbo_verif --version',
        'hooks': {
            'guard': 'CIRBO_VERIF',
            'enable': 'none needed: the checks parse /repo with ast and never import or run it; no hook commits exist',
            'baseline_off_cmd': 'cd /repo && /venv/bin/python -m pytest -ra -q -p no:cacheprovider --timeout=900 --continue-on-collection-errors',
            'source_commits': [],
            'add_only': True,
        },
        'engines': [
            {
                'name': 'cirbo_verif',
                'path': '/verif/cirbo_verif',
                'serves_properties': sorted(CLAIMS),
                'kind_free_text': 'repository-specific static analyser over the Python ast: table/template extraction with a '
                                  'finite-domain evaluator, guard contexts, effect summaries, index-balance, registry and protocol rules',
            }
        ],
        'checks': checks,
        'not_applicable': na,
        'notes': 'Technique family: static analysis only. Exit 0 = all obligations discharged (KNOWN-FINDING lines allowed), '
                 '1 = VIOLATION, 2 = ANALYSIS-ERROR (anchor vanished / unrecognised shape / instance floor not met).',
    }
    (VERIF / 'MANIFEST.json').write_text(json.dumps(manifest, indent=1) + '\n')
    print('claimed:', sorted(CLAIMS), 'not claimed:', [x['property_id'] for x in na])


if __name__ == '__main__':
    main()
