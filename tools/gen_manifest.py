#!/usr/bin/env python3
"""Regenerates /verif/MANIFEST.json from the table below (kept by hand)."""

import json
import pathlib

VERIF = pathlib.Path(__file__).resolve().parent.parent
PY = '/venv/bin/python'

TRUST = (
    'Trusted: CPython ast parser; the oracle table of gate semantics in '
    'cirbo_verif/semantics.py (written from the statement of C01); the analyser itself '
    '(thorough tier re-runs it on seeded still-compiling mutants that must fire and on '
    'behaviour-preserving twins that must stay silent); no monkey-patching of analysed names.'
)

# property -> (technique, level text, design ref, extra note)
CLAIMS = {
    'C05': (
        'ast clause-template extraction + exhaustive equivalence over finite arities; structural allocation/unit-clause rules',
        'Decides the four structural conditions of the classical Tseytin argument from the syntax tree: '
        '(1) for every gate type and arity 0/1/2 and 2..4 (2..6 thorough) the clause template emitted by its '
        'handler is logically equivalent to top <-> f(operands) (exhaustive over all 2^(n+1) assignments, no foreign literal); '
        '(2) the dispatch table covers all 19 types with one signature, a gate is encoded once and only after its operands; '
        '(3) one unconditional unit clause per selected output; (4) inputs are literals 1..n in input order; plus the '
        'is_circuit_satisfiable -> Cnf.from_circuit -> solver plumbing. Holds for every circuit containing those gate types, '
        'which no sampled test can give; these files are imported by no collectable test in this sandbox. '
        'Not decided: the SAT solver itself; arities above the enumerated bound are covered only through the loop shape of the n-ary handlers.',
        'DESIGN.md 4 C05',
    ),
}

PENDING = 'check under construction in this session (see DESIGN.md section 4); not claimed until its rules run clean'

ALL = [f'C{i:02d}' for i in range(1, 21)]


def main():
    checks = []
    for p in ALL:
        if p not in CLAIMS:
            continue
        tech, text, ref = CLAIMS[p]
        checks.append({
            'property_id': p,
            'quick_cmd': f'{PY} -m cirbo_verif check {p} --tier quick',
            'thorough_cmd': f'{PY} -m cirbo_verif check {p} --tier thorough',
            'evidence_file': f'/verif/evidence/{p}.json',
            'replay_cmd_template': f'{PY} -m cirbo_verif explain {{path}}',
            'engine': 'cirbo_verif',
            'level_claimed': {'category': 'other', 'text': text, 'design_ref': ref},
            'level_note': TRUST,
            'technique': 'static analysis: ' + tech,
        })
    na_reasons = json.loads((VERIF / 'tools' / 'not_applicable.json').read_text()) if (VERIF / 'tools' / 'not_applicable.json').exists() else {}
    na = [
        {'property_id': p, 'reason': na_reasons.get(p, PENDING)}
        for p in ALL if p not in CLAIMS
    ]
    manifest = {
        'version': 1,
        'setup_cmd': f'{PY} -m cirbo_verif --version',
        'hooks': {
            'guard': 'CIRBO_VERIF',
            'enable': 'none needed: the checks parse /repo with ast and never import or run it; no hook commits exist',
            'baseline_off_cmd': 'cd /repo && /venv/bin/python -m pytest -ra -q -p no:cacheprovider --timeout=900 --continue-on-collection-errors',
            'source_commits': [],
            'add_only': True,
        },
        'engines': [
            {
                'name': 'cirbo_verif',
                'path': '/verif/cirbo_verif',
                'serves_properties': sorted(CLAIMS),
                'kind_free_text': 'repository-specific static analyser over the Python ast: table/template extraction with a '
                                  'finite-domain evaluator, guard contexts, effect summaries, index-balance, registry and protocol rules',
            }
        ],
        'checks': checks,
        'not_applicable': na,
        'notes': 'Technique family: static analysis only. Exit 0 = all obligations discharged (KNOWN-FINDING lines allowed), '
                 '1 = VIOLATION, 2 = ANALYSIS-ERROR (anchor vanished / unrecognised shape / instance floor not met).',
    }
    (VERIF / 'MANIFEST.json').write_text(json.dumps(manifest, indent=1) + '\n')
    print('claimed:', sorted(CLAIMS), 'not claimed:', [x['property_id'] for x in na])


if __name__ == '__main__':
    main()
