#!/usr/bin/env python3
"""Regenerates /verif/MANIFEST.json from the table below (kept by hand)."""

import json
import pathlib

VERIF = pathlib.Path(__file__).resolve().parent.parent
PY = '/venv/bin/python'

TRUST = (
    'Trusted: CPython ast parser; the oracle table of gate semantics in '
    'cirbo_verif/semantics.py (written from the statement of C01); the analyser itself '
    '(thorough tier re-runs it on seeded still-compiling mutants that must fire and on '
    'behaviour-preserving twins that must stay silent); no monkey-patching of analysed names.'
)

# property -> (technique, level text, design ref, extra note)
CLAIMS = {
    'C05': (
        'ast clause-template extraction + exhaustive equivalence over finite arities; structural allocation/unit-clause rules',
        'Decides the four structural conditions of the classical Tseytin argument from the syntax tree: '
        '(1) for every gate type and arity 0/1/2 and 2..4 (2..6 thorough) the clause template emitted by its '
        'handler is logically equivalent to top <-> f(operands) (exhaustive over all 2^(n+1) assignments, no foreign literal); '
        '(2) the dispatch table covers all 19 types with one signature, a gate is encoded once and only after its operands; '
        '(3) one unconditional unit clause per selected output; (4) inputs are literals 1..n in input order; plus the '
        'is_circuit_satisfiable -> Cnf.from_circuit -> solver plumbing. Holds for every circuit containing those gate types, '
        'which no sampled test can give; these files are imported by no collectable test in this sandbox. '
        'Not decided: the SAT solver itself; arities above the enumerated bound are covered only through the loop shape of the n-ary handlers. Templates are also evaluated for every equality pattern of operand positions (XOR(x, x), AND(x, y, x), ...).',
        'DESIGN.md 4 C05',
    ),
}

CLAIMS.update({
    'C01': (
        'operator tables and sibling gate tables folded by a finite-domain evaluator and compared with an oracle; evaluator shape rules',
        'Decides: (SEM-OP) the two-valued restriction of every operator in operators.py equals the fixed Boolean function of its type on every operand tuple '
        'of arity 1/2 and 2..4 (2..6 thorough), including that NAND/NOR/NXOR negate the fold; (SEM-REG) the 19 GateType constants carry their own name, the right '
        'operator and a sound is_symmetric flag; (SEM-SIB) every other interpreter of a gate type - Operation codes, _tt_to_gate_type, binary_tt_to_type/add_gate_from_tt, '
        'the bit-parallel pattern simulator, the Tseytin templates, the bench rewrites - denotes that same function (exhaustive over the finite table domains); '
        '(APPLY) both evaluators apply g.operator to the values of g.operands in operand order from one assignment map, inputs are bound by position, results are '
        'collected in output order and every truth-table enumeration is product((False, True)). Not decided: termination/ordering of the explicit-stack evaluator '
        'on arbitrary DAGs (relies on C20). Also: evaluate_circuit\'s stack discipline (a gate is evaluated and popped only when the top of the stack is still that gate; unevaluated operands are pushed), the private copy of the assignment map, the users index entries per operand occurrence (C01.IDX) and the basis-restriction clauses of the synthesis encoding read the truth-table codes in the same bit order.',
        'DESIGN.md 4 C01',
    ),
    'C02': (
        'folding of the representation primitives over label-equality patterns + package-wide write-site enumeration, guard-before-write and fresh-container rules',
        'Inductive preservation of the well-formedness invariant, per function that writes the representation: (IDX) _add_gate/_emplace_gate/_remove_gate/'
        'rename_gate/replace_inputs/Block._rename_gate and all bench rewrites are folded over model states that cover every equality pattern of operand tuples '
        'up to length 3 and every membership pattern (input/output twice/block member/used twice) and must re-establish: operands and outputs name gates, users '
        'index = inverse operand multiset, input list = INPUT gates, blocks name existing gates (rename must equal label substitution); every other write to a gate '
        'map / users index anywhere under cirbo/ must match a recognised paired shape; (VALID) each public mutator validates each label parameter on a raising '
        'path before its first write; (COPY) no store into circuit state aliases a parameter, Block lists are fresh, __copy__ builds through copying APIs; (ACYC) '
        'operand re-pointing ends in the cycle check. Not decided: top_sort/dfs/order_list correctness, equality of a copy beyond same constructor calls. C02.ORDER: order_list (order_inputs/order_outputs) folded over all list pairs of length <= 3 returns a permutation of the current list or raises.',
        'DESIGN.md 4 C02',
    ),
    'C14': (
        'bench rewrites folded over a recording circuit model for all operand patterns and input values',
        'Decided at the level of the rewrites: the converter table covers every non-bench type; each rewrite, evaluated on a model circuit for operands distinct / identical / '
        'involving the first input and all input values, denotes the old type, emits only bench-basis types, leaves users index = inverse operand multiset, and adds its helper '
        'gate to exactly the blocks containing the rewritten gate; constants obtain their helper input through input_at_index (raises without inputs); into_bench iterates a snapshot. '
        'Together with C02 this is the whole statement; assumes constants carry no operands.',
        'DESIGN.md 4 C14',
    ),
    'C15': (
        'exhaustive enumeration of the three-valued operator tables extracted from the syntax tree; defaulting-loop shape rule',
        'Completely decided at operator level: for every operator and every operand tuple over {False, True, Undefined} up to arity 3 (4 thorough; covers the fold composition of n-ary gates) '
        'a defined result equals the result under every completion of the undefined operands (soundness, hence monotonicity) and total operands give a defined result; both evaluators default '
        'unassigned inputs to Undefined on a copy of the assignment and gate values flow only through operators (C01.APPLY). Soundness of the composition follows by induction over the DAG. '
        'Not decided: the traversal clause shared with C01.',
        'DESIGN.md 4 C15',
    ),
})

CLAIMS.update({
    'C03': (
        'inter-procedural effect summaries (alias-aware, closures, exposers, registry dispatch) + shape rules on the rebuild code',
        'Decides: (PURE) the circuit argument of every Transformer._transform, of the helpers they delegate to, of cleanup and of apply_transformers/transform is never mutated, '
        'directly, through hook closures, through exposers (circuit.outputs.sort()) or through callees (fixpoint over the call graph); (FRESH) each pass returns a Circuit() allocated '
        'in that call; (IFACE) set_outputs gets circuit.outputs or an element-wise order-preserving image, set_inputs gets circuit.inputs in order (RemoveRedundantGates: filtered by presence, '
        'with the complement re-added unless input removal was requested); (EMIT) every rebuilt gate keeps label, type and operand order of the visited gate, nothing is invented, hence no '
        'more gates than the argument; (SYM) signatures sort operands only under is_symmetric; (UNARY) operand getters and the two unary families agree with the operators. '
        'Not decided: parity bookkeeping / representative choice, i.e. truth-table equality itself. Passes are stateless (no write to the pass object in _transform); signatures keep the operand multiset; the idempotent-skip rule of pipelines (C18.IDEM) is part of this check.',
        'DESIGN.md 4 C03',
    ),
    'C10': (
        'effect summary for the attached circuit + shape rules on connect_circuit and its five wrappers',
        'Decides the structural clauses of composition: the attached circuit is never mutated; new outputs/inputs are the documented order-preserving concatenations; attached gates are emitted '
        'in dependency order with type kept and operands mapped element-wise through one label map seeded with the connector pairs; connectors that are replaced must be inputs; the map keys must be the list '
        'validated duplicate-free (known finding F11 for right_connect); every attached non-input gate joins the named block whose inputs/outputs are the mapped interface; the five wrappers pass the documented arguments. '
        'Not decided: truth-table equality of the composition, Block.into_circuit round trip. C10.IDX: the right_connect branch registers the connector as user of every operand occurrence.',
        'DESIGN.md 4 C10',
    ),
    'C13': (
        'effect summary + guard-context arity reasoning + wiring shape rules on build_miter',
        'Decides: left/right are not mutated; the shape guard raises MiterDifferentShapesError when input_size OR output_size differ before anything is built; right inputs are fed by the left block inputs in order; '
        'the xor block receives left outputs then right outputs against inputs declared as all x then all y, xor_i = XOR(x_i, y_i); the single output is a gate that is the disjunction of all xor outputs and whose arity is legal '
        'for every output count reachable under the dominating guards (0, 1, >= 2). Not decided: evaluation of the composed circuit (C10 clause). The C10 block/interface/emission rules and the freshness of generate_pairwise_xor (no caching) are part of this check.',
        'DESIGN.md 4 C13',
    ),
    'C18': (
        'shape rules on Transformer linearisation/fold and field-coverage of __eq__ for idempotent passes',
        'Decides the pipeline clause structurally: as_distinct yields pre, self, post; compositions keep list order; | keeps textual order; apply_transformers is the left fold of _transform from the argument; '
        'transform and cleanup delegate to it with the documented lists; the idempotent-skip is sound (skipped only if idempotent and equal to the previous one; every field read by an idempotent _transform is compared by __eq__; '
        'compositions never equal); merging passes declare RemoveRedundantGates as post-transformer; RemoveRedundantGates emits exactly in the exit hook of a DFS from the outputs. '
        'Not decided: post-conditions of the merging passes (no duplicate signature / equal tables / double negation). C18.UNARY: MergeUnaryOperators folded over every chain of <= 5 (6 thorough) unary gates with oracle traversals: interface and outputs kept, no negation of a negation / no used buffer.',
        'DESIGN.md 4 C18',
    ),
    'C19': (
        'folding of rename_gate/replace_inputs/_remove_gate over model states + precondition/ordering rules on replace_subcircuit',
        'Decides: rename_gate equals label substitution in every label-holding field (gate map, operand tuples, users keys and members, inputs, all output occurrences, all block lists) for every membership pattern, refused renames leave the state untouched; '
        'replace_inputs turns exactly the named inputs into ALWAYS_TRUE/ALWAYS_FALSE (operators constant), keeps the order of the remaining inputs and refuses non-inputs - with C01 this is the cofactor; remove_gate validates existence and no users and '
        'removes the gate from outputs, inputs, index and blocks; replace_subcircuit checks every documented precondition before its first mutation, saves outputs and external users before removing the block, restores them after re-insertion and exits only through the cycle check. '
        'Not decided: truth-table preservation of replace_subcircuit. The users-index pairing of replace_subcircuit (saved external users are appended, not dropped) is part of C19.SUBC.',
        'DESIGN.md 4 C19',
    ),
    'C20': (
        'state-machine shape rules over the traversal loop, duality of the getters, Kahn-loop shape',
        'Narrow structural claim: every TraverseState member has a branch (else raises); enter hook precedes ENTERED and the single yield; children are discovered and enqueued iff UNVISITED; exit hook only on the ENTERED revisit followed by VISITED and pop; '
        'BFS finishes a gate at once; both modes and the three start-set cases handled; unvisited hook gets exactly UNVISITED gates in the requested order; top_sort and the traversal pick dual relations under the same inverse test; Kahn loop decrements once per successor occurrence, '
        'enqueues at zero and yields every dequeued gate; the cycle check raises exactly on an ENTERED gate in the discover hook of the default DFS. Not decided: algorithmic correctness of the loops (exact reachability, post-order).',
        'DESIGN.md 4 C20',
    ),
})

CLAIMS.update({
    'C06': (
        'clause templates of the SAT encoding instantiated by a finite-domain evaluator on the smallest instances and compared with the specification over all structure assignments',
        'Decides, at the level of the clause templates: the generator of the default CNF, fix_gate, forbid_wire and the model decoder are instantiated from the syntax tree (pysat replaced by recording hosts; nothing is solved) '
        'for <= 2 inputs and <= 2 gates and, for every choice of predecessor pairs x 16 gate tables x output gates, the clause set (after unit propagation of the forced gate values) accepts the structure iff it is a circuit of the requested basis that '
        'agrees with the model on every defined entry and obeys normalisation / fixed gates / forbidden wires; exactly-one constraints; illegal constraint arguments are refused; the decoder rebuilds exactly the encoded circuit; Operation/Basis tables agree with the oracle. '
        'The generator is uniform in gate index and table position, so these instances exhibit every template; for larger sizes only the loop domains are relied on. Not decided: the solver, time limits, database shortcut content.',
        'DESIGN.md 4 C06',
    ),
    'C11': (
        'printer and reader folded line by line over label classes induced by the reader\'s literal tests; shape rules on file-level plumbing',
        'Decides: for every gate type, every legal arity and every label class induced by the literals the reader compares against (labels starting with / equal to INPUT, OUTPUT, VDD, BUFF, every operator name, in both cases), the line format_gate prints is routed by _process_line to the right handler and yields '
        'the same label, type and operands in order; INPUT/OUTPUT declarations recover exactly the label; blank/comment lines produce nothing; lower-case operators, missing blanks, BUFF and vdd aliases denote the documented gates; unknown operators are refused; handlers admit every legal arity; '
        'format_circuit lists inputs, gates, outputs in order and save_to_file writes exactly that; the reader tolerates use before definition and checks operands at end of file. Not decided: layouts outside the enumerated line forms (leading blanks, INPUT (x), CRLF).',
        'DESIGN.md 4 C11',
    ),
    'C12': (
        'protocol/implementation signature comparison, enumeration-order rules, loop-carried-state dataflow rule, folding of the index conversions',
        'Decides structural necessary conditions of agreement: all three representations (and both models) define every body-less protocol method with the protocol\'s parameter names, order and defaults; every enumeration is product((False, True)); '
        'input<->index conversions and get_bit_value agree with that order (exhaustive for 1..4 inputs); int wrappers reverse operands and result under the same test; order-sensitive predicates (is_monotone*) decide from loop-carried state or delegate; '
        'delegating predicates are all(..._at(i)); define() writes a deep copy at [output][canonical index] / replaces exactly the DontCare entries / returns self only for an empty definition. Not decided: that each predicate equals its mathematical definition. C12.FOLD: every protocol query of all three representations folded over all Boolean functions with <= 2 rows of width 2 plus samples (quick) / all (thorough) of the 2x2 and 3x1 functions and compared with its mathematical definition.',
        'DESIGN.md 4 C12',
    ),
    'C16': (
        'table inversion checks, guard-dominance rule for the operand count, order/width rules, bit- and dict-level writers/readers folded over every alignment',
        'Decides: type ids injective, within 4 bits, decoder table = inverse; the encoder writes exactly the operand count the decoder reads or raises CircuitEncodingError, and that count is a legal arity of the operator; identifiers are assigned operands-first; '
        'every word_size quantity is bounded by the maximum in _get_word_size; encoder and decoder use mirrored width sequences; BitWriter/BitReader are mutual inverses for every bit alignment and length and refuse oversize/overrun; the binary dict writer/reader are mutual inverses '
        '(incl. non-ASCII keys), the length written is the length of the bytes written, every read is length-checked and truncated/trailing data are refused. Truth-table preservation of decode(encode(c)) follows by a paper argument, not mechanically.',
        'DESIGN.md 4 C16',
    ),
    'C17': (
        'normalisation and don\'t-care lookup folded over all small tables with stub stores; shape rules on key derivation',
        'NARROW claim: the sentence about the content of the shipped data files is NOT decided (data, not code shape). Decided for the lookup sentence: normalise/denormalise folded over every table with 1-2 inputs and up to 2 (3 thorough) outputs restores the requested table row by row through negation, '
        'reordering and duplicates (rows are touched only through tt[0], ordering and equality, so these tables cover every pattern up to that many outputs); normal form idempotent; undo steps in reverse order; the don\'t-care lookup tries exactly the completions, never alters defined entries and returns a smallest stored circuit; '
        'add and lookup derive the key from the normal form through one injective function.',
        'DESIGN.md 4 C17',
    ),
})

CLAIMS.update({
    'C04': (
        'pattern-simulator table folding, polarity typestate, key-domain rule, users-index pairing, snapshot-before-mutation and shape rules',
        'Structural clauses in a file that no test can import in this sandbox: the bit-parallel pattern simulator denotes the oracle function for every gate name and arity it accepts and rejects the rest; '
        'a label read from outputs_negation_mapping (complement of an output) is only used to find or build a NOT (F02, repaired); a label looked up in output_labels_mapping must be one of its keys (F23, repaired); '
        'hand-written re-pointing of users keeps the users index exact (F03, repaired); the validation snapshot is a deep copy taken before the first mutation and validation raises iff the miter is satisfiable; '
        'the replacement is searched with size - 1 gates in the requested basis over the don\'t-care model of exactly the non-trivial outputs, failures leave the circuit unchanged. '
        'Not decided: cut filtering, don\'t-care extraction, splice correctness, truth-table equality and size non-increase in general. C04.OUTS: every occurrence of a replaced output is rewritten before the gate is removed; the replace_subcircuit rules (C19.SUBC) are part of this check.',
        'DESIGN.md 4 C04',
    ),
    'C07': (
        'gadget netlists folded against arithmetic specs, basis typestate and reachability, effect summaries, endianness and placeholder-coverage rules',
        'Decides: the half/full adders (both bases), Stockmeyer block, MDFA and simplified MDFA satisfy their arithmetic specification for every input value; a Union[str, GenerationBasis] value is compared with enum members only after normalisation (however the basis is spelled); '
        'on paths where the basis is AIG (XAIG) only AIG (XAIG) gate kinds are reachable, branches pruned and callees followed; generators touch the host circuit only through add_gate/emplace_gate (which refuse existing labels, C02), read-only queries and the output interface, new labels come from freshness loops; '
        'no operand list is mutated in place; operands are reversed at entry and every returned number converted back under big_endian on every return path; placeholder-filled lists are completely overwritten before being returned (abstract execution over operand sizes). '
        'Not decided: level bookkeeping, distinct levels, the sum identity of the composed circuits, gate-count bounds. C07.FOLD instantiates the loop-only large-shift branch of the shifted adder; C07.WORKLIST requires every fed work list in the level-loop condition; C07.TRANSPOSE keeps ragged block sums untruncated.',
        'DESIGN.md 4 C07',
    ),
    'C08': (
        'registry exhaustiveness/signature agreement, effect summaries, endianness rule',
        'The core of the statement (the returned bits decode to a*b or a^2) is decided by instantiation only (C08.NUM, see Round 4 at the end), not for all widths. Decided structurally: every MulMode/SquareMode member has a registered generator with the common signature and generate_* dispatches on it, forwarding big_endian; '
        'multipliers and squarers only add fresh gates (add-only calls on the host, C02 refuses existing labels), never mutate their operand lists, reverse operands at entry and convert every returned product back under big_endian on every return path; placeholder tables do not leak on the loop-bounded paths. C08.KARATSUBA: split-and-recombine multipliers/squarer add the middle term at shift mid (mid + 1 for 2ab) and the high product at 2*mid, and the terms are products of the right halves; compressor gadgets (C07.GADGET) and C07.TRANSPOSE are part of this check.',
        'DESIGN.md 4 C08',
    ),
    'C09': (
        'gadget netlists folded against pointwise specs, guard-dominance rule for output marking, host-input rule, effect summaries, endianness rule',
        'Decides: add_sub2/add_sub3 (a - b [- bal] = r - 2*borrow), add_if_then_else, and the elements of add_pairwise_xor / add_pairwise_if_then_else compute their pointwise definitions for every input value and mark outputs only on request; '
        'every change of the host\'s outputs in a function with add_outputs is dominated by add_outputs; add_* functions never touch the inputs of the host (operands may be arbitrary gates) and only add fresh gates; operand lists are not mutated; endianness handled on every return path; placeholder lists fully overwritten. '
        'Not decided: exactness of the subtraction chains, division, square root, equality gadget and plus-one carry chain (loop-built arithmetic). C09.FOLD: add_equal, add_plus_one and add_sub_two_numbers (for-range templates with finitely many index cases) instantiated for every small width on a host that already has gates and outputs, both endiannesses; operands are resized only after the big-endian reversal.',
        'DESIGN.md 4 C09',
    ),
})

PENDING = 'check under construction in this session (see DESIGN.md section 4); not claimed until its rules run clean'

ALL = [f'C{i:02d}' for i in range(1, 21)]



# sentences appended after the second round of seeded changes (DESIGN.md 10.2)
ADDENDA = {
    'C01': ' Round 2: the Tseytin templates are also evaluated for repeated operands under C01.SEM-SIB; every exit of evaluate_circuit / evaluate_full_circuit lies behind the evaluation loop (C01.APPLY).',
    'C02': ' Round 2: _add_user/_remove_user change the users multiset by exactly one occurrence; Block._rename_gate is folded on lists with repeated labels.',
    'C03': ' Round 2: C03.FOLD folds every pass (_transform of RemoveRedundantGates with and without input removal, MergeUnaryOperators, MergeDuplicateGates, MergeEquivalentGates) over a bounded family of model circuits with oracle traversals in two visiting orders (new circuit, argument untouched, inputs, outputs, function, well-formedness, size); C03.UNARY folds every unary chain; C03.IFACE forbids input-removal requests inside the library.',
    'C04': ' Round 2: C04.CONE folds _generate_inputs_tt, _get_subcircuits and evaluate_truth_table_with_dont_cares over model circuits with an oracle cut family (closed cones, size, outputs, patterns = functions of the leaves, don\'t-care rows aligned with pattern bits); C06.DEC (two-output models) is run as a shared rule. Still not decided: _eval_dont_cares (while-loop counter), the splice of the main loop beyond the listed clauses.',
    'C05': ' Round 2: C05.FOLD folds tseytin_transformation as a whole over a bounded family of model circuits and output selections and decides each clause set against the circuit by unit propagation from the input variables.',
    'C06': ' Round 2: C06.DEC on two-output models (same gate twice, later gate first); C06.FIX with a fixed type outside the basis / against normalisation; C06.ENC on degenerate sizes (0 gates, 1 input) where no structure exists and the clause set must be unsatisfiable.',
    'C07': ' Round 2: C07.FOLD also instantiates add_sum_two_numbers and add_sum_two_numbers_with_shift (small shifts) for widths <= 3, every operand value, with the while-loop bit counters replaced by contract gates (decided relative to that contract); C07.ARGS forbids de-duplicating containers on operand-derived values.',
    'C08': ' Round 2: C08.FOLD instantiates add_mul_alter (widths <= 3 x 3), the two-number adders and add_sub_two_numbers (Karatsuba\'s subtraction) with contract gates for the bit counters. (At that point the while-loop multipliers and the squarers were not decided and two seeded changes, C08-5 and C08-6, were missed; see Round 4.)',
    'C09': ' Round 2: C09.FOLD additionally instantiates add_subtract_with_compare (widths <= 3 x 3; difference and borrow flag a < b), add_div_mod (widths <= 3; (0,0) for b = 0) and add_sqrt (widths <= 5, bit counters by contract) for every operand value and both endiannesses on a host with gates of its own.',
    'C10': ' Round 2: C02.COPY (no store into circuit state or Block argument aliases a caller-visible list) is run as a shared rule.',
    'C12': ' Round 2: C12.ITER folds input_iterator_with_fixed_sum itself (run to completion: every assignment of the weight exactly once, each yielded list a fresh object; F26 fixed); the circuit model of C12.FOLD has gates and a users index.',
    'C13': ' Round 2: C13.WIRE resolves every call attaching a circuit to the miter against its callee\'s signature (defaulted connectors are reported as such).',
    'C14': ' Round 2: operand cases include an inner gate that is an output and a block member; pre-existing gates and outputs must survive each rewrite; the contract of _add_user/_remove_user is folded (C14.IDX).',
    'C15': ' Round 2: exits of the evaluators lie behind the evaluation loop (C01.APPLY).',
    'C16': ' Round 2: C16.GATE-RT folds _encode_gate then _decode_gate on a recording bit stream for every type of the format and every identifier pattern (ascending, descending, repeated, wrong operand counts): same function of the same gates or CircuitEncodingError.',
    'C17': ' Round 2: C17.NORM runs on a model circuit with real gate types and a users index; C17.KEY: no raw write to circuit internals in cirbo/circuits_db, decoded gates enter through add_gate.',
    'C18': ' Round 2: C18.FOLD folds every pass over the model-circuit family: RemoveRedundantGates returns exactly the reachable gates (+ inputs) and is idempotent; after MergeDuplicateGates / MergeEquivalentGates (+ implied RemoveRedundantGates) no two gates share a signature / no two non-input gates a truth table; MergeUnaryOperators post-conditions.',
    'C19': ' Round 2: Block._rename_gate folded on lists with repeated labels.',
}

# sentences appended after the round of behaviour-preserving refactorings (DESIGN.md 10.3): which clause is now decided by a
# fold (the analyser's own evaluator instantiating the function on model states), the shape rules accompanying it softly
SOFT = (' The structural rules named above are kept but run in a soft scope: where they do not recognise the way the code is written they step aside for the fold '
        '(recorded as structural_rules_not_applicable in the evidence) instead of reporting a violation; a fold decides the bounded family named here, not all inputs.')
ADDENDA3 = {
    'C01': ' Round 3: C01.EVAL folds all six evaluators (evaluate_full_circuit, the explicit-stack evaluate_circuit, evaluate_circuit_outputs, evaluate, evaluate_at, get_truth_table) on instances of the repository\'s own Circuit class over a family of model circuits in two storage orders and compares every value with the oracle; the APPLY shape rule is soft.' + SOFT,
    'C02': ' Round 3: C02.HIST folds seeded histories (300 quick / 3000 thorough, <= 12 calls) of every public mutator the statement lists - incl. the five connect wrappers, block creation/removal, replace_subcircuit, into_bench, copy; legal and illegal arguments, bad labels and bad operands drawn apart - on instances of the repository\'s Circuit class and re-checks the whole invariant (operands/outputs exist, users = inverse operand multiset, inputs = INPUT gates once, blocks, acyclicity, both topological orders, copy equal and unshared) after every call that returns; directed replace_subcircuit cases (C19.SUBC) and the hand-made minimisation cases (C04.FOLD) are shared. The write-site / guard / alias shape rules are soft only for functions some fold actually executed: a shape finding in a function no fold entered (a new public writer) stands as a violation.' + SOFT,
    'C03': ' Round 3: C18.PIPE (every way of composing passes equals sequencing, shared with C18) decides the composition and cleanup clauses; FRESH/IFACE/EMIT/SYM/UNARY shape rules are soft.' + SOFT,
    'C04': ' Round 3: C04.FOLD folds minimize_subcircuits END TO END (cone extraction, don\'t-care analysis, trivial-output short cut, renaming, splice through replace_subcircuit, cycle check, state bookkeeping - all the repository\'s code) over hand-made and seeded model circuits x {AIG, XAIG} x cut sizes 2/3 x two cut enumeration orders, with every k-feasible cut as cut family, an exhaustive-search synthesiser (or none) as oracle and a brute-force solver for the validation miter: same inputs, number of outputs, truth table, not more non-trivial gates, validation fails exactly when the result is wrong, no internal error on circuits without equivalent gates. This fold found F30 and confirmed F02/F03/F23; all were repaired in /repo together with F31-F33. Not decided: circuits larger than the family, the real mockturtle cut enumerator, the SAT-based synthesiser and its time limit.' + SOFT,
    'C05': ' Round 3: C05.SAT folds is_circuit_satisfiable end to end with a brute-force model solver in place of pysat (answer, model satisfies the CNF and projects onto a satisfying assignment); ALLOC/UNIT/plumbing shape rules are soft.' + SOFT,
    'C10': ' Round 3: C10.FOLD folds connect_circuit (both directions, internal / repeated / partial connector lists, naming and prefix options, attached circuits with repeated operands) on instances of the repository\'s Circuit class and compares inputs, outputs and truth table with the documented composition, checks the attached circuit untouched and the named block extracted as a circuit (C10.BLOCK); C10.WRAP folds the five wrappers against connect_circuit; C10.UNIQ folds repeated and ill-posed connector lists (F11 stays the one open finding). EMIT/IFACE/IDX shape rules are soft.' + SOFT,
    'C11': ' Round 3: C11.RT folds format_circuit -> from_bench_string and save_to_file -> from_bench_file (through an in-memory file) on model circuits of every gate type, n-ary gates, constants with operands (F28 fixed), repeated and input outputs, users-first storage and unusual labels; PRINT is soft.' + SOFT,
    'C12': ' Round 3: C12.FOLD also folds model completion (define), the integer wrappers and Function.define (F29 fixed); ORDER/CARRY/DELEG/DEFINE shape rules are soft.' + SOFT,
    'C13': ' Round 3: C13.FOLD folds build_miter over pairs of small circuits (0-2 outputs, outputs that are inputs or repeated, different input labels and orders): operands untouched, inputs in the left order, one output True exactly where the output vectors differ, every gate of the miter applicable to its operand count, mismatched shapes rejected with MiterDifferentShapesError. WIRE/SHAPE/ARITY shape rules are soft.' + SOFT,
    'C14': ' Round 3: C14.HIST runs into_bench inside the seeded histories of C02.HIST (all gate types, constants with operands, blocks): only bench-basis types remain, well formed, inputs/outputs/truth table unchanged, and into_bench never refuses a well-formed circuit with an input.' + SOFT,
    'C15': ' Round 3: C15.FOLD folds the evaluators over every three-valued assignment of the model circuits: a reported True/False holds under every completion, defining one more input never changes a defined result, total assignments give the two-valued denotation, absent inputs count as Undefined.' + SOFT,
    'C16': ' Round 3: C16.RT folds encode_circuit -> decode_circuit with the bit writer and reader over model circuits (codec error, or same shape and truth table).' + SOFT,
    'C17': ' Round 3: C17.DB folds an in-memory database end to end (add every normal-form two-input table, look up every table with 1-2 (3) outputs through normalisation, key, codec, denormalisation). MIRROR/KEY shape rules are soft; who-may-write stays hard.' + SOFT,
    'C18': ' Round 3: C18.PIPE folds cleanup (light/heavy), transform, apply_transformers on lists, the pipe operator (nested, mixed with lists), repeated idempotent and non-idempotent passes, distinct compositions, and the literal post-condition of each merging pass on what its public transform returns; LIN/IDEM/POST/RRG shape rules are soft.' + SOFT,
    'C19': ' Round 3: C19.HIST checks rename_gate / replace_inputs / replace_subcircuit / remove_gate inside the seeded histories (truth table, cofactor, references); C19.SUBC adds directed replace_subcircuit cases (boundary inputs that are outputs, label clashes, an inner gate read from outside, overlapping mappings, a cycle-closing replacement).' + SOFT,
    'C20': ' Round 3: C20.FOLD folds top_sort, dfs, bfs (every start set, both directions, hooks that read the live state) and the cycle check on instances of the repository\'s Circuit class over model circuits incl. cyclic ones; the KAHN/STATE/DUAL/ENTRY/UNVIS/CYCLE shape rules are soft.' + SOFT,
}

# sentences appended after round 3 of the seeded changes and round 2 of the refactorings (DESIGN.md 10.4, 10.5)
ADDENDA4 = {
    'C01': ' Round 4: the model circuits of C01.EVAL are built through the repository\'s own constructors (_emplace_gate / set_outputs), so the users index is the repository\'s bookkeeping; add_gate_from_tt is folded for all 16 codes (operands distinct and identical) instead of matched by the spelling of its call; the pattern simulator is folded as a real instance of its class.',
    'C02': ' Round 4: histories declare block outputs outside the member set; the invariant follows the statement literally (block members and inputs must exist; declared outputs need not).',
    'C04': ' Round 4: hand-made circuits are also run stored users-first; the rules of C06 (encoding, fixed gates, decoder) are run as shared rules because the fold replaces the synthesiser by an oracle.',
    'C05': ' Round 4: the satisfiability query is also folded on circuits without outputs (empty formula); the dispatch table of the transformation is located by what it is (the dictionary from gate-type constants to clause templates), not by its name.',
    'C07': ' Round 4: C07.NUM instantiates the bit counters (add_sum_n_bits in both bases, add_sum_n_bits_easy, add_sum_pow2_m1) and the weighted-sum schedulers AS THEY STAND -- while-loop work lists, sorted queues -- for up to 8 operands / a set of weight vectors incl. a repeated operand, every operand value, both endiannesses: the result decodes to the number of True operands, levels pairwise distinct, weighted sum preserved, requested basis respected, host untouched. The WORKLIST/TRANSPOSE shape rules are soft under it.',
    'C08': ' Round 4: the NARROW claim of the first build is widened: C08.NUM instantiates every multiplier of the dispatch table (default, alter, Dadda, Wallace, 2^k-1, both Karatsuba variants) and both squarers as they stand (reduction loops, recursion) and evaluates the resulting circuit: every operand value for widths up to 4 x 4 (5 x 3, 3 x 6; more in the thorough tier), a FIXED SAMPLE of operand values (corners, single bits, alternating patterns, seeded random) at the widths where the algorithms change behaviour -- 9 x 7, Karatsuba 18 x 18 / 20 x 20 / 21 x 17 (24 x 15, 40 x 40 thorough), squarers 12 / 17 / 19 (24 / 33 / 48 thorough). The two seeded changes declined earlier (C08-5, C08-6) are reported by it. Not decided: other widths; operand values outside the sample at the sampled widths.',
    'C10': ' Round 4: the composition folds run the repository\'s own top_sort (not an oracle order) on attached circuits that include constants carrying operands and a pass-through output; wrappers with add_prefix=False; a created block cut out again by its own interface (make_block_from_slice) gives the same member set.',
    'C13': ' Round 4: miter pairs with 3-10 outputs (thorough: up to 14) differing in exactly one output position, every position in turn; operands with constants carrying operands; the repository\'s own top_sort.',
    'C14': ' Round 4: converting a copy (copy.copy(c).into_bench(), what drawing with as_bench does) leaves the original untouched.',
    'C15': ' Round 4: the model circuits are built through the repository\'s own constructors.',
    'C16': ' Round 4: the dictionary writer/reader round trip is instantiated at the boundaries of the length fields (2^15-1, 2^15, 2^16-1 bytes for keys and values).',
    'C17': ' Round 4: C17.SHIP: the first clause of the statement is no longer wholly undecided -- the two shipped files are split into their 349,724 entries each on the host side following the dictionary layout (width constants read from the tree) and decode_circuit is folded over a spread of about 100 entries per file (first, longest, an even stride, every key length): well formed, inside the basis of the file, truth table equal to the key, key in normal form. Not decided: the entries outside the sample.',
    'C18': ' Round 4: pipelines built directly as TransformerComposition([...]) (alone, in lists, as right operand of the pipe).',
    'C20': ' Round 4: cyclic states with several outputs (the cycle below an output that other gates read; a cycle no output reaches).',
}

ADDENDA5 = {
    'C01': ' Histories: get_truth_table, evaluate_full_circuit and evaluate_circuit are folded at random points of seeded and scripted histories of public mutations on ONE instance of the repository\'s Circuit class (C01.HIST), before and after edits, densely and sparsely observed: every answer is the oracle value of the state as it is then (a remembered answer shows).',
    'C02': ' Histories re-use names of deleted blocks whose gates are still there, pass a sequence argument as one string that is itself a label, and draw the same gate in every operand position; top_sort is observed inside them.',
    'C03': ' The passes are folded on instances of the repository\'s own Circuit / Gate classes (operands-first and users-first storage) before the oracle-traversal runs; post-conditions are re-applied on those instances.',
    'C04': ' The synthesiser oracle has a third form that answers like the real one -- a circuit of EXACTLY the requested number of gates, idle and pseudo-unary (LNOT) gates included, last in enumeration order; the result of a run is minimised once more (when it is still over the supported gate set); C06.FIND is run as a shared rule.',
    'C05': ' The CNF object of one circuit is requested twice with add_clause in between (no shared state); selections [] and re-ordered inputs are folded.',
    'C06': ' C06.FIND: find_circuit is folded end to end with a model DPLL solver in place of pysat for every two-input function, one and two gates, AIG and XAIG: a circuit is returned exactly when one of that size exists in the basis and it computes the function with gates of the basis; a forbid_wire between two searches of one finder is obeyed by the second; a normalised search set up earlier in the process does not change what later finders find. Not decided by it: larger functions / sizes, the real solver, time limits.',
    'C09': ' C09.NUM instantiates subtraction, division, square root and the comparison / if-then-else gadgets as they stand, including coinciding operand labels.',
    'C10': ' Constants as connectors, rename after a composition with a repeated connector, re-slicing a created block by its interface.',
    'C11': ' The round trip through an in-memory file is repeated after the file is overwritten by another text of the same length; comment lines with unbalanced brackets.',
    'C12': ' C12.HIST: the circuit representation answers inside histories of mutations (incl. set_inputs re-ordering) like the oracle; symmetry queries on four-input functions.',
    'C14': ' C14.DRAW: into_graphviz_digraph(as_bench=True), the second observation point, is folded with a recording stand-in for graphviz.Digraph: nodes, wires and block clusters drawn are those of the converted copy (helper gates inside the clusters of the blocks of the rewritten gate), the drawn circuit is untouched.',
    'C15': ' C15.HIST: partial and total evaluation observed inside histories.',
    'C17': ' C17.MIN looks up every two-input table with don\'t-cares in an in-memory database of circuits of different sizes written by the repository\'s own writer; a lookup is repeated after its result was edited (no shared decoded object).',
    'C18': ' Pipelines are folded on instances of the repository\'s classes: repeated non-idempotent passes, generators / iterators as pass lists, cleanup(c) after cleanup(c, use_heavy=True), users-first storage, the result must be a new object.',
    'C20': ' C20.HIST: top_sort in both directions observed inside histories, also on a state a returning public call left with a broken users index.',
}

ADDENDA6 = {
    'C01': ' The dispatch tables the sibling rules read (Tseytin templates, bench rewrites) are EVALUATED by the template evaluator: closures, partial applications, callable records and tables assembled from sub-tables count; the shape rules about the evaluators (C01.APPLY) run softly under the folds.',
    'C02': ' A copy.copy that raises on a well-formed state reached by public calls is reported (finding F36, repaired).',
    'C05': ' The dispatch table is found by evaluating candidate dictionary expressions (a mapping from at least eight gate types to callables), whatever it is called and however it is assembled.',
    'C06': ' C06.FIND also folds the database shortcut with a recording database (a stored circuit small enough / too large / absent, with and without fix_gate / forbid_wire); the text rules about the guard are soft under it.',
    'C07': ' C07.BASIS: every public function of the summation module taking `basis` is instantiated with the basis spelled \'AIG\', \'aig\', GenerationBasis.AIG (same for XAIG): only gates of that basis are created. C07.ENDIAN-REL: for every public generator with a big_endian parameter the big-endian call on reversed operands returns the reversed little-endian result (every operand value, widths 1-3). The shape rules BASIS-TS / BASIS-REACH / ENDIAN are soft where these folds were instantiated.',
    'C08': ' C08.GEN: generate_mul / generate_square instantiated for every member of their mode enumerations (widths 1 and 3, both endiannesses, every operand value); C08.ENDIAN-REL as for C07; the 48-bit squarer (the width from which add_square splits its operand) is instantiated in the quick tier as well. The registry / Karatsuba / endianness shape rules are soft under these folds.',
    'C09': ' C09.ENDIAN-REL as for C07; the OUT-GUARD shape rule is soft under the gadget folds, which run every function with an add_outputs parameter with and without it.',
    'C12': ' C12.FOLD also folds, in every representation, one function per Hamming-weight layer that is asymmetric in that layer only (four and five inputs) and a three-output function of that kind, so a symmetric-check loop that skips a layer is wrong on one of them.',
    'C14': ' The table of bench rewrites is evaluated (closure factories and callable records count).',
    'C16': ' The gate-level round trip steps aside when the private helpers have other parameter lists than on the pinned tree (the round trip of whole circuits decides).',
    'C17': ' Generator functions are folded lazily (item by item), so a lookup that yields one table object updated in place per completion is decided as it behaves.',
}

def main():
    checks = []
    for p in ALL:
        if p not in CLAIMS:
            continue
        tech, text, ref = CLAIMS[p]
        text = text + ADDENDA.get(p, '') + ADDENDA3.get(p, '') + ADDENDA4.get(p, '') + ADDENDA5.get(p, '') + ADDENDA6.get(p, '')
        checks.append({
            'property_id': p,
            'quick_cmd': f'{PY} -m cirbo_verif check {p} --tier quick',
            'thorough_cmd': f'{PY} -m cirbo_verif check {p} --tier thorough',
            'evidence_file': f'/verif/evidence/{p}.json',
            'replay_cmd_template': f'{PY} -m cirbo_verif explain {{path}}',
            'engine': 'cirbo_verif',
            'level_claimed': {'category': 'other', 'text': text, 'design_ref': ref},
            'level_note': TRUST,
            'technique': 'static analysis: ' + tech,
        })
    na_reasons = json.loads((VERIF / 'tools' / 'not_applicable.json').read_text()) if (VERIF / 'tools' / 'not_applicable.json').exists() else {}
    na = [
        {'property_id': p, 'reason': na_reasons.get(p, PENDING)}
        for p in ALL if p not in CLAIMS
    ]
    manifest = {
        'version': 1,
        'setup_cmd': f'{PY} -m cirbo_verif --version',
        'hooks': {
            'guard': 'CIRBO_VERIF',
            'enable': 'none needed: the checks parse /repo with ast and never import or run it; no hook commits exist',
            'baseline_off_cmd': 'cd /repo && /venv/bin/python -m pytest -ra -q -p no:cacheprovider --timeout=900 --continue-on-collection-errors',
            'source_commits': [],
            'add_only': True,
        },
        'engines': [
            {
                'name': 'cirbo_verif',
                'path': '/verif/cirbo_verif',
                'serves_properties': sorted(CLAIMS),
                'kind_free_text': 'repository-specific static analyser over the Python ast: table/template extraction and folds (its own evaluator '
                                  'instantiating repository functions on small model states, judged by an independent oracle), guard contexts, effect '
                                  'summaries, index-balance, registry, who-may-write and protocol rules; imports nothing from the repository',
            }
        ],
        'checks': checks,
        'not_applicable': na,
        'notes': 'Technique family: static analysis only (syntax-tree rules plus bounded template instantiation by the analyser\'s own evaluator; DESIGN.md 1.2 says '
                 'plainly where that line runs). Exit 0 = all obligations discharged (KNOWN-FINDING lines allowed), '
                 '1 = VIOLATION, 2 = ANALYSIS-ERROR (anchor vanished / unrecognised shape / instance floor not met).',
    }
    (VERIF / 'MANIFEST.json').write_text(json.dumps(manifest, indent=1) + '\n')
    print('claimed:', sorted(CLAIMS), 'not claimed:', [x['property_id'] for x in na])


if __name__ == '__main__':
    main()
