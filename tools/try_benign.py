#!/usr/bin/env python3
"""Development helper: run every check against behaviour-preserving refactorings.

    tools/try_benign.py <dir-with-patch.diff> [...]      (or --stored for /verif/benign/*)

For each patch a scratch copy of /repo/cirbo is made in a temporary directory, the patch is
applied there and all 20 checks are run with CIRBO_VERIF_REPO pointing at the copy.  Any exit
code other than 0 is a false alarm (1) or an analysis that a harmless edit broke (2).
"""

import concurrent.futures
import json
import os
import pathlib
import shutil
import subprocess
import sys
import tempfile

VERIF = pathlib.Path(__file__).resolve().parent.parent
PY = '/venv/bin/python' if os.path.exists('/venv/bin/python') else sys.executable


PROPS = None


def one(d, props=None):
    global PROPS
    PROPS = props
    d = pathlib.Path(d).resolve()
    tmp = pathlib.Path(tempfile.mkdtemp(prefix='cirbo_benign_'))
    try:
        shutil.copytree('/repo/cirbo', tmp / 'cirbo')
        r = subprocess.run(['patch', '-p1', '-s', '-i', str(d / 'patch.diff')], cwd=tmp, capture_output=True, text=True)
        if r.returncode != 0:
            return str(d), {'apply_error': (r.stdout + r.stderr)[-300:]}
        env = dict(os.environ, CIRBO_VERIF_REPO=str(tmp), CIRBO_VERIF_EVIDENCE=str(tmp / 'evidence'))
        out = {}
        for p in (PROPS or [f'C{i:02d}' for i in range(1, 21)]):
            r = subprocess.run([PY, '-m', 'cirbo_verif', 'check', p], cwd=VERIF, env=env, capture_output=True, text=True)
            if r.returncode != 0:
                lines = [l[:300] for l in r.stdout.splitlines() if l.startswith(('  rule', 'ANALYSIS-ERROR'))]
                det = [l[:400] for l in r.stdout.splitlines() if l.startswith('  ') and not l.startswith('  rule')]
                out[p] = {'rc': r.returncode, 'lines': lines[:6], 'detail': det[:3]}
        return str(d), out
    finally:
        shutil.rmtree(tmp, ignore_errors=True)


def main():
    global PROPS
    argv = list(sys.argv)
    if '--props' in argv:
        i = argv.index('--props')
        PROPS = argv[i + 1].split(',')
        del argv[i:i + 2]
    if '--json' in argv:
        i = argv.index('--json')
        jpath = argv[i + 1]
        del argv[i:i + 2]
    else:
        jpath = None
    dirs = [a for a in argv[1:] if not a.startswith('--')]
    if '--stored' in sys.argv:
        dirs += sorted(str(p) for p in (VERIF / 'benign').iterdir() if (p / 'patch.diff').exists())
    res = {}
    with concurrent.futures.ProcessPoolExecutor(10) as ex:
        for d, out in ex.map(one, dirs, [PROPS] * len(dirs)):
            res[d] = out
            print(d, 'SILENT' if not out else json.dumps(out, indent=1))
    n_bad = sum(1 for v in res.values() if v)
    print(f'{len(res) - n_bad} of {len(res)} refactorings leave every check silent')
    if jpath:
        pathlib.Path(jpath).write_text(json.dumps(res, indent=1))


if __name__ == '__main__':
    main()
