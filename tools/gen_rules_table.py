#!/usr/bin/env python3
"""Development helper: print the 'rules as built' table of DESIGN.md section 9.5 from the evidence files of the last clean run."""
import json, pathlib, re
V = pathlib.Path(__file__).resolve().parent.parent
FOLD = re.compile(r'\.(FOLD|HIST|RT|PIPE|EVAL|DB|CONE|SAT|UNIQ|BLOCK|WRAP|DEC)$')
print('| property | rule | kind | instances | what it decides |')
print('|---|---|---|---|---|')
for f in sorted((V / 'evidence').glob('C??.json')):
    d = json.load(open(f))
    c = d['coverage']
    expl = c['explanation']
    rules = {}
    if 'Rules applied:' in expl:
        body = expl.split('Rules applied:', 1)[1]
        for part in body.split(' | '):
            m = re.match(r'\s*(C\d\d\.[A-Z0-9-]+): (.*)', part, re.S)
            if m:
                rules[m.group(1)] = m.group(2).strip()
    for r, pr in c['per_rule'].items():
        kind = 'fold' if FOLD.search(r) else 'table / structural'
        print(f"| {d['property_id']} | `{r}` | {kind} | {pr['instances']} | {rules.get(r, '')[:260].replace('|', '/')} |")
