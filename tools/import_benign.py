#!/usr/bin/env python3
"""Development helper: copy confirmed behaviour-preserving refactorings from the sub-agents' scratch worktrees into
/verif/benign/<id>/ (patch.diff, equiv.py, notes.md, meta.json).  usage: import_benign.py --round N"""
import json, pathlib, re, shutil, sys
WT = pathlib.Path('/tmp/wt'); OUT = pathlib.Path('/verif/benign'); RES = pathlib.Path('/tmp/dev')
rnd = int(sys.argv[sys.argv.index('--round') + 1]) if '--round' in sys.argv else 1
off = 3 * (rnd - 1)
n = 0
for i in range(1, 21):
    prop = f'C{i:02d}'
    for k in (1, 2, 3):
        sd = WT / prop / 'benign' / str(k)
        vf = RES / f'b{rnd}_verify_{prop}_{k}.json'
        if not (sd / 'patch.diff').exists() or not vf.exists():
            continue
        v = json.loads(vf.read_text())
        if v['clean'] != v['patched'] or not v['clean'] or '2129 passed, 127 deselected, 8 errors' not in v['tests']:
            print('NOT CONFIRMED', prop, k, v)
            continue
        bid = f'{prop}-b{k + off}'
        dst = OUT / bid
        dst.mkdir(parents=True, exist_ok=True)
        shutil.copy(sd / 'patch.diff', dst / 'patch.diff')
        for name in ('equiv.py', 'notes.md'):
            if (sd / name).exists():
                (dst / name).write_text((sd / name).read_text().replace(f'/tmp/wt/{prop}', '/repo').replace('/tmp/wt/stubs', '/verif/seeded/_stubs'))
        files = sorted(set(re.findall(r'^\+\+\+ b/(.*)$', (sd / 'patch.diff').read_text(), flags=re.M)))
        meta = {
            'id': bid, 'anchored_property': prop, 'round': rnd,
            'kind': 'behaviour-preserving refactoring (must leave every check silent)',
            'origin': 'independent sub-agent given only the property text and a scratch worktree of /repo (nothing from /verif)',
            'files_touched': files,
            'confirmed': {'equiv_digest_clean': v['clean'], 'equiv_digest_patched': v['patched'], 'pytest_with_patch': v['tests']},
            'what_was_run': ['PYTHONHASHSEED=0 /venv/bin/python equiv.py on the clean worktree and with the patch applied: identical last line (digest)',
                             'full pytest with the patch: unchanged summary', 'tools/try_benign.py: every check against a scratch copy with the patch applied'],
        }
        (dst / 'meta.json').write_text(json.dumps(meta, indent=1) + '\n')
        n += 1
print(n, 'refactorings imported')
