#!/usr/bin/env python3
"""kf.py add <json-object>  -- append a finding to known_findings.json (development helper, never run by checks)."""
import json, sys, pathlib
p = pathlib.Path(__file__).resolve().parent.parent / 'known_findings.json'
d = json.loads(p.read_text())
e = json.loads(sys.argv[2])
d['findings'] = [x for x in d['findings'] if not (x['id'] == e['id'] and x['property'] == e['property'])] + [e]
p.write_text(json.dumps(d, indent=1, ensure_ascii=False) + '\n')
print(len(d['findings']), 'findings')
