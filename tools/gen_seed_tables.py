#!/usr/bin/env python3
"""Development helper: regenerate the per-seed tables of DESIGN.md (10.1, 10.2, 10.4, 10.6) from seeded/*/meta.json."""
import json, pathlib, re, sys
V = pathlib.Path(__file__).resolve().parent.parent
HEAD = "| id | file | change (first words of the agent's note) | rules of the property's own check | other checks that fire |\n|---|---|---|---|---|\n"

def table(lo, hi):
    rows = []
    for d in sorted((V / 'seeded').iterdir()):
        m = re.fullmatch(r'(C\d\d)-(\d+)', d.name)
        if not m or not lo <= int(m.group(2)) <= hi or not (d / 'meta.json').exists():
            continue
        meta = json.load(open(d / 'meta.json'))
        notes = (d / 'notes.md').read_text() if (d / 'notes.md').exists() else ''
        words = ' '.join(notes.replace('|', '/').split())[:150].lstrip('# ')
        cb = meta.get('caught_by', {})
        own = ', '.join(cb.get(meta['property'], [])) or '**not reported**'
        other = '; '.join(f"{p}: {', '.join(r)}" for p, r in sorted(cb.items()) if p != meta['property'])
        files = ', '.join(pathlib.Path(f).name for f in meta['files_touched'])
        rows.append(f"| {meta['id']} | {files} | {words} | {own} | {other} |")
    return HEAD + '\n'.join(rows) + '\n'

def main():
    s = (V / 'DESIGN.md').read_text()
    parts = s.split(HEAD)
    ranges = [(1, 3), (4, 6), (7, 9), (10, 13)]
    out = parts[0]
    for i, rest in enumerate(parts[1:]):
        # the old table ends at the first line that does not start with '|'
        lines = rest.split('\n')
        j = 0
        while j < len(lines) and lines[j].startswith('|'):
            j += 1
        out += table(*ranges[i]) + '\n'.join(lines[j:])
    (V / 'DESIGN.md').write_text(out)
    print('tables regenerated:', len(parts) - 1)

if __name__ == '__main__':
    main()
