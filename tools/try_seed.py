#!/usr/bin/env python3
"""Development helper (not a registered check): confirm a seeded change and see which checks catch it.

usage: try_seed.py <worktree> <seed-dir> [--no-tests] [--props C01,C05]

In the scratch worktree: demo must pass on the clean tree, fail with the patch; the pytest
summary must be unchanged with the patch; then every (or the given) check is run against the
patched worktree (CIRBO_VERIF_REPO) and the verdicts are printed as JSON.
"""

import json
import os
import pathlib
import re
import subprocess
import sys

PY = '/venv/bin/python'
BASE = '2129 passed, 127 deselected, 8 errors'


def sh(cmd, cwd, timeout=900, env=None):
    p = subprocess.run(cmd, cwd=cwd, shell=True, capture_output=True, text=True, timeout=timeout, env=env)
    return p.returncode, (p.stdout + p.stderr)


def main():
    wt = pathlib.Path(sys.argv[1])
    seed = pathlib.Path(sys.argv[2])
    no_tests = '--no-tests' in sys.argv
    props = None
    if '--props' in sys.argv:
        props = sys.argv[sys.argv.index('--props') + 1].split(',')
    out = {'seed': str(seed)}
    sh('git checkout -- .', wt)
    rc, o = sh(f'timeout 120 {PY} {seed}/demo.py', wt)
    out['demo_clean_rc'] = rc
    rc, o = sh(f'git apply {seed}/patch.diff', wt)
    if rc != 0:
        out['apply_error'] = o[-300:]
        print(json.dumps(out, indent=1))
        return 1
    try:
        rc, o = sh(f'timeout 120 {PY} {seed}/demo.py', wt)
        out['demo_patched_rc'] = rc
        out['demo_patched_tail'] = o.strip().splitlines()[-3:]
        if not no_tests:
            rc, o = sh(f'{PY} -m pytest -q -p no:cacheprovider --timeout=900 --continue-on-collection-errors 2>&1 | tail -1', wt, timeout=1800)
            out['tests'] = o.strip().splitlines()[-1] if o.strip() else ''
            out['tests_same'] = BASE in out['tests']
        env = dict(os.environ, CIRBO_VERIF_REPO=str(wt), CIRBO_VERIF_EVIDENCE=f'/tmp/dev/ev_{wt.name}')
        verdicts = {}
        for p in (props or [f'C{i:02d}' for i in range(1, 21)]):
            rc, o = sh(f'{PY} -m cirbo_verif check {p}', '/verif', env=env)
            if rc != 0:
                lines = [l for l in o.splitlines() if l.startswith(('VIOLATION', '  rule', 'ANALYSIS-ERROR'))]
                verdicts[p] = {'rc': rc, 'lines': [l[:260] for l in lines[:6]]}
        out['caught_by'] = verdicts
    finally:
        sh('git checkout -- .', wt)
    print(json.dumps(out, indent=1))
    return 0


if __name__ == '__main__':
    sys.exit(main())
