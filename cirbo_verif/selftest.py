"""Testing the checker both ways (thorough tier and development).

Each mutant is a still-compiling textual edit of one file of the *current* tree,
applied to a scratch copy outside /repo and /verif (tempfile, removed afterwards).
`expect` names the rule that must report a violation ("must fire"); `expect=None`
marks a behaviour-preserving twin that must stay silent.

A mutant whose `old` text is no longer present (the tree moved on) is *skipped* and
listed in the evidence; it is never a verdict about the repository.
"""

from __future__ import annotations

import ast
import multiprocessing as mp
import os
import pathlib
import random
import shutil
import tempfile
import time

from .core import REPO
from . import report


def _copy_tree(dst: pathlib.Path, root=REPO):
    def ignore(d, names):
        return [n for n in names if n == '__pycache__' or n.endswith(('.xz', '.bin', '.pyc'))]

    shutil.copytree(root / 'cirbo', dst / 'cirbo', ignore=ignore)
    # the shipped data files are large and never mutated: link them instead of copying
    for f in (root / 'cirbo' / 'data').glob('*.xz'):
        (dst / 'cirbo' / 'data').mkdir(exist_ok=True)
        os.symlink(f, dst / 'cirbo' / 'data' / f.name)


def _apply(root: pathlib.Path, m) -> str:
    p = root / m['file']
    if not p.exists():
        return 'skip: file missing'
    s = p.read_text()
    cnt = s.count(m['old'])
    if cnt == 0:
        return 'skip: anchor text not present in the current tree'
    if cnt > 1 and not m.get('all'):
        idx = m.get('nth')
        if idx is None:
            return f'skip: anchor text ambiguous ({cnt} matches)'
        pos = -1
        for _ in range(idx + 1):
            pos = s.index(m['old'], pos + 1)
        s2 = s[:pos] + m['new'] + s[pos + len(m['old']):]
    else:
        s2 = s.replace(m['old'], m['new'])
    try:
        ast.parse(s2)
    except SyntaxError as e:
        return f'skip: mutant does not compile ({e})'
    p.write_text(s2)
    return 'ok'


def _one(m):
    from .__main__ import run_check

    tmp = pathlib.Path(tempfile.mkdtemp(prefix='cirbo_verif_mut_'))
    try:
        _copy_tree(tmp)
        st = _apply(tmp, m)
        if st != 'ok':
            return {'id': m['id'], 'status': st}
        os.environ['CIRBO_VERIF_REPO'] = str(tmp)
        code, ck, err = run_check(m['prop'], 'quick', repo_root=tmp, write=False)
        if err:
            return {'id': m['id'], 'status': 'analysis-error', 'detail': err.splitlines()[0][:300]}
        known = report.load_known()
        viol = [o for o in ck.obligations if o.status == 'violation' and not any(report._matches(e, m['prop'], o) for e in known)]
        rules = sorted({o.rule for o in viol})
        if m.get('expect'):
            hit = [o for o in viol if o.rule == m['expect'] or o.rule.startswith(m['expect'])]
            if hit:
                return {'id': m['id'], 'status': 'fired', 'rule': hit[0].rule, 'where': str(hit[0].loc)[:160]}
            if viol:
                # reported, but by another rule of the property's check than the one the mutant was written for
                # (typically the fold of the clause, after the shape rule became a soft one)
                return {'id': m['id'], 'status': 'fired', 'rule': viol[0].rule, 'expected_rule': m['expect'], 'where': str(viol[0].loc)[:160]}
            return {'id': m['id'], 'status': 'MISSED', 'rules_fired': rules}
        if viol:
            return {'id': m['id'], 'status': 'FALSE-ALARM', 'rules_fired': rules, 'where': str(viol[0].loc)[:160], 'msg': viol[0].msg[:200]}
        return {'id': m['id'], 'status': 'silent'}
    finally:
        shutil.rmtree(tmp, ignore_errors=True)


def all_mutants():
    from . import mutants

    return mutants.MUTANTS


def run_for(prop, seed=0, jobs=None):
    ms = [m for m in all_mutants() if m['prop'] == prop]
    if not ms:
        return {'selftest': {'mutants': 0, 'note': 'no seeded mutants registered for this property'}}
    random.Random(seed).shuffle(ms)
    t0 = time.time()
    jobs = jobs or min(16, os.cpu_count() or 4, len(ms))
    with mp.get_context('fork').Pool(jobs) as pool:
        results = pool.map(_one, ms)
    bad = [r for r in results if r['status'] in ('MISSED', 'FALSE-ALARM', 'analysis-error')]
    for r in bad:
        print(f'SELFTEST-{r["status"]}: property={prop} mutant={r["id"]} {r.get("rules_fired", r.get("detail", ""))}')
    summary = {
        'mutants': len(ms),
        'fired': sum(1 for r in results if r['status'] == 'fired'),
        'fired_by_another_rule_than_written_for': sum(1 for r in results if r['status'] == 'fired' and 'expected_rule' in r),
        'silent_twins_ok': sum(1 for r in results if r['status'] == 'silent'),
        'skipped': [r for r in results if r['status'].startswith('skip')],
        'problems': bad,
        'results': results,
        'wall_s': round(time.time() - t0, 2),
    }
    print(f'selftest {prop}: {summary["fired"]} fired, {summary["silent_twins_ok"]} silent twins ok, '
          f'{len(summary["skipped"])} skipped, {len(bad)} problems of {len(ms)} mutants')
    return {'selftest': summary}


def main(argv=None):
    import sys

    props = (argv or sys.argv[1:]) or sorted({m['prop'] for m in all_mutants()})
    rc = 0
    for p in props:
        out = run_for(p)['selftest']
        if out.get('problems') or out.get('skipped'):
            rc = 1
            for r in out.get('skipped', []):
                print('  skipped', r)
            for r in out.get('problems', []):
                print('  problem', r)
    return rc


if __name__ == '__main__':
    raise SystemExit(main())
