"""Model states for folding the representation-level primitives of `Circuit`
(functions that write the gate map / users index directly) with the mini-evaluator.

The primitives are label-parametric: labels are only stored and compared for
equality, so enumerating the equality patterns of small operand tuples and the
membership patterns (input / output / block member / used twice) is exhaustive for
those fragments up to the enumerated tuple length.
"""

from __future__ import annotations

import collections
import copy

from .core import AnalysisError, Repo
from .interp import Host, Instance, Interp, InterpRaise, RepoClass, RepoFunc
from .rewrites import FakeGate
from .tables import Denotations, GateTypeVal, gate_overrides

CIRCUIT = 'cirbo.core.circuit.circuit'
GATE_MOD = 'cirbo.core.circuit.gate'


class Model:
    def __init__(self, repo: Repo, den: Denotations, real_gates=False):
        self.repo = repo
        self.real_gates = real_gates
        self.den = den
        ov = gate_overrides(den)
        if not real_gates:
            ov[f'{GATE_MOD}.Gate'] = FakeGate
        self.types = {t.var: t for t in ov.values() if isinstance(t, GateTypeVal)}
        self.interp = Interp(repo, overrides=ov, max_steps=200_000)
        self.mod = repo.mod(CIRCUIT)
        self.circuit_cls = RepoClass(self.mod, self.mod.cls('Circuit'))
        self.block_cls = RepoClass(self.mod, self.mod.cls('Block'))

    def new_circuit(self, spec, outputs=(), blocks=()):
        """spec: list of (label, type_name, operands). Builds a well-formed state directly."""
        self.interp.steps = 0
        c = self.interp.instantiate(self.circuit_cls)
        d = c._d
        for need in ('_inputs', '_outputs', '_gates', '_gate_to_users', '_blocks'):
            if need not in d:
                raise AnalysisError(f'Circuit.__init__ does not create field {need} (representation changed)')
        for label, tname, operands in spec:
            d['_gates'][label] = self.gate(label, tname, operands)
            if tname == 'INPUT':
                d['_inputs'].append(label)
            for o in operands:
                d['_gate_to_users'].setdefault(o, []).append(label)
        d['_outputs'].extend(outputs)
        for name, ins, gs, outs in blocks:
            d['_blocks'][name] = self.interp.instantiate(self.block_cls, (name, c, list(ins), list(gs), list(outs)))
        return c

    def build_circuit(self, spec, outputs=(), blocks=()):
        """The same circuit built through the repository's own constructors, in the order of `spec` (which may list a gate
        before its operands, as a bench text may): `_emplace_gate` per gate -- the unchecked constructor the parser uses --
        and `set_outputs`.  The users index is then whatever the repository's bookkeeping makes of it."""
        self.interp.steps = 0
        c = self.interp.instantiate(self.circuit_cls)
        emplace = RepoFunc(self.interp, self.mod, self.mod.func('Circuit._emplace_gate'), bound_self=c)
        for label, tname, operands in spec:
            self.interp.steps = 0
            emplace(label, self.types[tname], tuple(operands))
        RepoFunc(self.interp, self.mod, self.mod.func('Circuit.set_outputs'), bound_self=c)(list(outputs))
        for name, ins, gs, outs in blocks:
            self.interp.steps = 0
            RepoFunc(self.interp, self.mod, self.mod.func('Circuit.make_block'), bound_self=c)(name, list(gs), list(outs), list(ins))
        return c

    def call(self, c: Instance, method: str, *args, **kwargs):
        """Fold `Circuit.<method>` over the model; returns (result, error)."""
        self.interp.steps = 0
        self.den.interp.steps = 0
        fn = self.mod.func(f'Circuit.{method}')
        try:
            return RepoFunc(self.interp, self.mod, fn, bound_self=c)(*args, **kwargs), None
        except InterpRaise as e:
            return None, f'raise:{e.exc_name}'

    def gate(self, label, tname, operands=()):
        if self.real_gates:
            gm = self.repo.mod(GATE_MOD)
            return self.interp.instantiate(RepoClass(gm, gm.cls('Gate')), (label, self.types[tname], tuple(operands)))
        return FakeGate(label, self.types[tname], tuple(operands))


def snapshot(c: Instance):
    d = c._d
    return {
        'gates': {l: (g.gate_type.var, tuple(g.operands)) for l, g in d['_gates'].items()},
        'users': {k: sorted(v) for k, v in d['_gate_to_users'].items() if v},
        'inputs': list(d['_inputs']),
        'outputs': list(d['_outputs']),
        'blocks': {n: (list(b._d['_inputs']), list(b._d['_gates']), list(b._d['_outputs'])) for n, b in d['_blocks'].items()},
    }


def invariant_problems(c: Instance):
    """Violations of the well-formedness invariant I in a model state."""
    s = snapshot(c)
    probs = []
    gates = s['gates']
    for l, (t, ops) in gates.items():
        if c._d['_gates'][l].label != l:
            probs.append(f'gate stored under {l!r} is labelled {c._d["_gates"][l].label!r}')
        for o in ops:
            if o not in gates:
                probs.append(f'operand {o!r} of {l!r} names no gate')
    for o in s['outputs']:
        if o not in gates:
            probs.append(f'output {o!r} names no gate')
    inv = collections.defaultdict(list)
    for l, (t, ops) in gates.items():
        for o in ops:
            inv[o].append(l)
    inv = {k: sorted(v) for k, v in inv.items()}
    if inv != s['users']:
        probs.append(f'users index {s["users"]} != inverse operand multiset {inv}')
    want_inputs = sorted(l for l, (t, _) in gates.items() if t == 'INPUT')
    if sorted(s['inputs']) != want_inputs:
        probs.append(f'input list {s["inputs"]} != INPUT gates {want_inputs}')
    for n, (bi, bg, bo) in s['blocks'].items():
        # (C02: "every block's member and input labels name existing gates" -- the declared outputs of a block are not part of
        # the statement: a block may outlive a non-member gate it lists as an output)
        for l in bi + bg:
            if l not in gates:
                probs.append(f'block {n!r} names missing gate {l!r}')
    return probs


def rename_snapshot(s, old, new):
    r = lambda x: new if x == old else x  # noqa: E731
    return {
        'gates': {r(l): (t, tuple(r(o) for o in ops)) for l, (t, ops) in s['gates'].items()},
        'users': {r(k): sorted(r(u) for u in v) for k, v in s['users'].items()},
        'inputs': [r(x) for x in s['inputs']],
        'outputs': [r(x) for x in s['outputs']],
        'blocks': {n: ([r(x) for x in a], [r(x) for x in b], [r(x) for x in cc]) for n, (a, b, cc) in s['blocks'].items()},
    }


BASE_SPEC = [
    ('a', 'INPUT', ()), ('b', 'INPUT', ()), ('c', 'INPUT', ()),
    ('g1', 'AND', ('a', 'b')),
    ('g2', 'OR', ('g1', 'a')),
    ('g3', 'XOR', ('g1', 'g1')),
    ('g4', 'NOT', ('g2',)),
    ('g5', 'GT', ('g3', 'c')),
]
BASE_OUTPUTS = ('g4', 'g5', 'g4')
BASE_BLOCKS = (('B1', ('a', 'b'), ('g1', 'g2'), ('g2',)), ('B2', ('g1',), ('g3',), ('g3',)))
