"""C01 / C15 / C20: the evaluators and traversals of `Circuit` folded on model states.

`evaluate_full_circuit`, `evaluate_circuit` (explicit stack), `evaluate_circuit_outputs`, `evaluate`,
`evaluate_at`, `get_truth_table`, and the traversals `top_sort` / `dfs` / `bfs` are worklist
algorithms over the circuit graph.  They are unrolled by the mini-evaluator (general `while`
loops enabled for these folds only, under the step budget; the two generator methods run to
completion) on instances of the repository's own `Circuit` class for a bounded family of model
circuits and compared with their definitions.  This is bounded instantiation on finite models --
concrete interpretation of the source by the analyser's own evaluator, not an argument for all
circuits; the evidence says so.  Nothing of cirbo is imported or run.
"""

from __future__ import annotations

import itertools

from .core import AnalysisError, Checker
from . import circuit_model as cm
from .interp import InterpRaise, RepoFunc
from .passes import family
from .tables import Denotations, U
from . import semantics

CIRCUIT = 'cirbo.core.circuit.circuit'


def real_model(repo):
    M = cm.Model(repo, Denotations(repo))
    it = M.interp
    it.allow_while = True
    it.max_steps = 3_000_000
    it.eager_generators.add(f'{CIRCUIT}.top_sort')
    it.eager_generators.add(f'{CIRCUIT}._traverse_circuit')
    it.executed = {}
    return M


def _op(M, t, vals):
    f = M.types[t].operator
    if hasattr(f, 'interp'):
        f.interp.steps = 0
    return f(*vals)


def kleene(M, spec, assignment):
    """Reference: values of all gates in specification order (operands first), through the folded operators
    (their three-valued tables are C15.KLEENE's subject)."""
    v = {}
    for l, t, ops in spec:
        if t == 'INPUT':
            v[l] = assignment.get(l, U)
        else:
            v[l] = _op(M, t, [v[o] for o in ops])
    return v


def _small_family(tier):
    fam = family(tier)
    from .passes import HANDMADE
    k = len(HANDMADE)
    return fam[:k] + fam[k:k + (12 if tier == 'quick' else 200)]


def fold_evaluators(ck: Checker, R: str):
    """Total assignments: every evaluated gate has its denotation (C01).  Partial assignments (C15): a reported True/False holds
    under every completion, defining one more input never changes a defined result; absent inputs are Undefined; the caller's
    assignment is untouched; gates outside the demanded cone are Undefined for the demand-driven evaluator."""
    repo = ck.repo
    M = real_model(repo)
    mod = M.mod
    names = ('evaluate_full_circuit', 'evaluate_circuit', 'evaluate_circuit_outputs', 'evaluate', 'evaluate_at', 'get_truth_table')
    probs = {k: [] for k in names}
    n = 0
    variants = []
    for spec, outs in _small_family(ck.tier):
        variants.append((spec, outs, spec))
        inner = [x for x in spec if x[1] != 'INPUT']
        if len(inner) > 1:
            # the same circuit stored users-first (a bench file may list a gate before its operands)
            variants.append((spec, outs, [x for x in spec if x[1] == 'INPUT'] + inner[::-1]))
    for spec, outs, stored in variants:
        inputs = [l for l, t, _ in spec if t == 'INPUT']
        labels = [l for l, _, _ in spec]
        ops_of = {l: ops for l, _, ops in spec}
        # built through the repository's own constructors (so that the users index is the repository's own bookkeeping)
        try:
            c = M.build_circuit(stored, outs)
        except InterpRaise as e:
            probs['evaluate_full_circuit'].append(f'building the circuit through _emplace_gate / set_outputs raises {e.exc_name}')
            continue
        desc = f'{[(l, t) + tuple(o) for l, t, o in stored if t != "INPUT"]} (gates in storage order) outputs {list(outs)}'
        reach = set()
        stack = list(outs)
        while stack:
            l = stack.pop()
            if l not in reach:
                reach.add(l)
                stack.extend(ops_of[l])

        def denot(vals):
            v = {}
            for l, t, ops in spec:
                v[l] = vals[l] if t == 'INPUT' else semantics.value(t, [v[o] for o in ops])
            return v
        totals = {vals: denot(dict(zip(inputs, vals))) for vals in itertools.product((False, True), repeat=len(inputs))}
        for method, evaluated in (('evaluate_full_circuit', set(labels)), ('evaluate_circuit', reach)):
            res = {}
            for vals in itertools.product((False, True, U), repeat=len(inputs)):
                n += 1
                a = dict(zip(inputs, vals))
                given = dict(a)
                got, err = M.call(c, method, given)
                if err:
                    probs[method].append(f'{err} on {desc} with {a}')
                    continue
                if given != a:
                    probs[method].append(f'the caller\'s assignment was modified on {desc}')
                if set(got) != set(labels):
                    probs[method].append(f'result covers gates {sorted(got)} instead of every gate on {desc}')
                    continue
                res[vals] = got
                # absent inputs behave as Undefined ones
                part = {k: v for k, v in a.items() if v is not U}
                if len(part) != len(a):
                    got2, err2 = M.call(c, method, dict(part))
                    if err2 or any(got2.get(l) is not got[l] and got2.get(l) != got[l] for l in labels):
                        probs[method].append(f'leaving an input out of the assignment differs from giving it as Undefined on {desc} with {part}')
                for l in labels:
                    g = got[l]
                    if l not in evaluated:
                        if g is not U and l not in inputs:
                            probs[method].append(f'gate {l} outside the cone of the outputs is {g!r} instead of Undefined on {desc} with {a}')
                        continue
                    comps = [tv for tv in totals if all(v is U or v == tv[i] for i, v in enumerate(vals))]
                    if g is U:
                        if U not in vals:
                            probs[method].append(f'gate {l} is Undefined under the total assignment {a} on {desc}')
                    elif any(totals[tv][l] != g for tv in comps):
                        bad = next(tv for tv in comps if totals[tv][l] != g)
                        probs[method].append(f'gate {l} is reported {g!r} under {a} but evaluates to {totals[bad][l]!r} when the inputs are completed to {dict(zip(inputs, bad))} on {desc}')
                if len(probs[method]) > 3:
                    break
            # monotonicity: defining one more input never changes a defined result
            for vals, got in res.items():
                for i, v in enumerate(vals):
                    if v is not U:
                        continue
                    for nv in (False, True):
                        more = vals[:i] + (nv,) + vals[i + 1:]
                        if more in res:
                            for l in evaluated:
                                if got[l] is not U and res[more][l] != got[l]:
                                    probs[method].append(f'gate {l} is {got[l]!r} under {dict(zip(inputs, vals))} but {res[more][l]!r} once {inputs[i]} is also defined, on {desc}')
                                    break
        for vals in itertools.product((False, True, U), repeat=len(inputs)):
            a = dict(zip(inputs, vals))
            got, err = M.call(c, 'evaluate_circuit_outputs', dict(a))
            got_l, _ = M.call(c, 'evaluate_circuit', dict(a))
            if err or set(got) != set(outs) or any(got[o] is not got_l[o] and got[o] != got_l[o] for o in set(outs)):
                probs['evaluate_circuit_outputs'].append(f'{err or got} is not the restriction of evaluate_circuit to the outputs on {desc} with {a}')
        # positional interface and truth table (total assignments)
        for vals in itertools.product((False, True), repeat=len(inputs)):
            ref = totals[vals]
            got, err = M.call(c, 'evaluate', list(vals))
            if err or list(got) != [ref[o] for o in outs]:
                probs['evaluate'].append(f'{err or list(got)} instead of {[ref[o] for o in outs]} on {desc} with inputs {vals}')
            for k in range(len(outs)):
                got, err = M.call(c, 'evaluate_at', list(vals), k)
                if err or got is not ref[outs[k]]:
                    probs['evaluate_at'].append(f'output {k}: {err or got!r} instead of {ref[outs[k]]!r} on {desc} with inputs {vals}')
        got, err = M.call(c, 'get_truth_table')
        want_tt = [[totals[vals][o] for vals in itertools.product((False, True), repeat=len(inputs))] for o in outs]
        if err or [list(r) for r in got] != want_tt:
            probs['get_truth_table'].append(f'{err or [list(r) for r in got]} instead of {want_tt} on {desc}')
        if sum(len(v) for v in probs.values()) > 6:
            break
    for name, pr in probs.items():
        ck.check(not pr, R, mod, mod.func(f'Circuit.{name}'), f'{name} folded over the model-circuit family ({n} assignments over False/True/Undefined): total assignments give every evaluated gate its denotation, '
                 'a reported True/False holds under every completion, defining more inputs never changes a defined result, absent inputs are Undefined, inputs are bound by position, the caller\'s assignment is untouched',
                 '; '.join(pr[:2]), construct=f'Circuit.{name} over the circuit family')
    ck.assume('the evaluators are folded (worklist loops unrolled under a step budget) over a bounded family of model circuits with <= 3 inputs and <= 7 gates; larger circuits are covered only by the structural rules')
    return M


def fold_traversals(ck: Checker, R: str):
    """top_sort, dfs, bfs and the cycle check folded on model states and compared with their definitions (C20)."""
    repo = ck.repo
    M = real_model(repo)
    mod = M.mod
    vm = repo.mod('cirbo.core.circuit.validation')
    probs = {'top_sort': [], 'dfs': [], 'bfs': [], 'cycle': []}
    n = 0
    fam = _small_family(ck.tier)
    for spec, outs in fam:
        labels = [l for l, _, _ in spec]
        inputs = [l for l, t, _ in spec if t == 'INPUT']
        ops_of = {l: tuple(ops) for l, _, ops in spec}
        users_of = {l: [u for u, _, ops in spec for o in ops if o == l] for l in labels}
        inner = [x for x in spec if x[1] != 'INPUT']
        for stored in ([spec] + ([[x for x in spec if x[1] == 'INPUT'] + inner[::-1]] if len(inner) > 1 else [])):
            c = M.new_circuit(stored, outs)
            desc = f'{[(l, t) + tuple(o) for l, t, o in stored if t != "INPUT"]} (storage order) outputs {list(outs)}'
            for inverse in (False, True):
                n += 1
                got, err = M.call(c, 'top_sort', inverse=inverse)
                if err:
                    probs['top_sort'].append(f'{err} on {desc}')
                    continue
                order = [g.label for g in got]
                pos = {l: i for i, l in enumerate(order)}
                if sorted(order) != sorted(labels):
                    probs['top_sort'].append(f'top_sort(inverse={inverse}) yields {order}: not every gate exactly once, on {desc}')
                else:
                    bad = [(l, o) for l in labels for o in ops_of[l] if (pos[o] > pos[l]) == inverse]
                    if bad:
                        probs['top_sort'].append(f'top_sort(inverse={inverse}) yields {bad[0][0]} {"before" if inverse else "after"} its operand {bad[0][1]} on {desc}')
            starts = [None, [], [labels[-1]], [labels[-1], labels[-1]], list(inputs[:1]) + [labels[-1]]]
            for mode in ('dfs', 'bfs'):
                for inverse in (False, True):
                    for start in starts:
                        for tu in (False, True):
                            n += 1
                            ev = []
                            # every second configuration uses an enter hook that also looks up the state of every other gate
                            # (hooks receive the live state mapping; reading it must not change what is reported later)
                            peek = (n % 2 == 0)
                            kw = dict(inverse=inverse, on_enter_hook=(lambda g, s: ([s[x] for x in labels], ev.append(('enter', g.label)))) if peek else (lambda g, s: ev.append(('enter', g.label))), on_discover_hook=lambda g, s: ev.append(('discover', g.label)),
                                      unvisited_hook=lambda g, s: ev.append(('unvisited', g.label)), on_traversal_end_hook=lambda s: ev.append(('end', None)), topsort_unvisited=tu)
                            if mode == 'dfs':
                                kw['on_exit_hook'] = lambda g, s: ev.append(('exit', g.label))
                            got, err = M.call(c, mode, None if start is None else list(start), **kw)
                            tag = f'{mode}(start={start}, inverse={inverse}, topsort_unvisited={tu}) on {desc}'
                            if err:
                                probs[mode].append(f'{err}: {tag}')
                                continue
                            yielded = [g.label for g in got]
                            nxt = users_of if inverse else ops_of
                            begin = list(start) if start is not None else (list(inputs) if inverse else list(outs))
                            reach, st = set(), list(begin)
                            while st:
                                l = st.pop()
                                if l not in reach:
                                    reach.add(l)
                                    st.extend(nxt[l])
                            enters = [l for k, l in ev if k == 'enter']
                            exits = [l for k, l in ev if k == 'exit']
                            unv = [l for k, l in ev if k == 'unvisited']
                            msg = None
                            if sorted(yielded) != sorted(reach):
                                msg = f'yields {yielded}, the gates reachable from the start set are {sorted(reach)}'
                            elif enters != yielded:
                                msg = f'enter hooks {enters} do not match the yielded gates {yielded}'
                            elif sorted(unv) != sorted(set(labels) - reach):
                                msg = f'unvisited hook received {unv}, the unreached gates are {sorted(set(labels) - reach)}'
                            elif tu and any(unv.index(o) > unv.index(l) for l in unv for o in ops_of[l] if o in unv):
                                msg = f'unvisited gates {unv} are not reported operands-first although topsort_unvisited was requested'
                            elif any(k == 'discover' and (not [x for x in ev[:i] if x[0] == 'enter'] or l not in nxt[[x for x in ev[:i] if x[0] == 'enter'][-1][1]]) for i, (k, l) in enumerate(ev)):
                                msg = 'a discover hook fires for a gate that is not a successor of the gate entered last (enter hook must precede the discovery of the children)'
                            elif ev[-1:] != [('end', None)] or [k for k, _ in ev].count('end') != 1:
                                msg = 'the traversal-end hook does not fire exactly once, last'
                            elif mode == 'dfs':
                                if sorted(exits) != sorted(reach):
                                    msg = f'exit hooks {exits}: not one per reached gate'
                                else:
                                    idx = {('enter', l): i for i, (k, l) in enumerate(ev) if k == 'enter'}
                                    idx.update({('exit', l): i for i, (k, l) in enumerate(ev) if k == 'exit'})
                                    if any(idx[('enter', l)] > idx[('exit', l)] for l in reach):
                                        msg = 'an exit hook fires before the enter hook of the same gate'
                                    else:
                                        late = [(l, s_) for l in reach for s_ in nxt[l] if idx[('exit', s_)] > idx[('exit', l)]]
                                        if late:
                                            msg = f'{late[0][0]} exits before its successor {late[0][1]}: exit hooks are not in post-order'
                            if msg:
                                probs[mode].append(f'{msg}: {tag}')
                    if len(probs[mode]) > 3:
                        break
            # the cycle check accepts every acyclic circuit
            cyc = RepoFunc(M.interp, vm, vm.func('check_circuit_has_no_cycles'))
            M.interp.steps = 0
            try:
                cyc(c)
            except InterpRaise as e:
                probs['cycle'].append(f'raises {e.exc_name} on the acyclic circuit {desc}')
    # cyclic states: raised exactly when the cycle is reachable from the outputs
    cyc = RepoFunc(M.interp, vm, vm.func('check_circuit_has_no_cycles'))
    for spec, outs, cyclic in (
        ([('a', 'INPUT', ()), ('g', 'AND', ('a', 'h')), ('h', 'OR', ('g', 'a'))], ('h',), True),
        ([('a', 'INPUT', ()), ('g', 'AND', ('a', 'h')), ('h', 'OR', ('g', 'a')), ('k', 'NOT', ('a',))], ('k',), False),
        ([('a', 'INPUT', ()), ('g', 'NOT', ('g',))], ('g',), True),
        ([('a', 'INPUT', ()), ('g', 'XOR', ('a', 'a')), ('h', 'AND', ('g', 'g')), ('o', 'OR', ('h', 'g'))], ('o', 'o'), False),
        ([('a', 'INPUT', ()), ('p', 'AND', ('a', 'r')), ('q', 'OR', ('p', 'a')), ('r', 'NOT', ('q',)), ('o', 'IFF', ('q',))], ('o',), True),
        # several outputs: one nobody reads with an acyclic cone, the cycle only below outputs that other gates read (an output on the cycle)
        ([('a', 'INPUT', ()), ('b', 'INPUT', ()), ('k', 'NOT', ('b',)), ('p', 'AND', ('a', 'q')), ('q', 'OR', ('p', 'b'))], ('k', 'q'), True),
        ([('a', 'INPUT', ()), ('b', 'INPUT', ()), ('k', 'NOT', ('b',)), ('p', 'AND', ('a', 'q')), ('q', 'OR', ('p', 'b')), ('u', 'IFF', ('q',))], ('q', 'k', 'q'), True),
        # ... and the cycle in a part no output reaches
        ([('a', 'INPUT', ()), ('b', 'INPUT', ()), ('k', 'NOT', ('b',)), ('p', 'AND', ('a', 'q')), ('q', 'OR', ('p', 'b'))], ('k', 'a'), False),
    ):
        n += 1
        c = M.new_circuit(spec, outs)
        M.interp.steps = 0
        try:
            cyc(c)
            raised = None
        except InterpRaise as e:
            raised = e.exc_name
        if bool(raised) != cyclic or (raised and raised != 'CircuitValidationError'):
            probs['cycle'].append(f'{"raises " + raised if raised else "accepts"} {[(l, t) + tuple(o) for l, t, o in spec if t != "INPUT"]} outputs {list(outs)}, where a cycle is {"" if cyclic else "not "}reachable from the outputs')
    for name, (m_, fname) in {'top_sort': (mod, 'Circuit.top_sort'), 'dfs': (mod, 'Circuit.dfs'), 'bfs': (mod, 'Circuit.bfs'), 'cycle': (vm, 'check_circuit_has_no_cycles')}.items():
        ck.check(not probs[name], R, m_, m_.func(fname), {
            'top_sort': 'top_sort in both directions yields every gate exactly once, every gate after (before) all of its operands',
            'dfs': 'dfs from every start set in both directions yields exactly the reachable gates once each; enter before exit, exits in post-order; the unvisited hook gets exactly the unreached gates (operands-first on request); the end hook fires once, last',
            'bfs': 'bfs from every start set in both directions yields exactly the reachable gates once each; the unvisited hook gets exactly the unreached gates (operands-first on request); the end hook fires once, last',
            'cycle': 'check_circuit_has_no_cycles accepts every acyclic model circuit and raises CircuitValidationError exactly when a cycle is reachable from the outputs',
        }[name] + f' ({n} traversals folded over the model-circuit family)', '; '.join(probs[name][:2]), construct=f'{fname} over the circuit family')
    ck.assume('the traversals are folded (worklist loops unrolled under a step budget, generators run to completion) over a bounded family of model circuits; larger circuits are covered only by the structural rules')


def fold_codec(ck: Checker, R: str):
    """encode_circuit then decode_circuit folded on model circuits (C16): either a codec error, or a circuit with the same
    numbers of inputs, outputs and gates and the same truth table; circuits within the format always round-trip."""
    import random
    repo = ck.repo
    M = real_model(repo)
    it = M.interp
    it.real_super = True
    enc = repo.mod('cirbo.circuits_db.circuits_encoding')
    encode = RepoFunc(it, enc, enc.func('encode_circuit'))
    decode = RepoFunc(it, enc, enc.func('decode_circuit'))
    table = it.global_value(enc, '_gate_type_to_int')
    fmt = sorted(t.var for t in table)
    ga = RepoFunc(it, enc, enc.func('_get_arity'))
    arity = {t: ga(M.types[t]) for t in fmt}
    rnd = random.Random(160)
    names = ['q', 'm', 'z', 'c', 'w', 'e', 'u', 'k', 'p', 'd', 'v', 'h', 'r', 'j']
    cases = []
    for _ in range(40 if ck.tier == 'quick' else 400):
        n_in = rnd.choice((1, 2, 3, 4))
        n_g = rnd.randint(0, 6)
        nm = rnd.sample(names, n_in + n_g)
        spec = [(nm[i], 'INPUT', ()) for i in range(n_in)]
        inside = True
        for j in range(n_g):
            avail = [s[0] for s in spec]
            if rnd.random() < 0.12:
                # outside the format: another operand count, or a type the format does not list
                t = rnd.choice(['AND', 'XOR', 'NOT', 'LIFF'])
                k = rnd.choice((1, 3)) if t in ('AND', 'XOR') else (2 if t == 'NOT' else 2)
                inside = False
            else:
                t = rnd.choice(fmt)
                k = arity[t]
            spec.append((nm[n_in + j], t, tuple(rnd.choice(avail) for _ in range(k))))
        labels = [s[0] for s in spec]
        outs = [rnd.choice(labels) for _ in range(rnd.randint(0, 3))]
        stored = spec if rnd.random() < 0.5 else [x for x in spec if x[1] == 'INPUT'] + [x for x in spec if x[1] != 'INPUT'][::-1]
        cases.append((spec, outs, stored, rnd.random() < 0.3, inside))
    # stored users-first with a not-yet-defined operand that is shared by two users / listed twice by one
    for spec, outs in (
        ([('a', 'INPUT', ()), ('b', 'INPUT', ()), ('s', 'OR', ('a', 'b')), ('q', 'NOT', ('s',)), ('t', 'AND', ('s', 'q'))], ['t']),
        ([('a', 'INPUT', ()), ('b', 'INPUT', ()), ('s', 'NAND', ('a', 'b')), ('g', 'XOR', ('s', 's')), ('h', 'OR', ('g', 's'))], ['h', 'g']),
        ([('a', 'INPUT', ()), ('s', 'NOT', ('a',)), ('p', 'AND', ('s', 'a')), ('q', 'OR', ('s', 'p')), ('r', 'XOR', ('q', 'p'))], ['r', 's', 'r']),
    ):
        if all(t in fmt and arity[t] == len(ops) for _, t, ops in spec if t != 'INPUT'):
            cases.append((spec, outs, [x for x in spec if x[1] == 'INPUT'] + [x for x in spec if x[1] != 'INPUT'][::-1], False, True))
            cases.append((spec, outs, spec, True, True))
    probs = []
    n_rt = n_ref = 0
    from .compose_fold import state_values
    for spec, outs, stored, reorder, inside in cases:
        c = M.new_circuit(stored, outs)
        if reorder:
            c._d['_inputs'].reverse()
        inputs = list(c._d['_inputs'])
        desc = f'{[(l, t) + tuple(o) for l, t, o in stored if t != "INPUT"]} (storage order) inputs {inputs} outputs {list(outs)}'
        it.steps = 0
        M.den.interp.steps = 0
        try:
            data = encode(c)
        except InterpRaise as e:
            n_ref += 1
            if e.exc_name != 'CircuitEncodingError':
                probs.append(f'encoding raises {e.exc_name} (not a codec error) on {desc}')
            elif inside:
                probs.append(f'a circuit that uses only the types and operand counts of the format is refused on {desc}')
            continue
        it.steps = 0
        try:
            back = decode(data)
        except InterpRaise as e:
            probs.append(f'the encoder\'s own output is not decodable ({e.exc_name}) on {desc}')
            continue
        n_rt += 1
        b = back._d
        s0 = cm.snapshot(c)
        if (len(b['_inputs']), len(b['_outputs']), len(b['_gates'])) != (len(inputs), len(outs), len(s0['gates'])):
            probs.append(f'decoded circuit has {len(b["_inputs"])} inputs, {len(b["_outputs"])} outputs, {len(b["_gates"])} gates instead of {len(inputs)}, {len(outs)}, {len(s0["gates"])} on {desc}')
            continue
        if cm.invariant_problems(back):
            probs.append(f'decoded circuit is not well formed ({cm.invariant_problems(back)[0]}) on {desc}')
            continue
        try:
            for bits in itertools.product((False, True), repeat=len(inputs)):
                v0 = state_values(c, dict(zip(inputs, bits)))
                v1 = state_values(back, dict(zip(b['_inputs'], bits)))
                if [v0[o] for o in outs] != [v1[o] for o in b['_outputs']]:
                    probs.append(f'decoded circuit computes {[v1[o] for o in b["_outputs"]]} instead of {[v0[o] for o in outs]} on inputs {bits}: {desc}')
                    break
        except TypeError:
            probs.append(f'a gate with an operand count its operator does not take was encoded instead of refused on {desc}')
        if len(probs) > 3:
            break
    ck.check(not probs, R, enc, enc.func('encode_circuit'), f'encode_circuit / decode_circuit folded over {len(cases)} model circuits (every type of the format, storage in any order, re-ordered inputs, repeated and input outputs, '
             f'gates outside the format): {n_rt} round trips give the same numbers of inputs, outputs and gates and the same truth table, {n_ref} circuits are refused with CircuitEncodingError, none inside the format',
             '; '.join(probs[:2]), construct='encode_circuit / decode_circuit over the circuit family')
    ck.assume('the codec is folded (bit writer and reader included) over a bounded family of model circuits with <= 4 inputs and <= 6 gates')


def fold_database(ck: Checker, R: str):
    """An in-memory CircuitsDatabase folded end to end (C17, second clause): circuits for every normal-form table over two
    inputs are added, then every table with 1-2 (3 thorough) outputs is looked up -- normalise, key, decode through the codec,
    denormalise -- and the answer must compute exactly the requested table on every output in the requested order (through
    negation, reordering and duplicate outputs), or be None exactly when the normal form is not stored."""
    repo = ck.repo
    M = real_model(repo)
    it = M.interp
    it.real_super = True
    dbm = repo.mod('cirbo.circuits_db.db')
    from .interp import RepoClass
    from .compose_fold import state_values
    DB = RepoClass(dbm, dbm.cls('CircuitsDatabase'))
    rows2 = [r for r in itertools.product((False, True), repeat=4)]
    normal_rows = [r for r in rows2 if not r[0]]

    def circuit_for(rows):
        spec = [('a', 'INPUT', ()), ('b', 'INPUT', ())]
        outs = []
        for k, row in enumerate(rows):
            code = ''.join('1' if v else '0' for v in row)
            t = semantics.CODE_TO_NAME[code]
            # realised with the types the codec format defines (projections as buffers / negations of one input)
            t, ops = {'LIFF': ('IFF', ('a',)), 'RIFF': ('IFF', ('b',)), 'LNOT': ('NOT', ('a',)), 'RNOT': ('NOT', ('b',))}.get(t, (t, ('a', 'b')))
            spec.append((f't{k}', t, ops))
            outs.append(f't{k}')
        return M.new_circuit(spec, outs)

    probs = []
    it.steps = 0
    db = it.instantiate(DB)
    it.getattr(dbm, None, db, 'open')()
    stored = set()
    skip_some = {(normal_rows[3],), (normal_rows[1], normal_rows[5])}   # left out on purpose: their lookups must answer None
    import itertools as _it
    for k in (1, 2):
        for combo in _it.combinations(normal_rows, k):      # strictly increasing rows = normal form
            if combo in skip_some:
                continue
            it.steps = 0
            M.den.interp.steps = 0
            try:
                it.getattr(dbm, None, db, 'add_circuit')(circuit_for(combo))
                stored.add(combo)
            except InterpRaise as e:
                probs.append(f'adding a circuit for the normal-form table {combo} raises {e.exc_name}')
    # adding a circuit that is not in normal form is refused
    try:
        it.steps = 0
        it.getattr(dbm, None, db, 'add_circuit')(circuit_for([(True, False, False, False)]))
        probs.append('a circuit whose table is not in normal form was stored')
    except InterpRaise as e:
        if e.exc_name != 'CircuitsDatabaseError':
            probs.append(f'adding a circuit that is not normalised raises {e.exc_name}')
    n = 0
    n_out = (1, 2) if ck.tier == 'quick' else (1, 2, 3)
    for k in n_out:
        for tt in itertools.product(rows2, repeat=k):
            n += 1
            # the normal form by definition: complement rows starting with 1, sort, drop duplicates
            nf = tuple(sorted({tuple((not v) for v in r) if r[0] else tuple(r) for r in tt}))
            it.steps = 0
            M.den.interp.steps = 0
            try:
                got = it.getattr(dbm, None, db, 'get_by_raw_truth_table')([list(r) for r in tt])
            except InterpRaise as e:
                probs.append(f'lookup of {tt} raises {e.exc_name}')
                continue
            if nf not in stored:
                if got is not None:
                    probs.append(f'lookup of {tt} returns a circuit although its normal form {nf} is not stored')
                continue
            if got is None:
                probs.append(f'lookup of {tt} returns nothing although its normal form {nf} is stored')
                continue
            g = got._d
            if len(g['_outputs']) != k or len(g['_inputs']) != 2 or cm.invariant_problems(got):
                probs.append(f'lookup of {tt}: answer has {len(g["_inputs"])} inputs, {len(g["_outputs"])} outputs / is not well formed')
                continue
            table = [[state_values(got, dict(zip(g['_inputs'], bits)))[o] for bits in itertools.product((False, True), repeat=2)] for o in g['_outputs']]
            if table != [list(r) for r in tt]:
                probs.append(f'lookup of {tt} returns a circuit computing {table}')
            if len(probs) > 3:
                break
    ck.check(not probs, R, dbm, dbm.func('CircuitsDatabase.get_by_raw_truth_table'), f'an in-memory database folded end to end: {len(stored)} normal-form circuits added, {n} tables looked up (1-{n_out[-1]} outputs over two inputs): '
             'the answer computes exactly the requested table on every output in order (through negation, reordering, duplicates), None exactly when the normal form is not stored; unnormalised circuits are refused',
             '; '.join(probs[:2]), construct='CircuitsDatabase add / lookup over all two-input tables')
    ck.assume('the database is folded in memory over two-input tables (lookups through the shipped files are not folded; their entries are sampled by C17.SHIP)')


def fold_shipped(ck: Checker, R: str):
    """The shipped database files, sampled (C17, first clause): the files are *data*; they are split into entries on the host
    side following the layout of `binary_dict_io` (whose writer/reader pair C16 decides; the three width constants are read
    from the tree), and the repository's `decode_circuit` is folded over a spread of entries of every key length.  Each decoded
    circuit must be well formed, stay inside the basis the file is named after and compute exactly the truth table its key
    spells (`_truth_table_to_label` folded on the computed table gives back the key), and the key must be a normal form."""
    import lzma
    repo = ck.repo
    M = real_model(repo)
    it = M.interp
    it.real_super = True
    from .compose_fold import state_values
    dbm = repo.mod('cirbo.circuits_db.db')
    enc = repo.mod('cirbo.circuits_db.circuits_encoding')
    bio = repo.mod('cirbo.circuits_db.binary_dict_io')
    du = repo.mod('cirbo.circuits_db.data_utils')
    widths = []
    for name in ('DICT_SIZE_BYTE_SIZE', 'DICT_KEY_BYTE_SIZE', 'DICT_VALUE_BYTE_SIZE'):
        v = it.global_value(bio, name)
        if not isinstance(v, int) or isinstance(v, bool) or not 1 <= v <= 8:
            raise AnalysisError(f'{bio.rel}: {name} is not a small integer constant (layout of the dictionary file changed)')
        widths.append(v)
    W_N, W_K, W_V = widths
    decode = RepoFunc(it, enc, enc.func('decode_circuit'))
    to_label = RepoFunc(it, dbm, dbm.func('_truth_table_to_label'))
    n_sample = 60 if ck.tier == 'quick' else 400
    # per file: the gate types an entry may contain (the basis the file is named after; NOT/IFF are free)
    bases = {'aig_db.bin.xz': {'INPUT', 'NOT', 'IFF', 'AND', 'OR', 'NAND', 'NOR', 'GT', 'LT', 'GEQ', 'LEQ', 'ALWAYS_TRUE', 'ALWAYS_FALSE'},
             'xaig_db.bin.xz': {'INPUT', 'NOT', 'IFF', 'AND', 'OR', 'NAND', 'NOR', 'GT', 'LT', 'GEQ', 'LEQ', 'XOR', 'NXOR', 'ALWAYS_TRUE', 'ALWAYS_FALSE'}}
    total = 0
    for fname, allowed in bases.items():
        path = repo.root / 'cirbo' / 'data' / fname
        if not path.exists():
            raise AnalysisError(f'shipped database file cirbo/data/{fname} is missing')
        if fname not in open(du.path).read():
            raise AnalysisError(f'{du.rel} no longer names {fname}')
        raw = lzma.open(path, 'rb').read()
        n = int.from_bytes(raw[:W_N], 'big')
        pos = W_N
        entries = []
        try:
            for _ in range(n):
                kl = int.from_bytes(raw[pos:pos + W_K], 'big'); pos += W_K
                key = raw[pos:pos + kl].decode('utf-8'); pos += kl
                vl = int.from_bytes(raw[pos:pos + W_V], 'big'); pos += W_V
                val = raw[pos:pos + vl]; pos += vl
                if len(val) != vl:
                    raise ValueError('truncated')
                entries.append((key, val))
        except (ValueError, UnicodeDecodeError) as e:
            ck.bad(R, du, du.tree, f'cirbo/data/{fname} splits into entries under the layout of binary_dict_io', f'entry {len(entries)}: {e}', construct=f'shipped file {fname}')
            continue
        probs = []
        if pos != len(raw):
            probs.append(f'{len(raw) - pos} bytes follow the last of the {n} entries')
        # a spread: the first entries, the longest values, and an even stride through the file, every key length represented
        by_len = {}
        for i, (k, v) in enumerate(entries):
            by_len.setdefault(len(k), []).append(i)
        pick = set(range(min(12, n)))
        pick |= set(sorted(range(n), key=lambda i: -len(entries[i][1]))[:6])
        stride = max(1, n // n_sample)
        pick |= set(range(0, n, stride))
        for idxs in by_len.values():
            pick |= set(idxs[:3]) | set(idxs[-2:])
        for i in sorted(pick):
            key, val = entries[i]
            total += 1
            it.steps = 0
            M.den.interp.steps = 0
            try:
                c = decode(val)
            except InterpRaise as e:
                probs.append(f'entry {i} (key {key}) does not decode: {e.exc_name}')
                continue
            d = c._d
            inv = cm.invariant_problems(c)
            if inv:
                probs.append(f'entry {i} (key {key}) decodes to a malformed circuit: {inv[0]}')
                continue
            foreign = sorted({g.gate_type.var for g in d['_gates'].values()} - allowed)
            if foreign:
                probs.append(f'entry {i} (key {key}) of {fname} contains {foreign}, outside the basis of the file')
                continue
            ins = list(d['_inputs'])
            table = [[state_values(c, dict(zip(ins, bits)))[o] for bits in itertools.product((False, True), repeat=len(ins))] for o in d['_outputs']]
            it.steps = 0
            label = to_label(table)
            if label != key:
                probs.append(f'entry {i} of {fname} is stored under {key} but decodes to a circuit computing {label}')
                continue
            rows = [tuple(r) for r in table]
            if any(r and r[0] for r in rows) or rows != sorted(set(rows)):
                probs.append(f'entry {i} of {fname}: key {key} is not a normal form (rows start with 0, strictly increasing)')
            if len(probs) > 3:
                break
        ck.check(not probs, R, dbm, dbm.func('CircuitsDatabase.get_by_label'), f'shipped {fname}: {n} entries split under the dictionary layout, {len(pick)} of them (first, longest, an even stride, every key length) decoded by the folded decode_circuit: '
                 'well formed, inside the basis of the file, computing exactly the table the key spells, key in normal form', '; '.join(probs[:2]), construct=f'shipped file {fname} (sampled entries)')
    ck.notes['shipped_entries_decoded'] = total
    ck.assume('the shipped database files are sampled (a spread of entries), not decoded completely; the sampled entries are decoded by the repository\'s decoder instantiated in the analyser')


def fold_model_lookup(ck: Checker, R: str):
    """Lookups of tables with don't-cares on an in-memory database (C17, third clause): circuits of different sizes are stored
    for the normal-form two-input tables (some padded with redundant gates), then every single-output model over
    {0, 1, *} and a sample of two-output models is looked up: the answer agrees with every defined entry and is not larger
    than the stored circuit of any completion; None exactly when no completion is stored."""
    import random as _random
    repo = ck.repo
    M = real_model(repo)
    it = M.interp
    it.real_super = True
    dbm = repo.mod('cirbo.circuits_db.db')
    from .interp import RepoClass
    from .compose_fold import state_values
    DONT_CARE = it.global_value(repo.mod('cirbo.core.logic'), 'DontCare')     # the repository's own don't-care value

    def is_dc(v):
        return v is DONT_CARE
    DB = RepoClass(dbm, dbm.cls('CircuitsDatabase'))
    rows2 = [r for r in itertools.product((False, True), repeat=4)]
    normal_rows = [r for r in rows2 if not r[0]]
    rnd = _random.Random(1717)
    probs = []
    it.steps = 0
    db = it.instantiate(DB)
    it.getattr(dbm, None, db, 'open')()
    size_of = {}

    def nontrivial(c):
        # (the documented measure of Circuit.gates_number: inputs, negations, buffers and constants are free)
        return sum(1 for g in c._d['_gates'].values() if g.gate_type.var not in ('INPUT', 'NOT', 'LNOT', 'RNOT', 'IFF', 'LIFF', 'RIFF', 'ALWAYS_TRUE', 'ALWAYS_FALSE'))
    for k in (1, 2):
        for combo in itertools.combinations(normal_rows, k):
            if rnd.random() < 0.25:
                continue      # not stored
            spec = [('a', 'INPUT', ()), ('b', 'INPUT', ())]
            outs = []
            for j, row in enumerate(combo):
                code = ''.join('1' if v else '0' for v in row)
                t = semantics.CODE_TO_NAME[code]
                t, ops = {'LIFF': ('IFF', ('a',)), 'RIFF': ('IFF', ('b',)), 'LNOT': ('NOT', ('a',)), 'RNOT': ('NOT', ('b',))}.get(t, (t, ('a', 'b')))
                spec.append((f't{j}', t, ops))
                last = f't{j}'
                for p_ in range(rnd.choice((0, 0, 1, 2))):     # redundant gates: the same function, a larger circuit
                    spec.append((f't{j}p{p_}', 'AND', (last, last)))
                    last = f't{j}p{p_}'
                outs.append(last)
            c = M.build_circuit(spec, outs)
            it.steps = 0
            M.den.interp.steps = 0
            try:
                it.getattr(dbm, None, db, 'add_circuit')(c)
                size_of[combo] = nontrivial(c)
            except InterpRaise as e:
                probs.append(f'adding a circuit for the normal-form table {combo} raises {e.exc_name}')
    lookup = it.getattr(dbm, None, db, 'get_by_raw_truth_table_model')
    vals = (False, True, DONT_CARE)
    models = [[list(r)] for r in itertools.product(vals, repeat=4)]
    two = [[list(a), list(b)] for a in itertools.product(vals, repeat=4) for b in itertools.product(vals, repeat=4)]
    models += rnd.sample(two, 60 if ck.tier == 'quick' else 600)
    models += [[[True, True, False, DONT_CARE], [DONT_CARE] * 4], [[DONT_CARE] * 4, [False, True, True, False]], [[DONT_CARE, False, False, False], [DONT_CARE, True, True, True]]]
    n = 0
    for model in models:
        n += 1
        dc = [(i, j) for i, r in enumerate(model) for j, v in enumerate(r) if is_dc(v)]
        if len(dc) > 6:
            continue
        best = None
        for sub in itertools.product((False, True), repeat=len(dc)):
            t = [list(r) for r in model]
            for (i, j), v in zip(dc, sub):
                t[i][j] = v
            nf = tuple(sorted({tuple((not v) for v in r) if r[0] else tuple(r) for r in t}))
            if nf in size_of and (best is None or size_of[nf] < best):
                best = size_of[nf]
        text = '/'.join(''.join('*' if is_dc(v) else str(int(v)) for v in r) for r in model)
        it.steps = 0
        M.den.interp.steps = 0
        try:
            got = lookup([list(r) for r in model])
        except InterpRaise as e:
            probs.append(f'lookup of the model {text} raises {e.exc_name}')
            continue
        if best is None:
            if got is not None:
                probs.append(f'lookup of the model {text} returns a circuit although no completion is stored')
            continue
        if got is None:
            probs.append(f'lookup of the model {text} returns nothing although a completion is stored')
            continue
        g = got._d
        if len(g['_outputs']) != len(model) or len(g['_inputs']) != 2 or cm.invariant_problems(got):
            probs.append(f'lookup of the model {text}: answer has {len(g["_inputs"])} inputs, {len(g["_outputs"])} outputs / is not well formed')
            continue
        table = [[state_values(got, dict(zip(g['_inputs'], bits)))[o] for bits in itertools.product((False, True), repeat=2)] for o in g['_outputs']]
        wrong = [(i, j) for i, r in enumerate(model) for j, v in enumerate(r) if not is_dc(v) and table[i][j] != v]
        if wrong:
            probs.append(f'lookup of the model {text} returns a circuit computing {"/".join("".join(str(int(v)) for v in r) for r in table)}: entry {wrong[0]} is defined otherwise')
        elif nontrivial(got) > best:
            probs.append(f'lookup of the model {text} returns a circuit with {nontrivial(got)} gates although a completion is stored with {best}')
        if len(probs) > 3:
            break
    ck.check(not probs, R, dbm, dbm.func('CircuitsDatabase.get_by_raw_truth_table_model'), f'lookups with don\'t-cares folded on an in-memory database ({len(size_of)} stored normal forms of different sizes, {n} models): the answer agrees with every defined entry, '
             'is not larger than the stored circuit of any completion, and is None exactly when no completion is stored', '; '.join(probs[:2]), construct='get_by_raw_truth_table_model over an in-memory database')


from .interp import Host as _Host


class _MemFile(_Host):
    def __init__(self, fs, path, mode):
        import io
        self.fs, self.path, self.mode = fs, path, mode
        self.buf = io.StringIO(fs.get(path, '') if 'r' in mode else '')

    def __enter__(self):
        return self

    def __exit__(self, *a):
        self.close()
        return False

    def close(self):
        if 'w' in self.mode or 'a' in self.mode:
            self.fs[self.path] = self.buf.getvalue()

    def write(self, t):
        return self.buf.write(t)

    def writelines(self, lines):
        for l in lines:
            self.buf.write(l)

    def read(self, *a):
        return self.buf.read(*a)

    def readlines(self):
        return self.buf.readlines()

    def __iter__(self):
        return iter(self.buf)


class _MemPath(_Host):
    """pathlib.Path over an in-memory file system (save_to_file / from_bench_file are folded without touching the disk)."""

    FS: dict = {}

    def __init__(self, path):
        self.path = str(path.path if isinstance(path, _MemPath) else path)

    @property
    def parent(self):
        return _MemPath(self.path.rsplit('/', 1)[0] if '/' in self.path else '.')

    @property
    def suffix(self):
        return '.' + self.path.rsplit('.', 1)[1] if '.' in self.path.rsplit('/', 1)[-1] else ''

    def exists(self):
        return True

    def mkdir(self, *a, **k):
        return None

    def write_text(self, text, *a, **k):
        _MemPath.FS[self.path] = text
        return len(text)

    def read_text(self, *a, **k):
        return _MemPath.FS[self.path]

    def open(self, mode='r', *a, **k):
        if 'r' in mode and self.path not in _MemPath.FS:
            raise InterpRaise('FileNotFoundError')
        return _MemFile(_MemPath.FS, self.path, mode)

    def stat(self):
        # every file of this file system was written "within the same second": a size / time stamp pair does not identify contents
        if self.path not in _MemPath.FS:
            raise InterpRaise('FileNotFoundError')
        st = _Host()
        st.st_mtime = 1_700_000_000.25
        st.st_mtime_ns = 1_700_000_000_250_000_000
        st.st_size = len(_MemPath.FS[self.path].encode())
        return st

    def __str__(self):
        return self.path

    def __fspath__(self):
        return self.path


def fold_bench_round_trip(ck: Checker, R: str):
    """format_circuit then from_bench_string folded on model circuits built from the repository's own Gate class (C11):
    the circuit read back has the same inputs in order, the same outputs in order (duplicates kept), the same gates with the
    same types and operands; use before definition is tolerated; save_to_file writes that text."""
    repo = ck.repo
    from .tables import Denotations as _Den
    M = cm.Model(repo, _Den(repo), real_gates=True)
    it = M.interp
    it.real_super = True
    it.allow_while = True
    it.max_steps = 3_000_000
    it.overrides['pathlib.Path'] = _MemPath
    it.externals['pathlib.Path'] = _MemPath
    mod = M.mod
    C = it.global_value(mod, 'Circuit')
    parse = it.getattr(mod, None, C, 'from_bench_string')
    parse_file = it.getattr(mod, None, C, 'from_bench_file')

    def snap(c):
        d = c._d
        return ({l: (g.gate_type.name, tuple(g.operands)) for l, g in d['_gates'].items()}, list(d['_inputs']), list(d['_outputs']))
    fam = _small_family(ck.tier)
    probs = []
    n = 0
    odd_labels = {'a': 'in.1', 'b': 'x[0]', 'g': 'output_like', 'x1': 'INPUTX', 'o': 'n-1'}
    for spec, outs in fam:
        for variant in ('plain', 'users-first', 'odd-labels', 'inputs-reordered', 'through-a-file'):
            inner = [x for x in spec if x[1] != 'INPUT']
            if variant == 'users-first' and len(inner) < 2:
                continue
            ren = (lambda l: odd_labels.get(l, l)) if variant == 'odd-labels' else (lambda l: l)
            stored = [(ren(l), t, tuple(ren(o) for o in ops)) for l, t, ops in (spec if variant != 'users-first' else [x for x in spec if x[1] == 'INPUT'] + inner[::-1])]
            routs = [ren(o) for o in outs]
            n += 1
            c = M.new_circuit(stored, routs)
            if variant == 'inputs-reordered':
                c._d['_inputs'].reverse()      # order_inputs / set_inputs after construction
            desc = f'{[(l, t) + tuple(o) for l, t, o in stored if t != "INPUT"]} (storage order) inputs {list(c._d["_inputs"])} outputs {routs}' + (' saved to a file and loaded' if variant == 'through-a-file' else '')
            if variant == 'through-a-file':
                _MemPath.FS.clear()
                _, err = M.call(c, 'save_to_file', 'dir/sub/c.bench')
                if err:
                    probs.append(f'save_to_file raises {err} on {desc}')
                    continue
                it.steps = 0
                try:
                    back = parse_file('dir/sub/c.bench')
                except InterpRaise as e:
                    probs.append(f'the saved file is not readable ({e.exc_name}) for {desc}: {_MemPath.FS.get("dir/sub/c.bench")!r}'[:400])
                    continue
                # the same path overwritten by another circuit whose text has the same length (two operands swapped) and loaded again
                k_ = next((i for i, (l, t, ops) in enumerate(stored) if len(ops) == 2 and ops[0] != ops[1]), None)
                if k_ is not None:
                    stored2 = list(stored)
                    stored2[k_] = (stored[k_][0], stored[k_][1], (stored[k_][2][1], stored[k_][2][0]))
                    c2 = M.new_circuit(stored2, routs)
                    _, err = M.call(c2, 'save_to_file', 'dir/sub/c.bench')
                    it.steps = 0
                    try:
                        back2 = None if err else parse_file('dir/sub/c.bench')
                    except InterpRaise as e:
                        back2, err = None, e.exc_name
                    if back2 is None:
                        probs.append(f'saving / loading a second circuit under the same path raises {err} for {desc}')
                    elif snap(back2) != snap(c2):
                        probs.append(f'a file overwritten with another circuit of the same text length loads as the circuit saved before, for {desc}')
            else:
                text, err = M.call(c, 'format_circuit')
                if err:
                    probs.append(f'format_circuit raises {err} on {desc}')
                    continue
                it.steps = 0
                try:
                    back = parse(text)
                except InterpRaise as e:
                    probs.append(f'the printed text is not readable ({e.exc_name}) for {desc}: {text!r}'[:400])
                    continue
                if variant == 'plain':
                    # comments and blank lines anywhere, whatever they contain, denote nothing
                    lines = text.split('\n')
                    mid = max(1, len(lines) // 2)
                    noisy = '\n'.join(['# outputs (sum, carry', ''] + lines[:mid] + ['#:-( unbalanced ) ) (', '', '# INPUT(zzz) OUTPUT(zzz) q = AND(a, b'] + lines[mid:] + ['# the end ('])
                    it.steps = 0
                    try:
                        nb = parse(noisy)
                        if snap(nb) != snap(back):
                            probs.append(f'the same text with comment and blank lines parses to another circuit ({snap(nb)[2]} outputs, {len(snap(nb)[0])} gates) for {desc}')
                    except InterpRaise as e:
                        probs.append(f'the same text with comment and blank lines is refused ({e.exc_name}) for {desc}')
            s0, s1 = snap(c), snap(back)
            if s0[1] != s1[1]:
                probs.append(f'inputs read back as {s1[1]} instead of {s0[1]} for {desc}')
            elif s0[2] != s1[2]:
                probs.append(f'outputs read back as {s1[2]} instead of {s0[2]} for {desc}')
            elif s0[0] != s1[0]:
                diff = [l for l in s0[0] if s1[0].get(l) != s0[0][l]] or [l for l in s1[0] if l not in s0[0]]
                probs.append(f'gate {diff[0]} read back as {s1[0].get(diff[0])} instead of {s0[0].get(diff[0])} for {desc}')
            elif cm.invariant_problems(back):
                probs.append(f'the circuit read back is not well formed ({cm.invariant_problems(back)[0]}) for {desc}')
            if len(probs) > 3:
                break
    ck.check(not probs, R, mod, mod.func('Circuit.format_circuit'), f'format_circuit then from_bench_string folded over {n} model circuits (all gate types, n-ary gates, constants with operands, repeated and input outputs, '
             'gates stored users-first, unusual labels): same inputs and outputs in order, same gates, well formed', '; '.join(probs[:2]), construct='format_circuit / from_bench_string round trip')
    ck.assume('the bench round trip is folded over a bounded family of model circuits; save_to_file / from_bench_file are folded over an in-memory stand-in for pathlib.Path')
