"""C01 / C15 / C20: the evaluators and traversals of `Circuit` folded on model states.

`evaluate_full_circuit`, `evaluate_circuit` (explicit stack), `evaluate_circuit_outputs`, `evaluate`,
`evaluate_at`, `get_truth_table`, and the traversals `top_sort` / `dfs` / `bfs` are worklist
algorithms over the circuit graph.  They are unrolled by the mini-evaluator (general `while`
loops enabled for these folds only, under the step budget; the two generator methods run to
completion) on instances of the repository's own `Circuit` class for a bounded family of model
circuits and compared with their definitions.  This is bounded instantiation on finite models --
concrete interpretation of the source by the analyser's own evaluator, not an argument for all
circuits; the evidence says so.  Nothing of cirbo is imported or run.
"""

from __future__ import annotations

import itertools

from .core import AnalysisError, Checker
from . import circuit_model as cm
from .interp import InterpRaise, RepoFunc
from .passes import family
from .tables import Denotations, U
from . import semantics

CIRCUIT = 'cirbo.core.circuit.circuit'


def real_model(repo):
    M = cm.Model(repo, Denotations(repo))
    it = M.interp
    it.allow_while = True
    it.max_steps = 3_000_000
    it.eager_generators.add(f'{CIRCUIT}.top_sort')
    it.eager_generators.add(f'{CIRCUIT}._traverse_circuit')
    return M


def _op(M, t, vals):
    f = M.types[t].operator
    if hasattr(f, 'interp'):
        f.interp.steps = 0
    return f(*vals)


def kleene(M, spec, assignment):
    """Reference: values of all gates in specification order (operands first), through the folded operators
    (their three-valued tables are C15.KLEENE's subject)."""
    v = {}
    for l, t, ops in spec:
        if t == 'INPUT':
            v[l] = assignment.get(l, U)
        else:
            v[l] = _op(M, t, [v[o] for o in ops])
    return v


def _small_family(tier):
    fam = family(tier)
    from .passes import HANDMADE
    k = len(HANDMADE)
    return fam[:k] + fam[k:k + (12 if tier == 'quick' else 200)]


def fold_evaluators(ck: Checker, R: str):
    """Total assignments: every evaluated gate has its denotation (C01).  Partial assignments (C15): a reported True/False holds
    under every completion, defining one more input never changes a defined result; absent inputs are Undefined; the caller's
    assignment is untouched; gates outside the demanded cone are Undefined for the demand-driven evaluator."""
    repo = ck.repo
    M = real_model(repo)
    mod = M.mod
    names = ('evaluate_full_circuit', 'evaluate_circuit', 'evaluate_circuit_outputs', 'evaluate', 'evaluate_at', 'get_truth_table')
    probs = {k: [] for k in names}
    n = 0
    variants = []
    for spec, outs in _small_family(ck.tier):
        variants.append((spec, outs, spec))
        inner = [x for x in spec if x[1] != 'INPUT']
        if len(inner) > 1:
            # the same circuit stored users-first (a bench file may list a gate before its operands)
            variants.append((spec, outs, [x for x in spec if x[1] == 'INPUT'] + inner[::-1]))
    for spec, outs, stored in variants:
        inputs = [l for l, t, _ in spec if t == 'INPUT']
        labels = [l for l, _, _ in spec]
        ops_of = {l: ops for l, _, ops in spec}
        c = M.new_circuit(stored, outs)
        desc = f'{[(l, t) + tuple(o) for l, t, o in stored if t != "INPUT"]} (gates in storage order) outputs {list(outs)}'
        reach = set()
        stack = list(outs)
        while stack:
            l = stack.pop()
            if l not in reach:
                reach.add(l)
                stack.extend(ops_of[l])

        def denot(vals):
            v = {}
            for l, t, ops in spec:
                v[l] = vals[l] if t == 'INPUT' else semantics.value(t, [v[o] for o in ops])
            return v
        totals = {vals: denot(dict(zip(inputs, vals))) for vals in itertools.product((False, True), repeat=len(inputs))}
        for method, evaluated in (('evaluate_full_circuit', set(labels)), ('evaluate_circuit', reach)):
            res = {}
            for vals in itertools.product((False, True, U), repeat=len(inputs)):
                n += 1
                a = dict(zip(inputs, vals))
                given = dict(a)
                got, err = M.call(c, method, given)
                if err:
                    probs[method].append(f'{err} on {desc} with {a}')
                    continue
                if given != a:
                    probs[method].append(f'the caller\'s assignment was modified on {desc}')
                if set(got) != set(labels):
                    probs[method].append(f'result covers gates {sorted(got)} instead of every gate on {desc}')
                    continue
                res[vals] = got
                # absent inputs behave as Undefined ones
                part = {k: v for k, v in a.items() if v is not U}
                if len(part) != len(a):
                    got2, err2 = M.call(c, method, dict(part))
                    if err2 or any(got2.get(l) is not got[l] and got2.get(l) != got[l] for l in labels):
                        probs[method].append(f'leaving an input out of the assignment differs from giving it as Undefined on {desc} with {part}')
                for l in labels:
                    g = got[l]
                    if l not in evaluated:
                        if g is not U and l not in inputs:
                            probs[method].append(f'gate {l} outside the cone of the outputs is {g!r} instead of Undefined on {desc} with {a}')
                        continue
                    comps = [tv for tv in totals if all(v is U or v == tv[i] for i, v in enumerate(vals))]
                    if g is U:
                        if U not in vals:
                            probs[method].append(f'gate {l} is Undefined under the total assignment {a} on {desc}')
                    elif any(totals[tv][l] != g for tv in comps):
                        bad = next(tv for tv in comps if totals[tv][l] != g)
                        probs[method].append(f'gate {l} is reported {g!r} under {a} but evaluates to {totals[bad][l]!r} when the inputs are completed to {dict(zip(inputs, bad))} on {desc}')
                if len(probs[method]) > 3:
                    break
            # monotonicity: defining one more input never changes a defined result
            for vals, got in res.items():
                for i, v in enumerate(vals):
                    if v is not U:
                        continue
                    for nv in (False, True):
                        more = vals[:i] + (nv,) + vals[i + 1:]
                        if more in res:
                            for l in evaluated:
                                if got[l] is not U and res[more][l] != got[l]:
                                    probs[method].append(f'gate {l} is {got[l]!r} under {dict(zip(inputs, vals))} but {res[more][l]!r} once {inputs[i]} is also defined, on {desc}')
                                    break
        for vals in itertools.product((False, True, U), repeat=len(inputs)):
            a = dict(zip(inputs, vals))
            got, err = M.call(c, 'evaluate_circuit_outputs', dict(a))
            got_l, _ = M.call(c, 'evaluate_circuit', dict(a))
            if err or set(got) != set(outs) or any(got[o] is not got_l[o] and got[o] != got_l[o] for o in set(outs)):
                probs['evaluate_circuit_outputs'].append(f'{err or got} is not the restriction of evaluate_circuit to the outputs on {desc} with {a}')
        # positional interface and truth table (total assignments)
        for vals in itertools.product((False, True), repeat=len(inputs)):
            ref = totals[vals]
            got, err = M.call(c, 'evaluate', list(vals))
            if err or list(got) != [ref[o] for o in outs]:
                probs['evaluate'].append(f'{err or list(got)} instead of {[ref[o] for o in outs]} on {desc} with inputs {vals}')
            for k in range(len(outs)):
                got, err = M.call(c, 'evaluate_at', list(vals), k)
                if err or got is not ref[outs[k]]:
                    probs['evaluate_at'].append(f'output {k}: {err or got!r} instead of {ref[outs[k]]!r} on {desc} with inputs {vals}')
        got, err = M.call(c, 'get_truth_table')
        want_tt = [[totals[vals][o] for vals in itertools.product((False, True), repeat=len(inputs))] for o in outs]
        if err or [list(r) for r in got] != want_tt:
            probs['get_truth_table'].append(f'{err or [list(r) for r in got]} instead of {want_tt} on {desc}')
        if sum(len(v) for v in probs.values()) > 6:
            break
    for name, pr in probs.items():
        ck.check(not pr, R, mod, mod.func(f'Circuit.{name}'), f'{name} folded over the model-circuit family ({n} assignments over False/True/Undefined): total assignments give every evaluated gate its denotation, '
                 'a reported True/False holds under every completion, defining more inputs never changes a defined result, absent inputs are Undefined, inputs are bound by position, the caller\'s assignment is untouched',
                 '; '.join(pr[:2]), construct=f'Circuit.{name} over the circuit family')
    ck.assume('the evaluators are folded (worklist loops unrolled under a step budget) over a bounded family of model circuits with <= 3 inputs and <= 7 gates; larger circuits are covered only by the structural rules')
    return M
