"""E2 extractor: bit-parallel pattern simulator of cirbo/minimization/subcircuit.py."""

from __future__ import annotations

from .core import Checker
from .interp import Host, Interp, InterpRaise, RepoFunc
from . import semantics

SUBC = 'cirbo.minimization.subcircuit'


def eval_pattern(repo, tname, n):
    """Result pattern of `eval_pattern` on the n canonical operand patterns over 3 variables
    (8 bit columns), or 'raise:<E>'. Column k of operand i holds bit i of k.  The simulator is an
    instance of the repository's own class (so helper methods and class-level tables are found)."""
    from .interp import RepoClass
    mod = repo.mod(SUBC)
    it = Interp(repo)
    it.real_super = True
    obj = it.instantiate(RepoClass(mod, mod.cls('_PatternOperations')), (3,), {})
    pats = [0xF0, 0xCC, 0xAA][:n]
    try:
        res = it.getattr(mod, None, obj, 'eval_pattern')(list(pats), tname)
    except InterpRaise as e:
        return f'raise:{e.exc_name}', obj
    return res, obj


def check(ck: Checker, rule: str, max_nary=3):
    """Every gate-type name either denotes the oracle function (for every legal arity up
    to 3 operands) or is rejected with UnsupportedOperationError."""
    repo = ck.repo
    mod = repo.mod(SUBC)
    fn = mod.func('_PatternOperations.eval_pattern')
    supported = []
    for tname in semantics.ALL_TYPES:
        if tname == 'INPUT':
            continue
        for n in semantics.arities(tname, max_nary):
            if n == 0:
                continue
            res, obj = eval_pattern(repo, tname, n)
            cons = f'eval_pattern {tname}/{n}'
            if isinstance(res, str):
                ck.check(res == 'raise:UnsupportedOperationError', rule, mod, fn,
                         f'{tname}/{n} is either simulated exactly or rejected with UnsupportedOperationError',
                         f'{tname} with {n} operands fails with {res} instead of being rejected or simulated', construct=cons)
                continue
            supported.append(tname)
            probs = []
            if not isinstance(res, int) or not (0 <= res <= obj.max_pattern):
                probs.append(f'pattern {res!r} outside 0..max_pattern')
            else:
                for k in range(8):
                    xs = [bool((p >> k) & 1) for p in [0xF0, 0xCC, 0xAA][:n]]
                    want = semantics.value(tname, xs)
                    got = bool((res >> k) & 1)
                    if got != want:
                        probs.append(f'operands {tuple(int(x) for x in xs)}: pattern bit {int(got)}, {tname} gives {int(want)}')
            ck.check(not probs, rule, mod, fn, f'pattern simulation of {tname} with {n} operands denotes {tname}',
                     '; '.join(probs[:3]) + (f' (+{len(probs) - 3} more)' if len(probs) > 3 else ''), construct=cons)
    return sorted(set(supported))
