"""E2 extractor: Tseytin clause templates (cirbo/sat/cnf/tseytin.py)."""

from __future__ import annotations

import ast
import itertools

from .core import AnalysisError, Checker, gate_const, norm
from .interp import Interp, InterpRaise, RepoFunc
from . import semantics

TSEYTIN = 'cirbo.sat.cnf.tseytin'


class DispatchTable(dict):
    """{gate type name: (module, display name, value node, key node)} plus, per type, the callable the table holds -- obtained by
    *evaluating* the table expression, so closures, partial applications, callable records and spread sub-tables all count -- and
    the syntax node findings are attached to (the function definition when the value is a plain function)."""

    def __init__(self):
        super().__init__()
        self.calls = {}
        self.nodes = {}


def evaluated_table(repo, mod, it, dict_node, what):
    """Evaluate a dictionary expression whose keys are gate types; returns a DispatchTable or None when it is not such a table."""
    from .interp import Env
    from .tables import GateTypeVal
    try:
        val = it.eval(mod, dict_node, Env())
    except (AnalysisError, InterpRaise):
        return None
    if not isinstance(val, dict) or not val or not all(isinstance(k, GateTypeVal) for k in val):
        return None
    explicit = {}
    if isinstance(dict_node, ast.Dict):
        for k, v in zip(dict_node.keys, dict_node.values):
            if k is not None:
                t = gate_const(repo, mod, k)
                if t is not None:
                    explicit[t] = (k, v)
    table = DispatchTable()
    for k, call in val.items():
        t = k.var
        knode, vnode = explicit.get(t, (dict_node, dict_node))
        if isinstance(call, RepoFunc) and isinstance(call.node, (ast.FunctionDef, ast.Lambda)) and call.closure is None:
            hmod, hname, node = call.mod, hmod_qualname(call), call.node
        else:
            hmod, node = mod, vnode
            hname = getattr(call, '__name__', None) or norm(vnode)[:60]
            if isinstance(call, RepoFunc):
                hmod, node, hname = call.mod, call.node, hmod_qualname(call)
        if not callable(call):
            return None      # a table of something else (data records per gate type)
        table[t] = (hmod, hname, vnode, knode)
        table.calls[t] = call
        table.nodes[t] = node
    return table


def hmod_qualname(call):
    try:
        return call.mod.qualname_of(call.node) if not isinstance(call.node, ast.FunctionDef) else next((q for q, n in call.mod.functions.items() if n is call.node), call.node.name)
    except Exception:
        return getattr(call.node, 'name', '<lambda>')


def find_operations(ck: Checker):
    """Locate the dispatch table from gate types to clause templates (`_operations` on the pinned tree) by what it is: the one
    dictionary expression -- local to the transformation or at module level, under whatever name, possibly assembled from
    sub-tables -- that evaluates to a mapping from at least eight gate types to callables.  Returns (mod, fn, dict_node, table)."""
    from .tables import Denotations, gate_overrides
    repo = ck.repo
    mod = repo.mod(TSEYTIN)
    fn = mod.func('tseytin_transformation')
    it = Interp(repo, overrides=gate_overrides(Denotations(repo)))
    cands = []

    def consider(name, value):
        if isinstance(value, ast.Dict) and all(k is None or gate_const(repo, mod, k) is not None for k in value.keys):
            table = evaluated_table(repo, mod, it, value, name)
            if table is not None and len(table) >= 8:
                cands.append((name, value, table))
    for node in ast.walk(fn):
        if isinstance(node, (ast.Assign, ast.AnnAssign)):
            tgt = node.targets[0] if isinstance(node, ast.Assign) else node.target
            if isinstance(tgt, ast.Name) and node.value is not None:
                consider(tgt.id, node.value)
    for name, value in mod.assigns.items():
        consider(name, value)
    # (a table assembled from sub-tables shows up together with its parts: the largest one is the dispatch table)
    cands.sort(key=lambda c: -len(c[2]))
    if not cands or (len(cands) > 1 and len(cands[0][2]) == len(cands[1][2]) and cands[0][1] is not cands[1][1] and set(cands[0][2]) != set(cands[1][2])):
        raise AnalysisError(f'{mod.rel}: dispatch dictionary from gate types to clause templates not found ({len(cands)} candidates)')
    dict_name, dict_node, table = cands[0]
    dict_node._dispatch_name = dict_name
    return mod, fn, dict_node, table


def clauses_of(repo, hmod, hname, n, call=None):
    """Clause list the handler emits for operand literals 1..n and top literal n+1.

    Returns list of clauses or the string 'raise:<E>'.
    """
    if call is None:
        it = Interp(repo)
        call = RepoFunc(it, hmod, hmod.func(hname))
    if hasattr(call, 'interp'):
        call.interp.steps = 0
    cnf: list = []
    try:
        call(cnf, n + 1, list(range(1, n + 1)))
    except InterpRaise as e:
        return f'raise:{e.exc_name}'
    for cl in cnf:
        if not isinstance(cl, list) or not all(isinstance(x, int) and not isinstance(x, bool) and x != 0 for x in cl):
            raise AnalysisError(f'{hmod.rel}: handler {hname} emitted a non-clause {cl!r}')
    return cnf


def satisfied(cnf, assign):
    """assign: dict var->bool."""
    for cl in cnf:
        if not any(assign[abs(l)] == (l > 0) for l in cl):
            return False
    return True


def check_template(name, n, cnf):
    """Is cnf (over vars 1..n+1) equivalent to  var(n+1) <-> f_name(1..n)?  Returns list of problems."""
    problems = []
    used = {abs(l) for cl in cnf for l in cl}
    extra = used - set(range(1, n + 2))
    if extra:
        problems.append(f'mentions literals outside {{top, operands}}: {sorted(extra)}')
        return problems
    for xs in semantics.bools(n):
        want = semantics.value(name, xs)
        for top in (False, True):
            a = {i + 1: xs[i] for i in range(n)}
            a[n + 1] = top
            sat = satisfied(cnf, a)
            if sat != (top == want):
                problems.append(
                    f'operands={tuple(int(x) for x in xs)} top={int(top)}: clauses are '
                    f'{"satisfied" if sat else "falsified"} but {name}{tuple(int(x) for x in xs)}={int(want)}'
                )
    return problems


def clauses_for(repo, hmod, hname, lits, top, call=None):
    """Clause list for explicit operand literals (possibly repeated) and top literal."""
    if call is None:
        it = Interp(repo)
        call = RepoFunc(it, hmod, hmod.func(hname))
    if hasattr(call, 'interp'):
        call.interp.steps = 0
    f = call
    cnf: list = []
    try:
        f(cnf, top, list(lits))
    except InterpRaise as e:
        return f'raise:{e.exc_name}'
    return cnf


def patterns(n):
    """Equality patterns (restricted growth strings) of n operand positions with at least one repeat."""
    out = []

    def rec(prefix, mx):
        if len(prefix) == n:
            if mx < n:
                out.append(list(prefix))
            return
        for v in range(1, mx + 2):
            rec(prefix + [v], max(mx, v))

    rec([], 0)
    return out


def check_pattern(name, pattern, cnf):
    """Operand position i carries variable pattern[i]; top variable = max(pattern) + 1."""
    k = max(pattern)
    top = k + 1
    problems = []
    used = {abs(l) for cl in cnf for l in cl}
    if used - set(range(1, top + 1)):
        return [f'mentions foreign literals {sorted(used - set(range(1, top + 1)))}']
    for vals in semantics.bools(k):
        xs = [vals[v - 1] for v in pattern]
        want = semantics.value(name, xs)
        for t in (False, True):
            a = {i + 1: vals[i] for i in range(k)}
            a[top] = t
            sat = satisfied(cnf, a)
            if sat != (t == want):
                problems.append(f'operand variables {pattern} = {tuple(int(x) for x in xs)}, top={int(t)}: clauses {"satisfied" if sat else "falsified"} but {name} gives {int(want)}')
    return problems


def check_repeats(ck, table, R):
    """Repeated operands: the same literal in several operand positions (XOR(x, x) = 0,
    AND(x, x) = x ...), all equality patterns of every legal arity <= 3."""
    repo = ck.repo
    for t, (hmod, hname, vnode, knode) in table.items():
        if t == 'INPUT' or semantics.ORACLE[t][0] == semantics.ANY:
            continue
        h = table.nodes[t] if hasattr(table, 'nodes') else hmod.func(hname)
        for n in [a for a in semantics.arities(t, 3) if a >= 2]:
            probs = []
            for pat in patterns(n):
                cnf = clauses_for(repo, hmod, hname, pat, max(pat) + 1, call=table.calls[t] if hasattr(table, 'calls') else None)
                if isinstance(cnf, str):
                    probs.append(f'operands {pat}: handler raises {cnf}')
                    continue
                pr = check_pattern(t, pat, cnf)
                if pr:
                    probs.append(pr[0])
            ck.check(not probs, R, hmod, h, f'clauses of {t}/{n} stay exact when operands repeat (all equality patterns)',
                     '; '.join(probs[:3]), construct=f'{hname} for {t} arity {n} with repeated operands')
