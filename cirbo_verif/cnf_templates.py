"""E2 extractor: Tseytin clause templates (cirbo/sat/cnf/tseytin.py)."""

from __future__ import annotations

import ast
import itertools

from .core import AnalysisError, Checker, gate_const, norm
from .interp import Interp, InterpRaise, RepoFunc
from . import semantics

TSEYTIN = 'cirbo.sat.cnf.tseytin'


def find_operations(ck: Checker):
    """Locate the dispatch dict from gate types to clause templates (`_operations` on the pinned tree): returns (mod, fn, dict_node, {type: (handler_name, value_node)})."""
    repo = ck.repo
    mod = repo.mod(TSEYTIN)
    fn = mod.func('tseytin_transformation')
    # the dispatch table: the dictionary literal (local to the transformation or at module level, whatever it is called)
    # whose keys are gate-type constants and whose values are functions of this module
    cands = []
    def consider(name, value):
        if isinstance(value, ast.Dict) and len(value.keys) >= 8 and all(k is not None and gate_const(repo, mod, k) is not None for k in value.keys):
            cands.append((name, value))
    for node in ast.walk(fn):
        if isinstance(node, (ast.Assign, ast.AnnAssign)):
            tgt = node.targets[0] if isinstance(node, ast.Assign) else node.target
            if isinstance(tgt, ast.Name):
                consider(tgt.id, node.value)
    for name, value in mod.assigns.items():
        consider(name, value)
    if len(cands) != 1:
        raise AnalysisError(f'{mod.rel}: dispatch dictionary from gate types to clause templates not found ({len(cands)} candidates)')
    dict_name, dict_node = cands[0]
    dict_node._dispatch_name = dict_name
    table = {}
    for k, v in zip(dict_node.keys, dict_node.values):
        t = gate_const(repo, mod, k) if k is not None else None
        if t is None:
            raise AnalysisError(f'{mod.rel}: key `{norm(k)}` of _operations is not a GateType constant')
        res = repo.resolve_expr(mod, v)
        if not res or res[2] != 'function':
            raise AnalysisError(f'{mod.rel}: handler `{norm(v)}` of _operations does not resolve to a function')
        if t in table:
            raise AnalysisError(f'{mod.rel}: duplicate key {t} in _operations')
        table[t] = (res[0], res[1], v, k)
    return mod, fn, dict_node, table


def clauses_of(repo, hmod, hname, n):
    """Clause list the handler emits for operand literals 1..n and top literal n+1.

    Returns list of clauses or the string 'raise:<E>'.
    """
    it = Interp(repo)
    f = RepoFunc(it, hmod, hmod.func(hname))
    cnf: list = []
    try:
        f(cnf, n + 1, list(range(1, n + 1)))
    except InterpRaise as e:
        return f'raise:{e.exc_name}'
    for cl in cnf:
        if not isinstance(cl, list) or not all(isinstance(x, int) and not isinstance(x, bool) and x != 0 for x in cl):
            raise AnalysisError(f'{hmod.rel}: handler {hname} emitted a non-clause {cl!r}')
    return cnf


def satisfied(cnf, assign):
    """assign: dict var->bool."""
    for cl in cnf:
        if not any(assign[abs(l)] == (l > 0) for l in cl):
            return False
    return True


def check_template(name, n, cnf):
    """Is cnf (over vars 1..n+1) equivalent to  var(n+1) <-> f_name(1..n)?  Returns list of problems."""
    problems = []
    used = {abs(l) for cl in cnf for l in cl}
    extra = used - set(range(1, n + 2))
    if extra:
        problems.append(f'mentions literals outside {{top, operands}}: {sorted(extra)}')
        return problems
    for xs in semantics.bools(n):
        want = semantics.value(name, xs)
        for top in (False, True):
            a = {i + 1: xs[i] for i in range(n)}
            a[n + 1] = top
            sat = satisfied(cnf, a)
            if sat != (top == want):
                problems.append(
                    f'operands={tuple(int(x) for x in xs)} top={int(top)}: clauses are '
                    f'{"satisfied" if sat else "falsified"} but {name}{tuple(int(x) for x in xs)}={int(want)}'
                )
    return problems


def clauses_for(repo, hmod, hname, lits, top):
    """Clause list for explicit operand literals (possibly repeated) and top literal."""
    it = Interp(repo)
    f = RepoFunc(it, hmod, hmod.func(hname))
    cnf: list = []
    try:
        f(cnf, top, list(lits))
    except InterpRaise as e:
        return f'raise:{e.exc_name}'
    return cnf


def patterns(n):
    """Equality patterns (restricted growth strings) of n operand positions with at least one repeat."""
    out = []

    def rec(prefix, mx):
        if len(prefix) == n:
            if mx < n:
                out.append(list(prefix))
            return
        for v in range(1, mx + 2):
            rec(prefix + [v], max(mx, v))

    rec([], 0)
    return out


def check_pattern(name, pattern, cnf):
    """Operand position i carries variable pattern[i]; top variable = max(pattern) + 1."""
    k = max(pattern)
    top = k + 1
    problems = []
    used = {abs(l) for cl in cnf for l in cl}
    if used - set(range(1, top + 1)):
        return [f'mentions foreign literals {sorted(used - set(range(1, top + 1)))}']
    for vals in semantics.bools(k):
        xs = [vals[v - 1] for v in pattern]
        want = semantics.value(name, xs)
        for t in (False, True):
            a = {i + 1: vals[i] for i in range(k)}
            a[top] = t
            sat = satisfied(cnf, a)
            if sat != (t == want):
                problems.append(f'operand variables {pattern} = {tuple(int(x) for x in xs)}, top={int(t)}: clauses {"satisfied" if sat else "falsified"} but {name} gives {int(want)}')
    return problems


def check_repeats(ck, table, R):
    """Repeated operands: the same literal in several operand positions (XOR(x, x) = 0,
    AND(x, x) = x ...), all equality patterns of every legal arity <= 3."""
    repo = ck.repo
    for t, (hmod, hname, vnode, knode) in table.items():
        if t == 'INPUT' or semantics.ORACLE[t][0] == semantics.ANY:
            continue
        h = hmod.func(hname)
        for n in [a for a in semantics.arities(t, 3) if a >= 2]:
            probs = []
            for pat in patterns(n):
                cnf = clauses_for(repo, hmod, hname, pat, max(pat) + 1)
                if isinstance(cnf, str):
                    probs.append(f'operands {pat}: handler raises {cnf}')
                    continue
                pr = check_pattern(t, pat, cnf)
                if pr:
                    probs.append(pr[0])
            ck.check(not probs, R, hmod, h, f'clauses of {t}/{n} stay exact when operands repeat (all equality patterns)',
                     '; '.join(probs[:3]), construct=f'{hname} for {t} arity {n} with repeated operands')
