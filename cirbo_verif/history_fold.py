"""C02: histories of public mutations folded on model states.

Seeded sequences of calls of the public mutators of `Circuit` (legal arguments, and illegal ones that
must be refused) are folded by the mini-evaluator on instances of the repository's own `Circuit`
class; after every call that returns normally the state must satisfy the well-formedness
invariant (operands and outputs name gates, users index = inverse operand multiset, input list =
INPUT gates without repetition, blocks name existing gates, no cycle).  This decides the
property's quantifier "every history of public mutations" for bounded histories over small
circuits; what is written inside the mutators is irrelevant to it, so it is immune to
refactorings.  Nothing of cirbo is imported or run.
"""

from __future__ import annotations

import os
import random
import re

from .core import AnalysisError, Checker
from . import circuit_model as cm
from . import semantics
from .eval_fold import real_model
from .interp import Host, InterpRaise
from .rewrites import FakeGate

TYPES2 = ['AND', 'OR', 'XOR', 'NAND', 'NOR', 'NXOR', 'GT', 'LT', 'GEQ', 'LEQ', 'LIFF', 'RIFF', 'LNOT', 'RNOT']
TYPES1 = ['NOT', 'IFF']


def cyclic(c):
    g = c._d['_gates']
    state = {}

    def visit(l):
        if state.get(l) == 1:
            return True
        if state.get(l) == 2:
            return False
        state[l] = 1
        for o in g[l].operands:
            if o in g and visit(o):
                return True
        state[l] = 2
        return False
    return any(visit(l) for l in list(g))


def problems(c):
    pr = cm.invariant_problems(c)
    d = c._d
    if len(set(d['_inputs'])) != len(d['_inputs']):
        pr.append(f'input list {d["_inputs"]} repeats a label')
    if not pr and cyclic(c):
        pr.append('the circuit has a cycle')
    return pr


def gen_op(rnd: random.Random, M, c, counter):
    """One call (name, args, kwargs, text).  Labels are drawn from the current state; with some probability a missing or
    an already used label is used on purpose."""
    d = c._d
    labels = list(d['_gates'])
    inputs = list(d['_inputs'])
    outs = list(d['_outputs'])
    inner = [l for l in labels if l not in inputs]
    blocks = list(d['_blocks'])

    def fresh():
        # sometimes the label of a gate that an earlier call removed (a later gate of another kind under an old name)
        if len(counter) > 1 and counter[1] and rnd.random() < 0.3:
            old = counter[1].pop(rnd.randrange(len(counter[1])))
            if old not in d['_gates']:
                return old
        counter[0] += 1
        return f'n{counter[0]}'

    def some(k=1, pool=None):
        pool = pool if pool is not None else labels
        return [rnd.choice(pool) for _ in range(k)] if pool else []
    bad = rnd.random() < 0.15
    kind = rnd.choice(['emplace', 'emplace', 'add_gate', 'add_inputs', 'remove', 'rename', 'mark', 'set_outputs', 'set_inputs', 'order_inputs', 'order_outputs',
                       'replace_inputs', 'make_block', 'slice', 'delete_block', 'remove_block', 'connect', 'into_bench', 'replace_sub', 'copy', 'bare'])
    if kind == 'bare':
        # a sequence argument spelled as one string that is itself a label of several characters (a string is a sequence of
        # its characters: the call must treat it so, or refuse it)
        long_ = [l for l in labels if isinstance(l, str) and len(l) > 1]
        if not long_:
            kind = 'mark'
        else:
            lab = rnd.choice(long_)
            how = rnd.randrange(5)
            if how == 0:
                return 'set_outputs', (lab,), {}, f'set_outputs({lab!r})'
            if how == 1:
                new = fresh()
                t = rnd.choice(['NOT', 'IFF', 'AND', 'OR'])
                return 'emplace_gate', (new, M.types[t], lab), {}, f'emplace_gate({new!r}, {t}, {lab!r})'
            if how == 2:
                new = fresh()
                return 'make_block', (new, lab, [lab]), {}, f'make_block({new!r}, {lab!r}, [{lab!r}])'
            if how == 3 and inner:
                new = fresh()
                g_ = rnd.choice(inner)
                return 'make_block', (new, [g_], [g_]), {'inputs': lab}, f'make_block({new!r}, [{g_!r}], [{g_!r}], inputs={lab!r})'
            new = fresh()
            return 'make_block_from_slice', (new, lab, some(1, inner) if inner else some(1)), {}, f'make_block_from_slice({new!r}, {lab!r}, ...)'
    if kind in ('emplace', 'add_gate'):
        t = rnd.choice(TYPES2 + TYPES1 + ['AND3', 'ALWAYS_TRUE', 'ALWAYS_FALSE'])
        ops = tuple(some(2)) if t in TYPES2 else tuple(some(1)) if t in TYPES1 else tuple(some(3)) if t == 'AND3' else tuple(some(rnd.choice((0, 1, 2))))   # constants may carry operands
        t = 'AND' if t == 'AND3' else t
        if len(ops) >= 2 and rnd.random() < 0.2:
            ops = (ops[0],) * len(ops)      # the same gate in every operand position
        # (the two kinds of wrong argument are drawn apart: each check of the call must be the one that refuses)
        which = rnd.random()
        lab = rnd.choice(labels) if (bad and labels and which < 0.5) else fresh()
        if bad and which >= 0.4:
            ops = ops[:-1] + ('missing',) if ops else ('missing',)
        if kind == 'emplace':
            return 'emplace_gate', (lab, M.types[t], ops), {}, f'emplace_gate({lab!r}, {t}, {ops})'
        return 'add_gate', (FakeGate(lab, M.types[t], ops),), {}, f'add_gate(Gate({lab!r}, {t}, {ops}))'
    if kind == 'add_inputs':
        ls = [fresh() for _ in range(rnd.randint(1, 2))] + ([rnd.choice(labels)] if bad and labels else [])
        return 'add_inputs', (ls,), {}, f'add_inputs({ls})'
    if kind == 'remove':
        users = d['_gate_to_users']
        free = [l for l in labels if not users.get(l)]
        lab = rnd.choice(labels) if (bad or not free) and labels else (rnd.choice(free) if free else 'missing')
        return 'remove_gate', (lab,), {}, f'remove_gate({lab!r})'
    if kind == 'rename':
        old = 'missing' if bad else (rnd.choice(labels) if labels else 'missing')
        new = rnd.choice(labels) if (bad and labels and rnd.random() < 0.5) else fresh()
        return 'rename_gate', (old, new), {}, f'rename_gate({old!r}, {new!r})'
    if kind == 'mark':
        lab = 'missing' if bad else (rnd.choice(labels) if labels else 'missing')
        return 'mark_as_output', (lab,), {}, f'mark_as_output({lab!r})'
    if kind == 'set_outputs':
        ls = some(rnd.randint(0, 3)) + (['missing'] if bad else [])
        return 'set_outputs', (ls,), {}, f'set_outputs({ls})'
    if kind == 'set_inputs':
        ls = list(inputs)
        rnd.shuffle(ls)
        if bad:
            ls = ls[:-1] if ls and rnd.random() < 0.5 else ls + some(1, inner)
        return 'set_inputs', (ls,), {}, f'set_inputs({ls})'
    if kind == 'order_inputs':
        ls = rnd.sample(inputs, min(len(inputs), rnd.randint(0, 2))) + (['missing'] if bad else [])
        return 'order_inputs', (ls,), {}, f'order_inputs({ls})'
    if kind == 'order_outputs':
        ls = rnd.sample(outs, min(len(outs), rnd.randint(0, 2))) + (['missing'] if bad else [])
        return 'order_outputs', (ls,), {}, f'order_outputs({ls})'
    if kind == 'replace_inputs':
        picks = rnd.sample(inputs, min(len(inputs), rnd.randint(0, 2)))
        tt, ff = picks[:1], picks[1:]
        if bad:
            tt = tt + some(1, inner)
        return 'replace_inputs', (tt, ff), {}, f'replace_inputs({tt}, {ff})'
    if kind == 'make_block':
        gs = list(dict.fromkeys(some(rnd.randint(1, 2), inner))) if inner else []
        name = rnd.choice(blocks) if (bad and blocks) else fresh()
        os_ = gs[-1:] + (['missing'] if bad and not blocks else [])
        if gs and rnd.random() < 0.3:
            # the declared outputs of a block need not be members: a gate outside that reads a member (remove_block must notice it)
            readers = [u for g_ in gs for u in d['_gate_to_users'].get(g_, []) if u not in gs]
            if readers:
                os_ = os_ + [rnd.choice(readers)]
        kw = {'inputs': some(1)} if rnd.random() < 0.3 else {}
        return 'make_block', (name, gs, os_), kw, f'make_block({name!r}, {gs}, {os_}, {kw})'
    if kind == 'slice':
        name = rnd.choice(blocks) if (bad and blocks) else fresh()
        os_ = some(1, inner) if inner else some(1)
        is_ = some(rnd.randint(0, 2))
        return 'make_block_from_slice', (name, is_, os_), {}, f'make_block_from_slice({name!r}, {is_}, {os_})'
    if kind in ('delete_block', 'remove_block'):
        name = 'missing' if (bad or not blocks) else rnd.choice(blocks)
        return kind, (name,), {}, f'{kind}({name!r})'
    if kind == 'connect':
        k = fresh()
        other = M.build_circuit([('x', 'INPUT', ()), ('y', 'INPUT', ()), ('z', rnd.choice(TYPES2), ('x', 'y')), ('w', 'NOT', ('z',))], ('w', 'z') if rnd.random() < 0.5 else ('w',))
        right = rnd.random() < 0.4
        if right:
            tc = rnd.sample(inputs, min(len(inputs), rnd.randint(0, 2)))
            oc = rnd.sample(['x', 'y', 'z', 'w'], len(tc))
        else:
            oc = rnd.sample(['x', 'y'], rnd.randint(0, 2))
            tc = some(len(oc))
        if bad:
            tc = tc + some(1)
        # sometimes the name of a block that is gone while gates it labelled are still there (a free block name does not
        # make the labels under its prefix free)
        ghosts = sorted({l.split('@')[0] for l in d['_gates'] if isinstance(l, str) and '@' in l} - set(blocks))
        if ghosts and rnd.random() < 0.3:
            k = rnd.choice(ghosts)
        name = '' if rnd.random() < 0.3 else k
        via = rnd.random()
        if via < 0.5:
            return 'connect_circuit', (other, tc, oc), {'right_connect': right, 'name': name, 'add_prefix': bool(name) or True}, f'connect_circuit(<XOR-like block>, {tc}, {oc}, right_connect={right}, name={name!r})'
        # the documented wrappers (fresh name: without one the attached labels x, y, z, w would collide on a second call)
        if via < 0.6:
            return 'add_circuit', (other,), {'name': k}, f'add_circuit(<XOR-like block>, name={k!r})'
        if via < 0.7:
            return 'connect_inputs', (other,), {'name': k}, f'connect_inputs(<XOR-like block>, name={k!r})'
        if via < 0.8:
            tc2 = some(2)
            return 'connect_left', (other, tc2), {'name': k}, f'connect_left(<XOR-like block>, {tc2}, name={k!r})'
        if via < 0.9:
            oc2 = rnd.sample(['x', 'y', 'z', 'w'], min(len(inputs), 2)) + (['w'] if bad else [])
            return 'connect_right', (other, oc2), {'name': k}, f'connect_right(<XOR-like block>, {oc2}, name={k!r})'
        return 'extend_circuit', (other,), {'right_connect': right, 'name': k}, f'extend_circuit(<XOR-like block>, right_connect={right}, name={k!r})'
    if kind == 'into_bench':
        return 'into_bench', (), {}, 'into_bench()'
    if kind == 'copy':
        return '__copy__', (), {}, 'copy.copy(circuit)'
    # replace_subcircuit: one inner gate (its users are whatever the history produced) replaced by an equivalent small circuit
    cands = [l for l in inner if d['_gates'][l].operands and all(o in d['_gates'] for o in d['_gates'][l].operands)]
    if not cands:
        return 'mark_as_output', (rnd.choice(labels) if labels else 'missing',), {}, 'mark_as_output(...)'
    g = rnd.choice(cands)
    gate = d['_gates'][g]
    ops = list(dict.fromkeys(gate.operands))
    im = {o: f'p{i}' for i, o in enumerate(ops)}
    k = fresh()
    shape = rnd.choice(('double-negation', 'direct+inner-user', 'label-clash'))
    t = gate.gate_type.var
    body = [(im[o], 'INPUT', ()) for o in ops]
    if shape == 'double-negation':
        body += [(k + 'a', t, tuple(im[o] for o in gate.operands)), (k + 'b', 'NOT', (k + 'a',)), (k + 'c', 'NOT', (k + 'b',))]
        out = k + 'c'
    elif shape == 'direct+inner-user':
        # the new output gate is also read inside the replacement
        body += [(k + 'a', t, tuple(im[o] for o in gate.operands)), (k + 'b', 'NOT', (k + 'a',))]
        out = k + 'a'
    else:
        # an inner gate of the replacement carries a label the host already uses outside the region: a documented refusal
        other = [l for l in labels if l != g and l not in ops]
        clash = rnd.choice(other) if other else k + 'b'
        body += [(clash, t, tuple(im[o] for o in gate.operands)), (k + 'c', 'IFF', (clash,))]
        out = k + 'c'
    sub = M.build_circuit(body, (out,))
    om = {g: out}
    if bad:
        om = {g: 'missing'}
    return 'replace_subcircuit', (sub, im, om), {}, f'replace_subcircuit(<{t} as {shape}: {[(l, tt) + tuple(o) for l, tt, o in body if tt != "INPUT"]}>, {im}, {om})'


def truth_table(c, limit=6):
    """Output functions over the inputs (None when the state is not evaluable or too wide)."""
    from .compose_fold import state_values
    import itertools
    d = c._d
    ins = list(d['_inputs'])
    if len(ins) > limit or problems(c):
        return None
    rows = []
    try:
        for bits in itertools.product((False, True), repeat=len(ins)):
            v = state_values(c, dict(zip(ins, bits)))
            rows.append(tuple(v[o] for o in d['_outputs']))
    except (TypeError, KeyError):
        return None   # a gate with an operand count its operator does not take (the mutators do not validate arities)
    return ins, rows


def semantic_problems(name, args, before, tt_before, c, result):
    """Clauses of C19 / C14 / C02 that go beyond well-formedness, for the calls they are about."""
    d = c._d
    if name in ('rename_gate', 'into_bench', 'replace_subcircuit'):
        tt = truth_table(c)
        if tt_before is not None and tt is not None:
            ins_b, rows_b = tt_before
            ins_a, rows_a = tt
            if name == 'rename_gate':
                ins_b = [args[1] if x == args[0] else x for x in ins_b]
            if name == 'replace_subcircuit':
                # boundary gates take the labels of the replacement's inputs by design: inputs are compared by position
                if len(ins_a) != len(ins_b):
                    return [f'the number of inputs changed from {len(ins_b)} to {len(ins_a)}']
            elif ins_a != ins_b:
                return [f'inputs changed from {ins_b} to {ins_a}']
            if rows_a != rows_b:
                return ['the truth table of the outputs changed']
    if name == 'into_bench':
        from . import semantics
        bad = sorted({g.gate_type.var for g in d['_gates'].values()} - set(semantics.BENCH_BASIS))
        if bad:
            return [f'gate types {bad} remain after the conversion']
    if name == '__copy__':
        cp = result
        s1, s2 = cm.snapshot(c), cm.snapshot(cp)
        if s1 != s2:
            diff = [k for k in s1 if s1[k] != s2[k]]
            return [f'the copy differs from its original in {diff[0]}: {s2[diff[0]]} vs {s1[diff[0]]}']
        shared = []
        dc = cp._d
        for f in ('_inputs', '_outputs', '_gates', '_gate_to_users', '_blocks'):
            if dc[f] is d[f]:
                shared.append(f)
        for k_, v in d['_gate_to_users'].items():
            if k_ in dc['_gate_to_users'] and dc['_gate_to_users'][k_] is v:
                shared.append(f'_gate_to_users[{k_}]')
        for bn, b in d['_blocks'].items():
            b2 = dc['_blocks'].get(bn)
            if b2 is not None:
                for f in ('_inputs', '_gates', '_outputs'):
                    if b2._d[f] is b._d[f]:
                        shared.append(f'block {bn}.{f}')
                if b2._d.get('_owner') is c:
                    shared.append(f'block {bn} of the copy is owned by the original')
        if shared:
            return [f'the copy shares mutable state with its original: {shared[:3]}']
    if name == 'replace_inputs':
        gone = list(args[0]) + list(args[1])
        want = [x for x in before['inputs'] if x not in gone]
        if list(d['_inputs']) != want:
            return [f'remaining inputs {list(d["_inputs"])} instead of {want}']
    if name in ('set_inputs', 'order_inputs') and sorted(d['_inputs']) != sorted(before['inputs']):
        return [f'{name} changed the set of inputs']
    if name == 'order_outputs' and sorted(d['_outputs']) != sorted(before['outputs']):
        return ['order_outputs changed the multiset of outputs']
    if name == 'remove_gate' and args[0] in d['_outputs']:
        return ['the removed gate is still listed as an output']
    return []


OBSERVERS = ('get_truth_table', 'evaluate_full_circuit', 'evaluate_circuit', 'top_sort')


def observe(M, c, rnd, which=OBSERVERS, lenient=False):
    """The repository's own observers folded on the current (well-formed) state and compared with their definitions.  Called
    at random points of a history, i.e. before and after mutations: an answer remembered from an earlier state shows up here.
    Returns {observer: problem}."""
    from .compose_fold import state_values
    import itertools
    d = c._d
    if problems(c):
        # a state a *returning* public call left although it is not well formed (never on a tree where C02 holds): the
        # orderings are still observed when every operand names a gate -- that is how such a state shows to a user
        if not lenient or any(o not in d['_gates'] for g in d['_gates'].values() for o in g.operands) or cyclic(c):
            return {}
        which = [w for w in which if w == 'top_sort']
    ins = list(d['_inputs'])
    out = {}
    before = cm.snapshot(c)
    legal = all(semantics.legal_arity(g.gate_type.var, len(g.operands)) for g in d['_gates'].values())
    if not legal or len(ins) > 5:
        which = [w for w in which if w == 'top_sort']
    if 'get_truth_table' in which and d['_outputs']:
        got, err = M.call(c, 'get_truth_table')
        want = [[state_values(c, dict(zip(ins, bits)))[o] for bits in itertools.product((False, True), repeat=len(ins))] for o in d['_outputs']]
        if err:
            out['get_truth_table'] = f'get_truth_table raises {err}'
        elif [list(r) for r in got] != want:
            out['get_truth_table'] = f'get_truth_table answers {[["01"[bool(v)] if isinstance(v, bool) else "?" for v in r] for r in got]}, the circuit computes {[["01"[v] for v in r] for r in want]}'
    if legal and len(ins) <= 5 and (ins or d['_gates']) and ('evaluate_full_circuit' in which or 'evaluate_circuit' in which):
        a = {i: rnd.random() < 0.5 for i in ins}
        ref = state_values(c, a)
        if 'evaluate_full_circuit' in which:
            got, err = M.call(c, 'evaluate_full_circuit', dict(a))
            if err:
                out['evaluate_full_circuit'] = f'evaluate_full_circuit raises {err} on the total assignment {a}'
            else:
                wrong = [l for l in d['_gates'] if got.get(l) is not ref[l] and got.get(l) != ref[l] or not isinstance(got.get(l), bool)]
                if wrong:
                    out['evaluate_full_circuit'] = f'evaluate_full_circuit on the total assignment {a} gives {wrong[0]} = {got.get(wrong[0])!r}, the circuit computes {ref[wrong[0]]}'
        if 'evaluate_circuit' in which and d['_outputs']:
            got, err = M.call(c, 'evaluate_circuit', dict(a))
            if err:
                out['evaluate_circuit'] = f'evaluate_circuit raises {err} on the total assignment {a}'
            else:
                wrong = [o for o in d['_outputs'] if not isinstance(got.get(o), bool) or got.get(o) != ref[o]]
                if wrong:
                    out['evaluate_circuit'] = f'evaluate_circuit on the total assignment {a} gives output {wrong[0]} = {got.get(wrong[0])!r}, the circuit computes {ref[wrong[0]]}'
    if 'top_sort' in which:
        for inverse in (False, True):
            got, err = M.call(c, 'top_sort', inverse=inverse)
            if err:
                out['top_sort'] = f'top_sort(inverse={inverse}) raises {err}'
                break
            order = [g.label for g in got]
            pos = {l: i for i, l in enumerate(order)}
            if sorted(order) != sorted(d['_gates']):
                out['top_sort'] = f'top_sort(inverse={inverse}) yields {order}, the gates are {sorted(d["_gates"])}'
                break
            bad = [(l, o) for l, g in d['_gates'].items() for o in g.operands if (pos[o] > pos[l]) == inverse]
            if bad:
                out['top_sort'] = f'top_sort(inverse={inverse}) yields {bad[0][0]} on the wrong side of its operand {bad[0][1]}: {order}'
                break
    if cm.snapshot(c) != before:
        out['observers'] = 'an observer changed the circuit'
    return out


def scripted_histories(M):
    """A few fixed histories in front of the seeded ones: situations that need two or three particular calls in a row (every
    observer is folded after every call of these)."""
    T = M.types

    def G(l, t, ops):
        return ('emplace_gate', (l, T[t], tuple(ops)), {}, f'emplace_gate({l!r}, {t}, {tuple(ops)})')
    two = [('a', 'INPUT', ()), ('b', 'INPUT', ())]

    def XB():
        return M.build_circuit([('x', 'INPUT', ()), ('y', 'INPUT', ()), ('z', 'XOR', ('x', 'y')), ('w', 'NOT', ('z',))], ('w', 'z'))
    return [
        # a gate removed and rebuilt under its old label with another function (same labels, same order, same outputs)
        ((two + [('g', 'AND', ('a', 'b')), ('h', 'OR', ('g', 'a'))], ('g', 'h'), ()),
         [('remove_gate', ('h',), {}, "remove_gate('h')"), G('h', 'XOR', ('g', 'a')), ('mark_as_output', ('h',), {}, "mark_as_output('h')"),
          ('remove_gate', ('h',), {}, "remove_gate('h')"), G('h', 'GT', ('a', 'g')), ('mark_as_output', ('h',), {}, "mark_as_output('h')")]),
        # pseudo-unary and comparison gates over one gate twice, converted to the bench basis, then edited and converted again
        ((two + [('l', 'LNOT', ('a', 'a')), ('t', 'LT', ('b', 'b')), ('r', 'RIFF', ('a', 'a')), ('q', 'LIFF', ('b', 'b')), ('o', 'OR', ('l', 't', 'r', 'q'))], ('o', 'l'), ()),
         [('into_bench', (), {}, 'into_bench()'), ('remove_gate', ('o',), {}, "remove_gate('o')"), G('o', 'GEQ', ('l', 'r')), ('mark_as_output', ('o',), {}, "mark_as_output('o')"),
          ('into_bench', (), {}, 'into_bench()')]),
        # a converted comparison gate removed and re-added under its label with the operands swapped, then converted again
        ((two + [('g', 'LT', ('b', 'a'))], ('g',), ()),
         [('into_bench', (), {}, 'into_bench()'), ('remove_gate', ('g',), {}, "remove_gate('g')"), G('g', 'LT', ('a', 'b')), ('mark_as_output', ('g',), {}, "mark_as_output('g')"),
          ('into_bench', (), {}, 'into_bench()'), ('order_inputs', (['b', 'a'],), {}, "order_inputs(['b', 'a'])"), ('replace_inputs', (['b'], []), {}, "replace_inputs(['b'], [])")]),
        # a second connection under the name of a block that was deleted while its gates stayed (all inputs of the attached
        # circuit connected: nothing but the per-gate checks can notice the clash)
        ((two + [('g', 'AND', ('a', 'b')), ('h', 'OR', ('g', 'a'))], ('g', 'h'), ()),
         [('connect_left', (XB(), ['g', 'h']), {'name': 'H'}, "connect_left(<XOR-like block>, ['g', 'h'], name='H')"), ('delete_block', ('H',), {}, "delete_block('H')"),
          ('connect_left', (XB(), ['H@w', 'g']), {'name': 'H'}, "connect_left(<XOR-like block>, ['H@w', 'g'], name='H')")]),
        ((two + [('g', 'AND', ('a', 'b')), ('h', 'OR', ('g', 'a'))], ('g', 'h'), ()),
         [('rename_gate', ('h', 'H@z'), {}, "rename_gate('h', 'H@z')"), ('extend_circuit', (XB(),), {'name': 'H'}, "extend_circuit(<XOR-like block>, name='H')")]),
        # sequence arguments spelled as one string that is itself a label
        (([('x1', 'INPUT', ()), ('x2', 'INPUT', ()), ('sum', 'XOR', ('x1', 'x2')), ('m', 'OR', ('x1', 'sum'))], ('sum', 'm'), ()),
         [('set_outputs', ('sum',), {}, "set_outputs('sum')"), ('emplace_gate', ('n', T['NOT'], 'sum'), {}, "emplace_gate('n', NOT, 'sum')"),
          ('make_block', ('B', 'sum', ['sum']), {}, "make_block('B', 'sum', ['sum'])"), ('make_block', ('D', ['sum'], ['sum']), {'inputs': 'x1'}, "make_block('D', ['sum'], ['sum'], inputs='x1')")]),
        # a gate that a block only declares as an output (it reads a member from outside) is removed, then the circuit is copied
        ((two + [('g', 'AND', ('a', 'b')), ('h', 'OR', ('g', 'a')), ('k', 'XOR', ('g', 'b'))], ('g', 'h', 'k'), ()),
         [('make_block', ('B', ['g'], ['g', 'h']), {}, "make_block('B', ['g'], ['g', 'h'])"), ('remove_gate', ('h',), {}, "remove_gate('h')"), ('__copy__', (), {}, 'copy.copy(circuit)'),
          ('rename_gate', ('g', 'g2'), {}, "rename_gate('g', 'g2')"), ('__copy__', (), {}, 'copy.copy(circuit)')]),
        # a block whose constant member is also read from outside the block is removed / cut out again
        ((two + [('k', 'ALWAYS_TRUE', ()), ('g', 'AND', ('a', 'k')), ('h', 'OR', ('b', 'k'))], ('g', 'h'), ()),
         [('make_block', ('B', ['k', 'g'], ['g']), {}, "make_block('B', ['k', 'g'], ['g'])"), ('remove_block', ('B',), {}, "remove_block('B')"),
          ('make_block_from_slice', ('S', ['a'], ['g']), {}, "make_block_from_slice('S', ['a'], ['g'])"), ('remove_block', ('S',), {}, "remove_block('S')")]),
        # inputs re-ordered and fixed, an input renamed
        ((two + [('c', 'INPUT', ()), ('g', 'GT', ('a', 'b')), ('h', 'XOR', ('g', 'c'))], ('h', 'a'), ()),
         [('order_inputs', (['c', 'a'],), {}, "order_inputs(['c', 'a'])"), ('rename_gate', ('a', 'z'), {}, "rename_gate('a', 'z')"), ('replace_inputs', (['c'], []), {}, "replace_inputs(['c'], [])"),
          ('set_outputs', (['g', 'h', 'g'],), {}, "set_outputs(['g', 'h', 'g'])")]),
    ]


STARTS = [
    (cm.BASE_SPEC, cm.BASE_OUTPUTS, cm.BASE_BLOCKS),
    ([('a', 'INPUT', ()), ('b', 'INPUT', ())], ('a',), ()),
    ([('a', 'INPUT', ()), ('b', 'INPUT', ()), ('g', 'LT', ('a', 'a')), ('h', 'ALWAYS_TRUE', ('g', 'b')), ('k', 'LIFF', ('h', 'g'))], ('k', 'k', 'a'), (('B', ('a',), ('g',), ('g',)),)),
]


def fold_histories(ck: Checker, R: str, only=None, observers=(), n_hist=None):
    """`observers`: which of OBSERVERS are folded at random points of the histories (an obligation `observe <name>` each)."""
    repo = ck.repo
    M = real_model(repo)
    mod = M.mod
    n_hist = n_hist or (300 if ck.tier == "quick" else 3000)
    obs_rnd = random.Random(4711)
    obs = {w: {'n': 0, 'problems': []} for w in observers}
    length = 12
    rnd = random.Random(20260925)
    per_method = {}
    n_calls = n_ok = 0
    # every scripted history twice: observed after every call, and observed at the start and after every third call only
    scripts = [(st, sc, dense) for dense in (True, False) for st, sc in scripted_histories(M)]
    for h in range(-len(scripts), n_hist):
        script = scripts[h + len(scripts)][1] if h < 0 else None
        dense = scripts[h + len(scripts)][2] if h < 0 else False
        spec, outs, blocks = scripts[h + len(scripts)][0] if h < 0 else STARTS[h % len(STARTS)]
        # (built through the repository's own constructors: whatever the class keeps about its gates is kept consistently)
        c = M.build_circuit(spec, outs, blocks)
        counter = [0, []]     # fresh-label counter, labels of removed gates
        trail = []
        length = len(script) if script is not None else 12
        for step in range(length + 1):
            if observers and ((script is not None and (dense or step % 3 == 0)) or step == length or (script is None and obs_rnd.random() < 0.3)):
                for w, msg in observe(M, c, obs_rnd, observers).items():
                    if w in obs or w == 'observers':
                        rec_o = obs.setdefault(w, {'n': 0, 'problems': []})
                        rec_o['problems'].append(f'{msg} after the history {" ; ".join(trail) or "(start state)"} ({"scripted history" if h < 0 else "start state " + str(h % len(STARTS))})')
                for w in observers:
                    obs[w]['n'] += 1
            if step == length:
                break
            name, args, kwargs, text = script[step] if script is not None else gen_op(rnd, M, c, counter)
            trail.append(text)
            n_calls += 1
            before = cm.snapshot(c)
            tt_before = truth_table(c)
            try:
                _, err = M.call(c, name, *args, **kwargs)
            except AnalysisError:
                raise
            rec = per_method.setdefault(name, {'calls': 0, 'returned': 0, 'problems': []})
            rec['calls'] += 1
            if err:
                if name == 'into_bench' and before['inputs'] and not rec['problems']:
                    # C14 names no error: a well-formed circuit with an input must be converted
                    rec['problems'].append(f'into_bench raises {err} on a well-formed circuit with inputs after the history {" ; ".join(trail)} (start state {h % len(STARTS)})')
                if name == '__copy__' and not rec['problems'] and R.startswith('C02'):
                    # C02: "a copy is equal to ... its original" -- of every state public calls that returned have produced
                    rec['problems'].append(f'copy.copy raises {err} on the well-formed circuit left by the history {" ; ".join(trail[:-1]) or "(start state)"} (start state {h % len(STARTS)})')
                # a refused call: the history goes on from whatever state it left only if that state is still well formed
                if problems(c):
                    break
                continue
            rec['returned'] += 1
            n_ok += 1
            counter[1].extend(l for l in before['gates'] if l not in c._d['_gates'] and l not in counter[1])
            pr = problems(c)
            if not pr:
                pr = semantic_problems(name, args, before, tt_before, c, _)
            if pr:
                rec['problems'].append(f'{pr[0]} after the history {" ; ".join(trail)} (start state {h % len(STARTS)})')
                if 'top_sort' in observers and problems(c):
                    for w, msg in observe(M, c, obs_rnd, ('top_sort',), lenient=True).items():
                        obs[w]['n'] += 1
                        obs[w]['problems'].append(f'{msg} after the history {" ; ".join(trail)}')
                break
    for name, rec in sorted(per_method.items()):
        if only is not None and name not in only:
            continue
        ck.check(not rec['problems'], R, mod, mod.func(f'Circuit.{name}'), f'{name}: every call that returns leaves a well-formed circuit ({rec["returned"]} of {rec["calls"]} calls returned, inside {n_hist} seeded histories of <= {length} public mutations)',
                 '; '.join(rec['problems'][:2]), construct=f'Circuit.{name} inside histories of public mutations')
    for w, rec_o in obs.items():
        fname = {'observers': 'get_truth_table'}.get(w, w)
        ck.check(not rec_o['problems'], R, mod, mod.func(f'Circuit.{fname}'), f'{w} folded at {rec_o["n"]} random points of {n_hist} seeded histories (before and after mutations) answers for the circuit as it is then',
                 '; '.join(rec_o['problems'][:2]), construct=f'observe {w} inside histories of public mutations')
    ck.add_coverage(M.interp)
    ck.notes['history_calls'] = n_calls
    ck.notes['history_calls_returned'] = n_ok
    ck.assume('histories of public mutations are folded for bounded length over small model circuits with seeded argument choices; a refused call is not required to leave the state untouched')


def fold_copy_convert(ck: Checker, R: str):
    """Conversion of a copy (what drawing with as_bench=True does): the copy is converted, the original -- its gates, users
    index and the member lists of its blocks -- is exactly what it was."""
    repo = ck.repo
    M = real_model(repo)
    mod = M.mod
    fn = mod.func('Circuit.into_bench')
    probs = []
    n = 0
    for spec, outs, blocks in STARTS + [
        ([('a', 'INPUT', ()), ('b', 'INPUT', ()), ('g', 'LT', ('a', 'b')), ('h', 'GEQ', ('g', 'a')), ('t', 'ALWAYS_TRUE', ()), ('k', 'LNOT', ('h', 't'))], ('k', 'g'),
         (('B', ('a', 'b'), ('g', 'h'), ('h',)), ('C', ('h',), ('t', 'k'), ('k',)))),
    ]:
        n += 1
        c = M.build_circuit(spec, outs, blocks)
        before = cm.snapshot(c)
        cp, err = M.call(c, '__copy__')
        if err:
            probs.append(f'copying raises {err}')
            continue
        _, err = M.call(cp, 'into_bench')
        if err:
            probs.append(f'into_bench on a copy raises {err}')
            continue
        after = cm.snapshot(c)
        if after != before:
            diff = [k for k in before if before[k] != after[k]]
            probs.append(f'converting a copy changed the original: {diff[0]} = {after[diff[0]]} instead of {before[diff[0]]}')
        elif problems(cp):
            probs.append(f'the converted copy is malformed: {problems(cp)[0]}')
    ck.add_coverage(M.interp)
    ck.check(not probs, R, mod, fn, f'into_bench on a copy leaves the original untouched -- gates, users index, block member lists ({n} circuits with blocks around gates that need helper gates)', '; '.join(probs[:2]),
             construct='copy.copy(circuit).into_bench()')


class _HostDigraph(Host):
    """graphviz.Digraph stand-in: records the node, edge and cluster statements it is given."""

    def __init__(self, name=None, **k):
        self.name = name
        self.nodes = []      # node names, in statement order (a name may be stated more than once: re-styling)
        self.edges = []      # (tail, head)
        self.subs = []       # nested _HostDigraph
        self.attrs = []

    def node(self, name, label=None, **k):
        self.nodes.append(name)

    def edge(self, tail_name, head_name, label=None, **k):
        self.edges.append((tail_name, head_name))

    def attr(self, kw=None, **k):
        self.attrs.append(dict(k))

    def subgraph(self, graph=None, name=None, **k):
        sub = _HostDigraph(name)
        self.subs.append(sub)
        return sub

    def __enter__(self):
        return self

    def __exit__(self, *a):
        return False

    def clusters(self):
        out = {}
        for sg in self.subs:
            out[sg.name] = sg
            out.update(sg.clusters())
        return out


_ALIASES = ('IFF', 'LIFF', 'RIFF')


def fold_bench_drawing(ck: Checker, R: str):
    """into_graphviz_digraph(as_bench=True) (the second observation point of C14): the drawing statements are those of the
    converted copy -- one node per non-buffer gate of the converted circuit, one edge per operand, and every block of the
    converted circuit as a cluster listing its non-buffer members, helper gates included; the drawn circuit is untouched."""
    repo = ck.repo
    M = real_model(repo)
    it = M.interp
    it.externals['graphviz.Digraph'] = _HostDigraph
    it.overrides['graphviz.Digraph'] = _HostDigraph
    mod = M.mod
    fn = mod.func('Circuit.into_graphviz_digraph')
    probs = []
    n = 0
    cases = [
        ([('a', 'INPUT', ()), ('b', 'INPUT', ()), ('lt', 'LT', ('a', 'b')), ('one', 'ALWAYS_TRUE', ()), ('top', 'AND', ('lt', 'one')), ('geq', 'GEQ', ('top', 'a'))], ('geq',),
         (('outer', ('a', 'b'), ('lt', 'one', 'top'), ('top',)), ('inner', ('a', 'b'), ('lt',), ('lt',)), ('tail', ('top', 'a'), ('geq',), ('geq',)))),
        ([('a', 'INPUT', ()), ('b', 'INPUT', ()), ('g', 'LT', ('a', 'b')), ('h', 'GEQ', ('g', 'a')), ('t', 'ALWAYS_TRUE', ()), ('k', 'LNOT', ('h', 't'))], ('k', 'g'),
         (('B', ('a', 'b'), ('g', 'h'), ('h',)), ('C', ('h',), ('t', 'k'), ('k',)))),
        ([('a', 'INPUT', ()), ('b', 'INPUT', ()), ('x', 'GT', ('a', 'b')), ('y', 'RNOT', ('a', 'x')), ('z', 'OR', ('x', 'y'))], ('z', 'y'), ()),
        ([('a', 'INPUT', ()), ('b', 'INPUT', ()), ('x', 'LEQ', ('a', 'b')), ('y', 'LIFF', ('x', 'b')), ('z', 'XOR', ('y', 'a'))], ('z',),
         (('B', ('a', 'b'), ('x', 'y'), ('y',)),)),
    ]
    for spec, outs, blocks in cases:
        for flags in ({'draw_labels': True}, {}, {'draw_blocks': False}):
            n += 1
            c = M.build_circuit(spec, outs, blocks)
            before = cm.snapshot(c)
            conv = M.build_circuit(spec, outs, blocks)
            _, err = M.call(conv, 'into_bench')
            if err:
                probs.append(f'into_bench raises {err}')
                continue
            want = cm.snapshot(conv)
            g, err = M.call(c, 'into_graphviz_digraph', as_bench=True, **flags)
            if err or not isinstance(g, _HostDigraph):
                probs.append(f'into_graphviz_digraph(as_bench=True) raises {err}' if err else 'into_graphviz_digraph does not return the graph it built')
                continue
            if cm.snapshot(c) != before:
                probs.append('drawing with as_bench=True changed the circuit that was drawn')
                continue
            # (helper labels carry a random part: compared without it)
            nz = lambda l: re.sub(r'<uuid\d+>', '<uuid>', l) if isinstance(l, str) else l  # noqa: E731
            wg = {nz(l): (t, tuple(nz(o) for o in ops)) for l, (t, ops) in want['gates'].items()}
            want['blocks'] = {b: (bi, [nz(x) for x in bg], bo) for b, (bi, bg, bo) in want['blocks'].items()}
            g.nodes = [nz(x) for x in g.nodes]
            g.edges = [(nz(a), nz(b)) for a, b in g.edges]
            for sg in g.clusters().values():
                sg.nodes = [nz(x) for x in sg.nodes]
            drawn = {l for l, (t, ops) in wg.items() if t not in _ALIASES}

            def res(l):
                t, ops = wg[l]
                return res(ops[0]) if t in ('IFF', 'LIFF') else res(ops[1]) if t == 'RIFF' else l
            if set(g.nodes) != drawn:
                probs.append(f'nodes drawn {sorted(set(g.nodes))} are not the gates of the converted circuit {sorted(drawn)}')
                continue
            want_edges = sorted((res(o), l) for l in drawn for o in wg[l][1])
            if sorted(g.edges) != want_edges:
                probs.append(f'edges drawn {sorted(g.edges)} are not the operand wires of the converted circuit {want_edges}')
                continue
            cl = g.clusters()
            if flags.get('draw_blocks', True):
                for bname, (bi, bg, bo) in want['blocks'].items():
                    sg = cl.get('cluster_' + bname)
                    members = {l for l in bg if l in wg and wg[l][0] not in _ALIASES}
                    if sg is None:
                        probs.append(f'block {bname!r} of the converted circuit is not drawn as a cluster')
                    elif set(sg.nodes) != members:
                        probs.append(f'cluster of block {bname!r} lists {sorted(set(sg.nodes))}, the block of the converted circuit has {sorted(members)}')
            elif cl:
                probs.append('clusters are drawn although draw_blocks=False')
    ck.add_coverage(M.interp)
    ck.check(not probs, R, mod, fn, f'into_graphviz_digraph(as_bench=True) folded with a recording graph ({n} drawings of circuits with nested blocks around gates that need helper gates): nodes, wires and clusters are those of the converted copy, helper gates inside the clusters of their blocks; the drawn circuit is untouched',
             '; '.join(probs[:2]), construct='into_graphviz_digraph(as_bench=True)')


def fold_replace_cases(ck: Checker, R: str):
    """Directed replace_subcircuit scenarios (C19): equivalent replacements in the situations the statement names."""
    repo = ck.repo
    M = real_model(repo)
    mod = M.mod
    fn = mod.func('Circuit.replace_subcircuit')
    host = [('a', 'INPUT', ()), ('b', 'INPUT', ()), ('c', 'INPUT', ()), ('x', 'AND', ('a', 'b')), ('g', 'XOR', ('x', 'c')), ('h', 'OR', ('g', 'x')), ('k', 'NOT', ('g',))]
    cases = [
        # (description, host outputs, subcircuit, inputs_mapping, outputs_mapping, must be refused?)
        ('a boundary input that is itself a primary output (twice), mapped to another label', ('x', 'h', 'x', 'k'),
         ([('p', 'INPUT', ()), ('q', 'INPUT', ()), ('n1', 'NXOR', ('p', 'q')), ('n2', 'NOT', ('n1',))], ('n2',)), {'x': 'p', 'c': 'q'}, {'g': 'n2'}, False),
        ('the replaced output has users outside the region and is read inside the replacement', ('h', 'k'),
         ([('p', 'INPUT', ()), ('q', 'INPUT', ()), ('n1', 'XOR', ('p', 'q')), ('n2', 'NOT', ('n1',))], ('n1',)), {'x': 'p', 'c': 'q'}, {'g': 'n1'}, False),
        ('boundary inputs mapped to their own labels', ('h', 'k', 'g'),
         ([('x', 'INPUT', ()), ('c', 'INPUT', ()), ('n1', 'NXOR', ('c', 'x')), ('n2', 'NOT', ('n1',))], ('n2',)), {'x': 'x', 'c': 'c'}, {'g': 'n2'}, False),
        ('a region of two gates with one mapped output', ('h',),
         ([('p', 'INPUT', ()), ('q', 'INPUT', ()), ('n1', 'XOR', ('p', 'q')), ('n2', 'OR', ('n1', 'p'))], ('n2',)), {'x': 'p', 'c': 'q'}, {'h': 'n2'}, False),
        ('an inner gate of the replacement carries a label used by the host outside the region', ('h', 'k'),
         ([('p', 'INPUT', ()), ('q', 'INPUT', ()), ('k', 'XOR', ('p', 'q')), ('n2', 'IFF', ('k',))], ('n2',)), {'x': 'p', 'c': 'q'}, {'g': 'n2'}, True),
        ('a circuit output inside the region that is not a mapped output', ('g', 'h'),
         ([('p', 'INPUT', ()), ('q', 'INPUT', ()), ('n1', 'XOR', ('p', 'q')), ('n2', 'OR', ('n1', 'p'))], ('n2',)), {'x': 'p', 'c': 'q'}, {'h': 'n2'}, True),
        ('an inner gate of the region that a gate outside reads and that is not a mapped output', ('h', 'k'),
         ([('p', 'INPUT', ()), ('q', 'INPUT', ()), ('n1', 'XOR', ('p', 'q')), ('n2', 'OR', ('n1', 'p'))], ('n2',)), {'x': 'p', 'c': 'q'}, {'h': 'n2'}, True),
        ('a label that is both a boundary input and a mapped output', ('h', 'k'),
         ([('p', 'INPUT', ()), ('q', 'INPUT', ()), ('n1', 'XOR', ('p', 'q')), ('n2', 'IFF', ('q',))], ('n1', 'n2')), {'x': 'p', 'c': 'q'}, {'g': 'n1', 'c': 'n2'}, True),
        ('a replacement that closes a cycle through a gate outside the region', ('h', 'k'),
         ([('p', 'INPUT', ()), ('q', 'INPUT', ()), ('r', 'INPUT', ()), ('n0', 'XOR', ('p', 'r')), ('n1', 'GEQ', ('n0', 'q'))], ('n1',)), {'x': 'p', 'h': 'q', 'c': 'r'}, {'g': 'n1'}, True),
        ('an unmapped input of the replacement', ('h',),
         ([('p', 'INPUT', ()), ('q', 'INPUT', ()), ('r', 'INPUT', ()), ('n1', 'XOR', ('p', 'q'))], ('n1',)), {'x': 'p', 'c': 'q'}, {'g': 'n1'}, True),
    ]
    for desc, outs, (sspec, souts), im, om, refuse in cases:
        # (in the two-gate region no gate outside may read the inner gate g: the host is taken without k there)
        c = M.build_circuit([x for x in host if not (desc.startswith('a region of two gates') and x[0] == 'k')], outs)
        sub = M.build_circuit(sspec, souts)
        tt0 = truth_table(c)
        sub0 = cm.snapshot(sub)
        _, err = M.call(c, 'replace_subcircuit', sub, dict(im), dict(om))
        if os.environ.get('CIRBO_VERIF_DEBUG'):
            print('DEBUG replace case', desc, '->', err, problems(c)[:1], cm.snapshot(c)['gates'] if not err else '')
        if refuse:
            ok = bool(err)
            why = 'the call returned normally' if not err else ''
            if not err and not problems(c) and truth_table(c) is not None and truth_table(c)[1] == tt0[1]:
                ok, why = True, ''   # accepted and still right: also fine
        else:
            pr = [] if err else problems(c)
            tt1 = None if err or pr else truth_table(c)
            ok = not err and not pr and tt1 is not None and tt1[1] == tt0[1] and len(tt1[0]) == len(tt0[0]) and cm.snapshot(sub) == sub0
            why = err or (pr[0] if pr else ('the replacement circuit was modified' if cm.snapshot(sub) != sub0 else f'outputs compute {tt1[1] if tt1 else None} instead of {tt0[1]}'))
        ck.add_coverage(M.interp)
        ck.check(ok, R, mod, fn, f'replace_subcircuit with {desc}: ' + ('refused, or still a well-formed circuit with the same truth table' if refuse else 'well-formed circuit, same truth table, replacement untouched'), why,
                 construct=f'replace_subcircuit: {desc}')
