"""E4: effect summaries -- which functions may mutate which of their parameters.

Flow-insensitive, alias-aware, inter-procedural (fixpoint over the call graph
resolved through the import map, method names resolved through the classes of the
repository). Over-approximate: "may mutate".
"""

from __future__ import annotations

import ast
import typing as tp

from .core import AnalysisError, Module, Repo, call_name, norm, param_names, walk_no_nested

MUTATING_METHODS = {
    'append', 'extend', 'insert', 'remove', 'pop', 'clear', 'update', 'setdefault', 'sort',
    'reverse', 'popitem', 'add', 'discard', '__setitem__', '__delitem__', 'appendleft', 'popleft',
    'difference_update', 'intersection_update', 'symmetric_difference_update',
}
FRESH_CALLS = {
    'list', 'tuple', 'dict', 'set', 'frozenset', 'sorted', 'reversed', 'enumerate', 'zip', 'len', 'str', 'int', 'bool',
    'copy.copy', 'copy.deepcopy', 'range', 'sum', 'min', 'max', 'any', 'all', 'iter', 'map', 'filter', 'isinstance', 'repr',
}
# container methods returning fresh values / scalars
PURE_METHODS = {
    'copy', 'index', 'count', 'keys', 'values', 'items', 'get', 'join', 'upper', 'lower', 'startswith', 'endswith',
    'split', 'strip', 'find', 'format', 'union', 'intersection', 'difference', 'issubset', 'issuperset',
}


def root_name(expr) -> tp.Optional[str]:
    """Base Name of an access path x.a[b].c(...).d ; None if not rooted at a Name."""
    cur = expr
    while True:
        if isinstance(cur, (ast.Attribute, ast.Subscript, ast.Starred)):
            cur = cur.value
        elif isinstance(cur, ast.Call):
            cur = cur.func
            if isinstance(cur, ast.Name):
                return None  # f(...) result: not an access path into a variable
        elif isinstance(cur, ast.Name):
            return cur.id
        else:
            return None


def is_fresh_expr(expr) -> bool:
    """Expression that allocates a new object (never an alias of an existing mutable one)."""
    if isinstance(expr, (ast.List, ast.Dict, ast.Set, ast.Tuple, ast.ListComp, ast.DictComp, ast.SetComp, ast.GeneratorExp,
                         ast.Constant, ast.JoinedStr, ast.BinOp, ast.Compare, ast.BoolOp, ast.UnaryOp, ast.Lambda)):
        return True
    if isinstance(expr, ast.Subscript) and isinstance(expr.slice, ast.Slice):
        return True
    if isinstance(expr, ast.Call):
        n = norm(expr.func)
        if n in FRESH_CALLS:
            return True
    return False


class FuncInfo:
    def __init__(self, mod: Module, qual: str, node, cls: tp.Optional[str]):
        self.mod = mod
        self.qual = qual
        self.node = node
        self.cls = cls
        self.params = param_names(node)
        self.mutated: set[str] = set()  # params that may be mutated
        self.reasons: dict[str, list] = {}
        self.returns_param: set[str] = set()

    @property
    def key(self):
        return f'{self.mod.name}:{self.qual}'


class Effects:
    def __init__(self, repo: Repo):
        self.repo = repo
        self.funcs: dict[str, FuncInfo] = {}
        self.by_name: dict[str, list[FuncInfo]] = {}
        for m in repo.modules.values():
            for q, node in m.functions.items():
                parts = q.split('.')
                # top-level functions and methods only; nested defs are analysed as part of their parent
                if len(parts) == 1:
                    fi = FuncInfo(m, q, node, None)
                elif len(parts) == 2 and parts[0] in m.classes:
                    fi = FuncInfo(m, q, node, parts[0])
                else:
                    continue
                self.funcs[fi.key] = fi
                self.by_name.setdefault(parts[-1], []).append(fi)
        self._fixpoint()

    # ------------------------------------------------------------------
    def lookup(self, modname, qual) -> FuncInfo:
        k = f'{modname}:{qual}'
        if k not in self.funcs:
            raise AnalysisError(f'function {k} not found for effect summary (anchor vanished)')
        return self.funcs[k]

    def aliases(self, fi: FuncInfo) -> dict[str, set[str]]:
        """local name -> set of params it may alias (flow-insensitive, incl. nested defs)."""
        al: dict[str, set[str]] = {p: {p} for p in fi.params}
        changed = True

        def src_params(expr) -> set[str]:
            if expr is None or is_fresh_expr(expr):
                # a slice/copy/comprehension is fresh
                return set()
            if isinstance(expr, ast.IfExp):
                return src_params(expr.body) | src_params(expr.orelse)
            if isinstance(expr, ast.Call):
                f = expr.func
                if isinstance(f, ast.Attribute):
                    if f.attr in PURE_METHODS and f.attr not in ('get', 'values', 'items', 'keys'):
                        return set()
                    # x.m(...) may return (part of) x: observer/exposer result aliases x's state
                    r = root_name(f.value)
                    if r in al:
                        # a repository method whose summary says what it returns: the receiver's state only if some
                        # candidate returns self / inner state, an argument only if it returns that parameter
                        cands = [c for c in self.by_name.get(f.attr, []) if c.cls is not None]
                        if cands:
                            out = set()
                            for c in cands:
                                if c.params and c.params[0] in ('self', 'cls'):
                                    if c.params[0] in c.returns_param:
                                        out |= al[r]
                                    rest = c.params[1:]
                                else:
                                    rest = c.params
                                for p in rest:
                                    if p in c.returns_param:
                                        a = self._arg_for(expr, c, p, method_call=True)
                                        if a is not None:
                                            out |= src_params(a)
                            return out
                        # unknown method: it may return (part of) the receiver
                        return set(al[r])
                    return set()
                if isinstance(f, ast.Name):
                    res = self._resolve_call(fi.mod, expr, None)
                    out = set()
                    for callee in res:
                        for i, p in enumerate(callee.params):
                            if p in callee.returns_param:
                                a = self._arg_for(expr, callee, p)
                                if a is not None:
                                    out |= src_params(a)
                    return out
                return set()
            r = root_name(expr)
            if r in al:
                return set(al[r])
            return set()

        while changed:
            changed = False
            for node in ast.walk(fi.node):
                pairs = []
                if isinstance(node, ast.Assign):
                    for t in node.targets:
                        pairs.append((t, node.value))
                elif isinstance(node, ast.AnnAssign) and node.value is not None:
                    pairs.append((node.target, node.value))
                elif isinstance(node, ast.NamedExpr):
                    pairs.append((node.target, node.value))
                elif isinstance(node, (ast.For, ast.comprehension)):
                    it = node.iter
                    # iterating a container rooted at a param yields inner objects of it
                    pairs.append((node.target, it))
                elif isinstance(node, ast.withitem) and node.optional_vars is not None:
                    pairs.append((node.optional_vars, node.context_expr))
                for t, v in pairs:
                    srcs = set()
                    if isinstance(node, (ast.For, ast.comprehension)):
                        # elements of a fresh copy (list(x), x.values()) are still the inner objects
                        vv = v
                        while isinstance(vv, ast.Call) and norm(vv.func) in ('list', 'tuple', 'enumerate', 'reversed', 'sorted', 'zip', 'iter') and vv.args:
                            if norm(vv.func) == 'zip':
                                break
                            vv = vv.args[0]
                        if isinstance(vv, ast.Call) and norm(vv.func) == 'zip':
                            for a in vv.args:
                                r = root_name(a)
                                if r in al:
                                    srcs |= al[r]
                        else:
                            r = root_name(vv)
                            if r in al:
                                srcs |= al[r]
                    else:
                        srcs = src_params(v)
                    if not srcs:
                        continue
                    for tn in _bound_names(t):
                        if True:
                            cur = al.setdefault(tn.id, set())
                            if not srcs <= cur:
                                cur |= srcs
                                changed = True
        return al

    def _arg_for(self, call: ast.Call, callee: FuncInfo, pname: str, method_call=False):
        a = callee.node.args
        pos = [p.arg for p in a.posonlyargs + a.args]
        offset = 1 if (callee.cls and method_call and pos and pos[0] in ('self', 'cls')) else 0
        for k in call.keywords:
            if k.arg == pname:
                return k.value
        if pname in pos:
            i = pos.index(pname) - offset
            if 0 <= i < len(call.args) and not any(isinstance(x, ast.Starred) for x in call.args[: i + 1]):
                return call.args[i]
        return None

    def _resolve_call(self, mod: Module, call: ast.Call, al) -> list[FuncInfo]:
        f = call.func
        out = []
        if isinstance(f, ast.Name) or (isinstance(f, ast.Attribute) and self.repo.resolve_expr(mod, f) and self.repo.resolve_expr(mod, f)[2] in ('function', 'class')):
            res = self.repo.resolve_expr(mod, f)
            if res and res[2] == 'function':
                k = f'{res[0].name}:{res[1]}'
                if k in self.funcs:
                    out.append(self.funcs[k])
            elif res and res[2] == 'class':
                k = f'{res[0].name}:{res[1]}.__init__'
                if k in self.funcs:
                    out.append(self.funcs[k])
            return out
        if isinstance(f, ast.Subscript) and isinstance(f.value, ast.Name):
            # dispatch through a module-level registry dict: every registered function is a callee
            res = self.repo.resolve_expr(mod, f.value)
            if res and res[2] == 'assign' and isinstance(res[3], ast.Dict):
                for v in res[3].values:
                    r2 = self.repo.resolve_expr(res[0], v)
                    if r2 and r2[2] == 'function':
                        k = f'{r2[0].name}:{r2[1]}'
                        if k in self.funcs:
                            out.append(self.funcs[k])
            return out
        if isinstance(f, ast.Attribute):
            # method call: resolve by name over the repository's classes
            for fi in self.by_name.get(f.attr, []):
                if fi.cls is not None:
                    out.append(fi)
        return out

    def _scan(self, fi: FuncInfo) -> bool:
        """One pass; returns True if the summary grew."""
        al = self.aliases(fi)
        grew = False
        det = detached_map(fi.node)
        parents = fi.mod.parents

        def detached_names(node):
            cur = node
            while cur is not None and not isinstance(cur, ast.stmt):
                cur = parents.get(cur)
            return det.get(id(cur), frozenset()) if cur is not None else frozenset()

        def mark(params: set[str], why, node):
            nonlocal grew
            for p in params:
                if p in fi.params:
                    if p not in fi.mutated:
                        fi.mutated.add(p)
                        grew = True
                    lst = fi.reasons.setdefault(p, [])
                    entry = (why, getattr(node, 'lineno', 0), norm(node)[:140])
                    if entry not in lst and len(lst) < 12:
                        lst.append(entry)

        def params_of(expr) -> set[str]:
            r = root_name(expr)
            if r is None:
                return set()
            if r in detached_names(expr):
                return set()
            return set(al.get(r, set()))

        for node in ast.walk(fi.node):
            # stores / deletes through an access path
            targets = []
            if isinstance(node, ast.Assign):
                targets = node.targets
            elif isinstance(node, (ast.AugAssign, ast.AnnAssign)):
                targets = [node.target]
            elif isinstance(node, ast.Delete):
                targets = node.targets
            for t in targets:
                for tn in ([t] if not isinstance(t, (ast.Tuple, ast.List)) else list(t.elts)):
                    if isinstance(tn, (ast.Attribute, ast.Subscript)):
                        mark(params_of(tn), 'store', node)
                    elif isinstance(tn, ast.Name) and isinstance(node, ast.AugAssign):
                        # x += [...] on an aliased list mutates in place
                        if isinstance(node.op, ast.Add):
                            ps = set(al.get(tn.id, set()))
                            if ps and tn.id not in fi.params or (tn.id in fi.params):
                                # only lists are mutated in place; strings/ints are rebound.  Over-approximate
                                # for names that alias a parameter's container.
                                if ps and _looks_container(fi, tn.id):
                                    mark(ps, 'augmented assignment', node)
            if isinstance(node, ast.Call):
                f = node.func
                if isinstance(f, ast.Attribute):
                    recv = f.value
                    ps = params_of(recv)
                    if ps:
                        if f.attr in MUTATING_METHODS:
                            mark(ps, f'.{f.attr}()', node)
                        else:
                            for callee in self.by_name.get(f.attr, []):
                                if callee.cls is not None and callee.params and callee.params[0] in callee.mutated and callee.params[0] == 'self':
                                    mark(ps, f'calls mutator {callee.qual}', node)
                                    break
                # arguments passed to callees that mutate the corresponding parameter
                callees = self._resolve_call(fi.mod, node, al)
                for callee in callees:
                    is_method = isinstance(f, ast.Attribute) and callee.cls is not None and not (
                        self.repo.resolve_expr(fi.mod, f) and self.repo.resolve_expr(fi.mod, f)[2] == 'function')
                    for p in callee.params:
                        if p not in callee.mutated or p == 'self' and is_method:
                            continue
                        a = self._arg_for(node, callee, p, method_call=is_method or (callee.cls is not None and callee.qual.endswith('.__init__')))
                        if a is None:
                            continue
                        ps = params_of(a) if not is_fresh_expr(a) else set()
                        if ps:
                            mark(ps, f'passed to {callee.qual}({p}) which may mutate it', node)
            if isinstance(node, ast.Return) and node.value is not None and not is_fresh_expr(node.value):
                r = root_name(node.value) if isinstance(node.value, (ast.Name, ast.Attribute, ast.Subscript)) else None
                if r is not None:
                    for p in al.get(r, set()):
                        if p in fi.params and p not in fi.returns_param:
                            fi.returns_param.add(p)
                            grew = True
        return grew

    def _fixpoint(self):
        for _ in range(12):
            grew = False
            for fi in self.funcs.values():
                if self._scan(fi):
                    grew = True
            if not grew:
                return
        raise AnalysisError('effect summaries did not converge')

    # ------------------------------------------------------------------
    def class_methods(self, modname, cls):
        return {fi.qual.split('.', 1)[1]: fi for fi in self.funcs.values() if fi.mod.name == modname and fi.cls == cls}

    def mutators(self, modname, cls) -> dict[str, FuncInfo]:
        return {n: fi for n, fi in self.class_methods(modname, cls).items() if fi.params and fi.params[0] == 'self' and 'self' in fi.mutated}

    def exposers(self, modname, cls) -> list[str]:
        out = []
        for n, fi in self.class_methods(modname, cls).items():
            for node in ast.walk(fi.node):
                if isinstance(node, ast.Return) and node.value is not None:
                    v = node.value
                    if isinstance(v, ast.Attribute) and isinstance(v.value, ast.Name) and v.value.id == 'self' and v.attr.startswith('_'):
                        out.append(n)
                    elif isinstance(v, ast.Subscript) and isinstance(v.value, ast.Attribute) and norm(v.value.value) == 'self' and v.value.attr.startswith('_'):
                        out.append(n)
        return sorted(set(out))


def detached_map(fn) -> dict[int, frozenset]:
    """id(stmt) -> names that, on every path reaching the statement, were last bound to a
    freshly allocated value (so stores through them do not reach the caller's objects)."""
    out: dict[int, frozenset] = {}

    def fresh_value(v, cur):
        if v is None:
            return False
        if is_fresh_expr(v):
            return True
        if isinstance(v, ast.Call) and isinstance(v.func, ast.Name) and v.func.id == 'reverse_if_big_endian':
            return True
        if isinstance(v, ast.Name) and v.id in cur:
            return True
        if isinstance(v, ast.IfExp):
            return fresh_value(v.body, cur) and fresh_value(v.orelse, cur)
        return False

    def block(stmts, cur: frozenset) -> frozenset:
        for st in stmts:
            cur = stmt(st, cur)
        return cur

    def stmt(st, cur: frozenset) -> frozenset:
        out[id(st)] = cur
        for sub in ast.walk(st):
            if isinstance(sub, ast.stmt) and sub is not st and id(sub) not in out:
                out[id(sub)] = cur  # default for nested statements not visited structurally
        if isinstance(st, (ast.Assign, ast.AnnAssign)):
            targets = st.targets if isinstance(st, ast.Assign) else [st.target]
            v = st.value
            for t in targets:
                if isinstance(t, ast.Name):
                    if fresh_value(v, cur):
                        cur = cur | {t.id}
                    else:
                        cur = cur - {t.id}
                elif isinstance(t, (ast.Tuple, ast.List)):
                    if isinstance(v, (ast.Tuple, ast.List)) and len(v.elts) == len(t.elts) and all(isinstance(e, ast.Name) for e in t.elts):
                        before = cur
                        for tn, ve in zip(t.elts, v.elts):
                            if fresh_value(ve, before):
                                cur = cur | {tn.id}
                            else:
                                cur = cur - {tn.id}
                    else:
                        for n in _bound_names(t):
                            cur = cur - {n.id}
            return cur
        if isinstance(st, ast.If):
            a = block(st.body, cur)
            b = block(st.orelse, cur)
            from .core import terminates
            if terminates(st.body):
                return b
            if st.orelse and terminates(st.orelse):
                return a
            return a & b
        if isinstance(st, (ast.For, ast.While)):
            inner = cur
            if isinstance(st, ast.For):
                for n in _bound_names(st.target):
                    inner = inner - {n.id}
            a = block(st.body, inner)
            # second pass with the loop-carried state so that statements see the join
            a2 = block(st.body, inner & a)
            block(st.orelse, inner & a2)
            return inner & a2
        if isinstance(st, ast.With):
            return block(st.body, cur)
        if isinstance(st, ast.Try):
            a = block(st.body, cur)
            for h in st.handlers:
                a = a & block(h.body, cur)
            a = block(st.orelse, a)
            return block(st.finalbody, a)
        if isinstance(st, (ast.FunctionDef, ast.AsyncFunctionDef)):
            block(st.body, frozenset())
            return cur
        return cur

    block(fn.body, frozenset())
    return out


def _bound_names(t):
    """Names *bound* by an assignment target (not the containers stored into)."""
    if isinstance(t, ast.Name):
        yield t
    elif isinstance(t, (ast.Tuple, ast.List)):
        for e in t.elts:
            yield from _bound_names(e)
    elif isinstance(t, ast.Starred):
        yield from _bound_names(t.value)


def _looks_container(fi: FuncInfo, name: str) -> bool:
    """Heuristic used only for `x += ...`: is `x` bound to a list-like (not str/int)?"""
    for node in ast.walk(fi.node):
        if isinstance(node, ast.Assign) and any(isinstance(t, ast.Name) and t.id == name for t in node.targets):
            if isinstance(node.value, (ast.Constant, ast.JoinedStr, ast.BinOp)):
                return False
    a = fi.node.args
    for p in a.posonlyargs + a.args + a.kwonlyargs:
        if p.arg == name and p.annotation is not None:
            ann = norm(p.annotation)
            if ann in ('str', 'int', 'bool', 'gate.Label', 'Label'):
                return False
    return True
