"""E0: loader, name resolution, obligations bookkeeping.

Nothing here imports or executes repository code.
"""

from __future__ import annotations

import ast
import dataclasses
import hashlib
import os
import pathlib
import re
import typing as tp


REPO = pathlib.Path(os.environ.get('CIRBO_VERIF_REPO', '/repo'))
PKG = 'cirbo'


class AnalysisError(Exception):
    """The analyser cannot decide: anchor vanished, unknown shape, floor not met.

    Never a verdict about the repository; converted to exit code 2.
    """


def norm(node_or_text) -> str:
    """Normalised text of a construct (layout- and line-independent key)."""
    if isinstance(node_or_text, ast.AST):
        text = ast.unparse(node_or_text)
    else:
        text = str(node_or_text)
    return re.sub(r'\s+', ' ', text).strip()


class Module:
    def __init__(self, name: str, path: pathlib.Path, rel: str):
        self.name = name
        self.path = path
        self.rel = rel
        raw = path.read_bytes()
        self.sha256 = hashlib.sha256(raw).hexdigest()
        self.src = raw.decode('utf-8')
        try:
            self.tree = ast.parse(self.src, filename=str(path))
        except SyntaxError as e:  # the tree must at least compile
            raise AnalysisError(f'{rel}: does not parse: {e}')
        self.is_package = path.name == '__init__.py'
        self.parents: dict[ast.AST, ast.AST] = {}
        for parent in ast.walk(self.tree):
            for child in ast.iter_child_nodes(parent):
                self.parents[child] = parent
        self.functions: dict[str, ast.FunctionDef] = {}
        self.classes: dict[str, ast.ClassDef] = {}
        self.assigns: dict[str, ast.expr] = {}
        self.assign_nodes: dict[str, ast.stmt] = {}
        self.imports: dict[str, tuple[str, tp.Optional[str]]] = {}
        self._index(self.tree.body, '')
        self._collect_imports()

    # -- indexing -----------------------------------------------------------
    def _index(self, body, prefix):
        for st in body:
            if isinstance(st, (ast.FunctionDef, ast.AsyncFunctionDef)):
                q = prefix + st.name
                self.functions[q] = st
                self._index_nested(st, q + '.')
            elif isinstance(st, ast.ClassDef):
                q = prefix + st.name
                self.classes[q] = st
                self._index(st.body, q + '.')
            elif prefix == '' and isinstance(st, ast.Assign):
                for t in st.targets:
                    if isinstance(t, ast.Name):
                        self.assigns[t.id] = st.value
                        self.assign_nodes[t.id] = st
                    elif isinstance(t, (ast.Tuple, ast.List)) and all(isinstance(e, ast.Name) for e in t.elts):
                        # `a, b, c = 1, 2, 3` (or `= some_tuple`): each name is the matching component
                        for i, e in enumerate(t.elts):
                            if isinstance(st.value, (ast.Tuple, ast.List)) and len(st.value.elts) == len(t.elts) and not any(isinstance(x, ast.Starred) for x in st.value.elts):
                                comp = st.value.elts[i]
                            else:
                                comp = ast.fix_missing_locations(ast.copy_location(ast.Subscript(value=st.value, slice=ast.Constant(i), ctx=ast.Load()), st.value))
                            self.assigns[e.id] = comp
                            self.assign_nodes[e.id] = st
            elif prefix == '' and isinstance(st, ast.AnnAssign):
                if isinstance(st.target, ast.Name) and st.value is not None:
                    self.assigns[st.target.id] = st.value
                    self.assign_nodes[st.target.id] = st
            elif isinstance(st, ast.If) and prefix == '':
                # e.g. `if tp.TYPE_CHECKING:` blocks: index imports only (below)
                pass

    def _index_nested(self, fn, prefix):
        for node in ast.walk(fn):
            if node is fn:
                continue
            if isinstance(node, (ast.FunctionDef, ast.AsyncFunctionDef)):
                # qualified by chain of enclosing defs
                chain = []
                cur = node
                while cur is not fn:
                    if isinstance(cur, (ast.FunctionDef, ast.AsyncFunctionDef)):
                        chain.append(cur.name)
                    cur = self.parents[cur]
                q = prefix + '.'.join(reversed(chain))
                self.functions.setdefault(q, node)

    def _collect_imports(self):
        pkg_parts = self.name.split('.')
        if not self.is_package:
            pkg_parts = pkg_parts[:-1]
        for node in ast.walk(self.tree):
            if isinstance(node, ast.Import):
                for a in node.names:
                    if a.asname:
                        self.imports[a.asname] = (a.name, None)
                    else:
                        top = a.name.split('.')[0]
                        self.imports[top] = (top, None)
            elif isinstance(node, ast.ImportFrom):
                if node.level:
                    base = pkg_parts[: len(pkg_parts) - (node.level - 1)]
                    modname = '.'.join(base + ([node.module] if node.module else []))
                else:
                    modname = node.module or ''
                for a in node.names:
                    self.imports[a.asname or a.name] = (modname, a.name)

    # -- helpers ------------------------------------------------------------
    def qualname_of(self, node: ast.AST) -> str:
        """Qualified name of the innermost enclosing def/class chain of `node`."""
        chain = []
        cur = node
        while cur in self.parents or cur is node:
            if isinstance(cur, (ast.FunctionDef, ast.AsyncFunctionDef, ast.ClassDef)):
                chain.append(cur.name)
            if cur not in self.parents:
                break
            cur = self.parents[cur]
        return '.'.join(reversed(chain)) or '<module>'

    def func(self, qualname: str) -> ast.FunctionDef:
        if qualname not in self.functions:
            raise AnalysisError(f'{self.rel}: function {qualname} not found (anchor vanished)')
        return self.functions[qualname]

    def cls(self, qualname: str) -> ast.ClassDef:
        if qualname not in self.classes:
            raise AnalysisError(f'{self.rel}: class {qualname} not found (anchor vanished)')
        return self.classes[qualname]

    def assign(self, name: str) -> ast.expr:
        if name not in self.assigns:
            raise AnalysisError(f'{self.rel}: module-level name {name} not found (anchor vanished)')
        return self.assigns[name]

    def enclosing_function(self, node):
        cur = node
        while cur in self.parents:
            cur = self.parents[cur]
            if isinstance(cur, (ast.FunctionDef, ast.AsyncFunctionDef)):
                return cur
        return None

    def enclosing_stmt(self, node):
        cur = node
        while not isinstance(cur, ast.stmt):
            cur = self.parents[cur]
        return cur


@dataclasses.dataclass
class Loc:
    file: str
    func: str
    line: int
    construct: str

    def __str__(self):
        return f'{self.file}:{self.line} in {self.func}: `{self.construct}`'


class Repo:
    """All modules under /repo/cirbo, parsed once per process."""

    def __init__(self, root: pathlib.Path = REPO):
        self.root = pathlib.Path(root)
        self.modules: dict[str, Module] = {}
        pkgdir = self.root / PKG
        if not pkgdir.is_dir():
            raise AnalysisError(f'{pkgdir} is not a directory')
        for path in sorted(pkgdir.rglob('*.py')):
            rel = path.relative_to(self.root).as_posix()
            parts = list(path.relative_to(self.root).with_suffix('').parts)
            if parts[-1] == '__init__':
                parts = parts[:-1]
            name = '.'.join(parts)
            self.modules[name] = Module(name, path, rel)
        self.consulted: set[str] = set()

    def mod(self, name: str) -> Module:
        if name not in self.modules:
            raise AnalysisError(f'module {name} not found (anchor vanished)')
        self.consulted.add(name)
        return self.modules[name]

    def loc(self, mod: Module, node: ast.AST, construct=None) -> Loc:
        line = getattr(node, 'lineno', 0)
        if construct is None:
            if isinstance(node, (ast.FunctionDef, ast.ClassDef, ast.AsyncFunctionDef)):
                construct = f'def {node.name}' if not isinstance(node, ast.ClassDef) else f'class {node.name}'
            else:
                construct = norm(node)
                if len(construct) > 200:
                    construct = construct[:197] + '...'
        return Loc(mod.rel, mod.qualname_of(node), line, construct)

    # -- name resolution ----------------------------------------------------
    def resolve_def(self, modname: str, name: str, _depth=0):
        """Follow imports to the defining module.

        Returns (module, name, kind, node) with kind in
        {'function','class','assign','module','external'}.
        """
        if _depth > 12:
            raise AnalysisError(f'import cycle resolving {modname}.{name}')
        if modname not in self.modules:
            return (None, f'{modname}.{name}' if name else modname, 'external', None)
        m = self.mod(modname)
        if name in m.functions and '.' not in name:
            return (m, name, 'function', m.functions[name])
        if name in m.classes and '.' not in name:
            return (m, name, 'class', m.classes[name])
        if name in m.assigns:
            return (m, name, 'assign', m.assigns[name])
        if name in m.imports:
            tmod, tname = m.imports[name]
            if tname is None:
                if tmod in self.modules:
                    return (self.mod(tmod), None, 'module', None)
                return (None, tmod, 'external', None)
            sub = f'{tmod}.{tname}'
            if sub in self.modules:
                return (self.mod(sub), None, 'module', None)
            return self.resolve_def(tmod, tname, _depth + 1)
        sub = f'{modname}.{name}'
        if sub in self.modules:
            return (self.mod(sub), None, 'module', None)
        return (None, f'{modname}.{name}', 'unknown', None)

    def resolve_expr(self, mod: Module, expr: ast.expr):
        """Resolve a Name / dotted Attribute chain to its definition, or None."""
        chain = []
        cur = expr
        while isinstance(cur, ast.Attribute):
            chain.append(cur.attr)
            cur = cur.value
        if not isinstance(cur, ast.Name):
            return None
        chain.reverse()
        res = self.resolve_def(mod.name, cur.id)
        for attr in chain:
            m, name, kind, node = res
            if kind == 'module':
                res = self.resolve_def(m.name, attr)
            elif kind == 'external':
                res = (None, f'{name}.{attr}', 'external', None)
            elif kind == 'class':
                q = f'{name}.{attr}'
                if q in m.functions:
                    res = (m, q, 'function', m.functions[q])
                else:
                    return (m, q, 'classattr', None)
            else:
                return (m, f'{name}.{attr}', 'attr', None)
        return res

    def canonical(self, mod: Module, expr: ast.expr) -> tp.Optional[str]:
        """Canonical dotted name of what `expr` denotes (e.g. cirbo.core.circuit.gate.AND)."""
        res = self.resolve_expr(mod, expr)
        if res is None:
            return None
        m, name, kind, node = res
        if kind in ('external', 'unknown'):
            return name
        if kind == 'module':
            return m.name
        return f'{m.name}.{name}'


GATE_MOD = 'cirbo.core.circuit.gate'
GATE_NAMES = (
    'INPUT', 'ALWAYS_TRUE', 'ALWAYS_FALSE', 'AND', 'GEQ', 'GT', 'IFF', 'LEQ', 'LIFF',
    'LNOT', 'LT', 'NAND', 'NOR', 'NOT', 'NXOR', 'OR', 'RIFF', 'RNOT', 'XOR',
)


def gate_const(repo: Repo, mod: Module, expr: ast.expr) -> tp.Optional[str]:
    """If `expr` denotes one of the GateType constants, its name; else None."""
    c = repo.canonical(mod, expr)
    if c and c.startswith(GATE_MOD + '.'):
        n = c[len(GATE_MOD) + 1:]
        if n in GATE_NAMES:
            return n
    return None


# ---------------------------------------------------------------------------
# obligations


@dataclasses.dataclass
class Obligation:
    rule: str
    loc: Loc
    what: str
    status: str  # 'ok' | 'violation'
    msg: str = ''
    detail: tp.Any = None

    def key(self):
        return (self.rule, self.loc.file, self.loc.func, self.loc.construct)

    def to_json(self):
        d = {
            'rule': self.rule,
            'file': self.loc.file,
            'function': self.loc.func,
            'line': self.loc.line,
            'construct': self.loc.construct,
            'what': self.what,
            'status': self.status,
        }
        if self.msg:
            d['message'] = self.msg
        if self.detail is not None:
            d['detail'] = self.detail
        return d


class _SoftAbort(Exception):
    pass


class Checker:
    """Collects the obligations of one property's rules."""

    def __init__(self, repo: Repo, prop: str, tier: str = 'quick'):
        self.repo = repo
        self.prop = prop
        self.tier = tier
        self.obligations: list[Obligation] = []
        self.rules_applied: dict[str, str] = {}
        self.assumptions: list[str] = []
        self.notes: dict[str, tp.Any] = {}
        self.counts: dict[str, int] = {}

    def rule(self, rule_id: str, text: str):
        self.rules_applied[rule_id] = text

    def assume(self, text: str):
        if text not in self.assumptions:
            self.assumptions.append(text)

    # ---- soft scopes: structural rules whose clause is decided by a fold -------------------------------------------
    _soft = None

    _soft_hard = False

    # (file, qualified function name) of every repository function a fold of this run has executed
    covered: set = None
    _soft_cov = False

    def add_coverage(self, interp):
        if self.covered is None:
            self.covered = set()
        for mod, node in (interp.executed or {}).values():
            self.covered.add((mod.rel, mod.qualname_of(node) if not isinstance(node, ast.Lambda) else '<lambda>'))

    def soft(self, covered_by, undecided=False, need_coverage=False):
        """Context manager.  Inside it the structural (shape) rules speak only when they recognise what they see:
        a failed check, a failed `need`, a missing anchor or an unmet instance floor means "this is written in a way
        the rule does not know", and the clause is left to the fold named in `covered_by` (which decides the behaviour
        of whatever is written there).  Nothing inside a soft scope can produce a violation or an analysis error."""
        import contextlib
        ck = self

        @contextlib.contextmanager
        def scope():
            prev = (ck._soft, ck._soft_hard, ck._soft_cov)
            ck._soft, ck._soft_hard, ck._soft_cov = covered_by, undecided, need_coverage
            try:
                yield
            except (_SoftAbort, AnalysisError, AttributeError, IndexError, KeyError, TypeError, ValueError, StopIteration) as e:
                # (a structural rule tripping over an unfamiliar syntax tree is the same situation: it does not apply)
                if undecided:
                    # no fold decides this clause: an unrecognised shape is "cannot decide" (exit 2), never a violation
                    ck.obligations.append(Obligation(covered_by, Loc('', '', 0, covered_by), 'structural rule applies to the code it is about', 'undecided', str(e)[:300], None))
                else:
                    ck.notes.setdefault('structural_rules_not_applicable', []).append(f'{str(e)[:200]} [left to {covered_by}]')
            finally:
                ck._soft, ck._soft_hard, ck._soft_cov = prev
        return scope()

    def hard_on(self):
        """Inside a soft scope: the obligations that follow are folds (semantic verdicts), not shape rules."""
        self._suspended = (self._soft, self._soft_hard)
        self._soft, self._soft_hard = None, False

    def hard_off(self):
        self._soft, self._soft_hard = getattr(self, '_suspended', (None, False))

    def ok(self, rule, mod, node, what, detail=None, construct=None):
        self.obligations.append(
            Obligation(rule, self.repo.loc(mod, node, construct), what, 'ok', '', detail)
        )

    def bad(self, rule, mod, node, what, msg, detail=None, construct=None):
        if self._soft and self._soft_cov and self.covered is not None:
            loc = self.repo.loc(mod, node, construct)
            if (loc.file, loc.func) not in self.covered:
                # the fold that would decide this clause never entered the function: the shape rule's finding stands
                self.obligations.append(Obligation(rule, loc, what, 'violation', msg + f' [function not exercised by {self._soft}]', detail))
                return
        if self._soft:
            if self._soft_hard:
                self.undecided(rule, mod, node, what, msg, construct)
            else:
                self.skip(rule, mod, node, what, self._soft, construct)
            return
        self.obligations.append(
            Obligation(rule, self.repo.loc(mod, node, construct), what, 'violation', msg, detail)
        )

    def check(self, cond, rule, mod, node, what, msg, detail=None, construct=None):
        if cond:
            self.ok(rule, mod, node, what, detail, construct)
        else:
            self.bad(rule, mod, node, what, msg, detail, construct)
        return bool(cond)

    def undecided(self, rule, mod, node, what, why, construct=None):
        """The rule does not recognise the code it is about (another way of writing it, which may be perfectly
        right): neither a discharge nor a violation.  The run ends with ANALYSIS-ERROR (exit 2) unless a real
        violation was found."""
        self.obligations.append(Obligation(rule, self.repo.loc(mod, node, construct), what, 'undecided', why, None))

    def skip(self, rule, mod, node, what, why, construct=None):
        """The shape this rule knows is not there, and the clause is decided by another rule (a fold): discharged
        with the reason on file."""
        self.obligations.append(Obligation(rule, self.repo.loc(mod, node, construct), f'{what} [shape not recognised; clause decided by {why}]', 'ok', '', None))

    def decide(self, state, rule, mod, node, what, msg, construct=None, detail=None, covered_by=None):
        """state: True = holds, False = recognised and wrong, None = shape not recognised."""
        if state is None:
            if covered_by:
                self.skip(rule, mod, node, what, covered_by, construct)
            else:
                self.undecided(rule, mod, node, what, msg, construct)
            return None
        return self.check(state, rule, mod, node, what, msg, detail, construct)

    def need(self, cond, msg):
        """Analyser-side requirement: failing it is an ANALYSIS-ERROR, not a verdict."""
        if not cond:
            if self._soft:
                raise _SoftAbort(msg)
            raise AnalysisError(msg)

    def floor(self, rule, minimum):
        n = sum(1 for o in self.obligations if o.rule == rule)
        self.counts[rule] = n
        if self._soft:
            return n
        if n < minimum and not any(o.rule == rule and o.status == 'violation' for o in self.obligations):
            raise AnalysisError(
                f'{rule}: only {n} rule instances found, at least {minimum} were '
                f'confirmed by hand on the pinned tree (rule would pass vacuously)'
            )
        return n


# ---------------------------------------------------------------------------
# small AST utilities shared by the rules


def is_name(node, name=None):
    return isinstance(node, ast.Name) and (name is None or node.id == name)


def is_attr(node, attr=None):
    return isinstance(node, ast.Attribute) and (attr is None or node.attr == attr)


def is_self_attr(node, attr=None, selfname='self'):
    return (
        isinstance(node, ast.Attribute)
        and isinstance(node.value, ast.Name)
        and node.value.id == selfname
        and (attr is None or node.attr == attr)
    )


def call_name(call: ast.Call) -> tp.Optional[str]:
    """Last component of the callee (`f`, `x.f`)."""
    if not isinstance(call, ast.Call):
        return None
    f = call.func
    if isinstance(f, ast.Name):
        return f.id
    if isinstance(f, ast.Attribute):
        return f.attr
    return None


def dotted(node) -> tp.Optional[str]:
    parts = []
    cur = node
    while isinstance(cur, ast.Attribute):
        parts.append(cur.attr)
        cur = cur.value
    if isinstance(cur, ast.Name):
        parts.append(cur.id)
        return '.'.join(reversed(parts))
    return None


def body_without_doc(fn) -> list[ast.stmt]:
    body = list(fn.body)
    if body and isinstance(body[0], ast.Expr) and isinstance(body[0].value, ast.Constant) and isinstance(body[0].value.value, str):
        body = body[1:]
    return body


def walk_no_nested(node, include_lambdas=True):
    """ast.walk that does not descend into nested function/class definitions."""
    stack = [node]
    first = True
    while stack:
        cur = stack.pop()
        if not first and isinstance(cur, (ast.FunctionDef, ast.AsyncFunctionDef, ast.ClassDef)):
            continue
        if not first and not include_lambdas and isinstance(cur, ast.Lambda):
            continue
        first = False
        yield cur
        stack.extend(reversed(list(ast.iter_child_nodes(cur))))


def terminates(block: list[ast.stmt]) -> bool:
    """True iff the block always leaves the enclosing suite (raise/return/continue/break)."""
    if not block:
        return False
    last = block[-1]
    if isinstance(last, (ast.Raise, ast.Return, ast.Continue, ast.Break)):
        return True
    if isinstance(last, ast.If) and last.orelse:
        return terminates(last.body) and terminates(last.orelse)
    return False


def always_raises(block: list[ast.stmt]) -> bool:
    if not block:
        return False
    last = block[-1]
    if isinstance(last, ast.Raise):
        return True
    if isinstance(last, ast.If) and last.orelse:
        return always_raises(last.body) and always_raises(last.orelse)
    return False


# ---------------------------------------------------------------------------
# tiny local dataflow helpers (single-function, syntax-directed)


def assignments_in(fn, name, nested=False):
    """All value nodes assigned to local `name` in `fn` (Assign/AnnAssign/For/AugAssign/with/walrus).

    Returns list of (kind, value_node, stmt) where kind in {'assign','aug','for','unpack'}.
    """
    out = []
    it = ast.walk(fn) if nested else walk_no_nested(fn)
    for node in it:
        if isinstance(node, ast.Assign):
            for t in node.targets:
                if is_name(t, name):
                    out.append(('assign', node.value, node))
                elif isinstance(t, (ast.Tuple, ast.List)):
                    for i, el in enumerate(t.elts):
                        if is_name(el, name):
                            if isinstance(node.value, (ast.Tuple, ast.List)) and len(node.value.elts) == len(t.elts):
                                out.append(('assign', node.value.elts[i], node))
                            else:
                                out.append(('unpack', node.value, node))
        elif isinstance(node, ast.AnnAssign):
            if is_name(node.target, name) and node.value is not None:
                out.append(('assign', node.value, node))
        elif isinstance(node, ast.AugAssign):
            if is_name(node.target, name):
                out.append(('aug', node.value, node))
        elif isinstance(node, (ast.For, ast.comprehension)):
            for t in ast.walk(node.target):
                if is_name(t, name):
                    out.append(('for', node.iter, node))
        elif isinstance(node, ast.NamedExpr):
            if is_name(node.target, name):
                out.append(('assign', node.value, node))
    return out


def single_def(fn, name):
    """The unique plain assignment `name = <expr>` in fn, or None."""
    a = assignments_in(fn, name)
    if len(a) == 1 and a[0][0] == 'assign':
        return a[0][1]
    return None


def deref(fn, expr, depth=4):
    """Follow single-assignment locals: Name -> its defining expression."""
    cur = expr
    for _ in range(depth):
        if isinstance(cur, ast.Name):
            d = single_def(fn, cur.id)
            if d is None:
                return cur
            cur = d
        else:
            return cur
    return cur


def param_names(fn):
    a = fn.args
    names = [p.arg for p in a.posonlyargs + a.args]
    if a.vararg:
        names.append(a.vararg.arg)
    names += [p.arg for p in a.kwonlyargs]
    if a.kwarg:
        names.append(a.kwarg.arg)
    return names


def calls_in(node, name=None, nested=True):
    it = ast.walk(node) if nested else walk_no_nested(node)
    for n in it:
        if isinstance(n, ast.Call) and (name is None or call_name(n) == name):
            yield n


def stmt_index_path(fn, node, parents):
    """Position of `node`'s statement as a tuple path of indexes (document order key)."""
    return (getattr(node, 'lineno', 0), getattr(node, 'col_offset', 0))
