"""CLI: python -m cirbo_verif check <ID> [--tier quick|thorough] | explain <path> | list"""

from __future__ import annotations

import argparse
import importlib
import json
import os
import sys
import time
import traceback

from . import __version__
from .core import AnalysisError, Checker, Repo
from . import report


def run_check(prop: str, tier: str, repo_root=None, write=True):
    """Returns (exit_code, checker|None, error_text|None)."""
    t0 = time.time()
    seed = int(os.environ.get('VERIF_SEED', '0') or 0)
    try:
        repo = Repo(repo_root) if repo_root else Repo()
        ck = Checker(repo, prop, tier)
        try:
            mod = importlib.import_module(f'cirbo_verif.rules.{prop}')
        except ModuleNotFoundError:
            raise AnalysisError(f'no rules implemented for {prop}')
        try:
            mod.run(ck)
        except AnalysisError as e:
            # verdicts of completed rule instances stand; the rest is undecided
            if not any(o.status == 'violation' for o in ck.obligations):
                raise
            print(f'ANALYSIS-ERROR (after violations were found) property={prop}: {e}')
        if not ck.obligations:
            raise AnalysisError(f'{prop}: no obligations generated')
        und = [o for o in ck.obligations if o.status == 'undecided']
        if und:
            txt = '; '.join(f'{o.rule} at {o.loc}: {o.msg}'[:300] for o in und[:4])
            if not any(o.status == 'violation' for o in ck.obligations):
                raise AnalysisError(f'{len(und)} rule instance(s) do not recognise the code they are about (neither discharged nor violated): {txt}')
            print(f'ANALYSIS-ERROR (after violations were found) property={prop}: {len(und)} rule instance(s) undecided: {txt}')
        extra = None
        if tier == 'thorough' and write:
            from . import selftest

            extra = selftest.run_for(prop, seed)
        if write:
            code = report.finish(ck, t0, seed, extra)
        else:
            code = 1 if any(o.status == 'violation' for o in ck.obligations) else 0
        return code, ck, None
    except AnalysisError as e:
        return 2, None, f'ANALYSIS-ERROR property={prop}: {e}'
    except Exception:
        return 2, None, f'ANALYSIS-ERROR property={prop}: analyser exception\n' + traceback.format_exc()


def main(argv=None):
    ap = argparse.ArgumentParser(prog='cirbo_verif')
    ap.add_argument('--version', action='store_true')
    sub = ap.add_subparsers(dest='cmd')
    c = sub.add_parser('check')
    c.add_argument('prop')
    c.add_argument('--tier', default=os.environ.get('VERIF_TIER', 'quick'), choices=['quick', 'thorough'])
    e = sub.add_parser('explain')
    e.add_argument('path')
    sub.add_parser('list')
    args = ap.parse_args(argv)
    if args.version or args.cmd is None:
        print(f'cirbo_verif {__version__}')
        return 0
    if args.cmd == 'explain':
        d = json.load(open(args.path))
        print(f"property {d['property']} rule {d['rule']}")
        print(f"  {d['file']}:{d['line']} in {d['function']}")
        print(f"  construct: {d['construct']}")
        print(f"  {d['what']}: {d.get('message', '')}")
        if 'detail' in d:
            print('  detail:', json.dumps(d['detail'], indent=1))
        return 0
    if args.cmd == 'list':
        import pkgutil
        from . import rules

        for m in pkgutil.iter_modules(rules.__path__):
            print(m.name)
        return 0
    code, ck, err = run_check(args.prop, args.tier)
    if err:
        print(err)
    return code


if __name__ == '__main__':
    sys.stdout.flush()
    rc = main()
    sys.stdout.flush()
    sys.exit(rc)
