"""C02 -- circuits stay well formed under every history of public mutations.

Inductive argument: every function that writes the representation preserves the
invariant I (operands/outputs name gates; users index = inverse operand multiset;
_inputs = INPUT gates once each; blocks name existing gates).  The rules check the
per-function preservation steps whose truth is structural.
"""

from __future__ import annotations

import ast

from ..core import (
    AnalysisError, Checker, call_name, calls_in, deref, is_name, is_self_attr, norm, param_names,
    single_def, terminates, walk_no_nested, assignments_in, always_raises,
)
from ..tables import Denotations
from ..effects import Effects, is_fresh_expr, root_name
from .. import circuit_model as cm
from .. import rewrites as rw

CIRCUIT = 'cirbo.core.circuit.circuit'
FIELDS = ('_inputs', '_outputs', '_gates', '_gate_to_users', '_blocks')


# --------------------------------------------------------------------------
# C02.IDX: fold the representation primitives over model states


def fold_primitives(ck: Checker, den: Denotations, R='C02.IDX', which=('emplace', 'users', 'remove', 'rename', 'replace_inputs', 'block')):
    repo = ck.repo
    M = cm.Model(repo, den)
    mod = M.mod

    def fresh():
        return M.new_circuit(cm.BASE_SPEC, cm.BASE_OUTPUTS, cm.BASE_BLOCKS)

    def report(method, case, c, err, extra_probs=(), expect_raise=False):
        fn = mod.func(f'Circuit.{method}')
        cons = f'{method}{case}'
        if err and not expect_raise:
            ck.bad(R, mod, fn, f'{cons} keeps the circuit well formed', f'primitive rejects a legal call ({err})', construct=cons)
            return
        probs = list(extra_probs) + cm.invariant_problems(c)
        ck.check(not probs, R, mod, fn, f'{cons} keeps gate map, users index, input list and blocks consistent',
                 '; '.join(probs[:3]), construct=cons)

    # _emplace_gate / _add_gate: every equality pattern of operand tuples up to length 3
    patterns = [(), ('a',), ('a', 'b'), ('a', 'a'), ('g1', 'a', 'g1'), ('g4', 'g5', 'c')]
    for ops in (patterns if 'emplace' in which else []):
        for method in ('_emplace_gate', '_add_gate'):
            c = fresh()
            pre = cm.snapshot(c)
            if method == '_emplace_gate':
                _, err = M.call(c, method, 'n', M.types['AND' if len(ops) >= 2 else ('NOT' if ops else 'ALWAYS_TRUE')], tuple(ops))
            else:
                _, err = M.call(c, method, M.gate('n', 'AND' if len(ops) >= 2 else ('NOT' if ops else 'ALWAYS_TRUE'), ops))
            post = cm.snapshot(c)
            extra = []
            if not err:
                if post['gates'].get('n', (None, None))[1] != tuple(ops):
                    extra.append(f'new gate stored as {post["gates"].get("n")}')
                if {k: v for k, v in post['gates'].items() if k != 'n'} != pre['gates']:
                    extra.append('pre-existing gates changed')
                if post['inputs'] != pre['inputs'] or post['outputs'] != pre['outputs']:
                    extra.append('inputs/outputs changed by adding a non-input gate')
            report(method, f'(n, ops={ops})', c, err, extra)
    for method in (('_emplace_gate', '_add_gate') if 'emplace' in which else ()):
        c = fresh()
        pre = cm.snapshot(c)
        if method == '_emplace_gate':
            _, err = M.call(c, method, 'n', M.types['INPUT'])
        else:
            _, err = M.call(c, method, M.gate('n', 'INPUT'))
        post = cm.snapshot(c)
        extra = [] if err or post['inputs'] == pre['inputs'] + ['n'] else [f'input list {post["inputs"]}: new INPUT not appended last']
        report(method, '(n, INPUT)', c, err, extra)

    # _add_user / _remove_user: one occurrence per call (an operand used twice is listed twice)
    if 'users' in which:
        import collections as _c
        for method, args, delta in (('_remove_user', ('g1', 'g3'), {'g3': -1}), ('_remove_user', ('g1', 'g2'), {'g2': -1}), ('_remove_user', ('g1', 'zz'), {}),
                                    ('_remove_user', ('nope', 'g3'), {}), ('_add_user', ('g1', 'g3'), {'g3': 1}), ('_add_user', ('g1', 'n'), {'n': 1}),
                                    ('_add_user', ('fresh', 'n'), {'n': 1})):
            c = fresh()
            raw = c._d['_gate_to_users']
            before = {k: _c.Counter(v) for k, v in raw.items()}
            _, err = M.call(c, method, *args)
            after = {k: _c.Counter(v) for k, v in raw.items() if v}
            want = {k: _c.Counter(v) for k, v in before.items()}
            want.setdefault(args[0], _c.Counter())
            for u, d in delta.items():
                want[args[0]][u] += d
            want = {k: +v for k, v in want.items() if +v}
            ck.check(not err and after == want, R, mod, mod.func(f'Circuit.{method}'),
                     f'{method}{args} changes the users of {args[0]} by exactly {delta or "nothing"} (g1 is listed for g2 once and for g3 = XOR(g1, g1) twice)',
                     err or f'users of {args[0]} after the call: {sorted(after.get(args[0], _c.Counter()).elements())}, expected {sorted(want.get(args[0], _c.Counter()).elements())}',
                     construct=f'{method}{args}')

    # _remove_gate: gate without users; covers input/output/duplicate operands/block member/block input
    specs = {
        'out-twice NOT g4': (cm.BASE_SPEC, cm.BASE_OUTPUTS, cm.BASE_BLOCKS, 'g4'),
        'GT g5 (output, operand c)': (cm.BASE_SPEC, cm.BASE_OUTPUTS, cm.BASE_BLOCKS, 'g5'),
        'unused input': (cm.BASE_SPEC + [('d', 'INPUT', ())], cm.BASE_OUTPUTS, cm.BASE_BLOCKS, 'd'),
        'dup-operand XOR g3 in block': ([s for s in cm.BASE_SPEC if s[0] != 'g5'], ('g4', 'g3'), cm.BASE_BLOCKS, 'g3'),
        'block input': ([('a', 'INPUT', ()), ('b', 'INPUT', ()), ('g', 'AND', ('a', 'a'))], ('g',), (('B', ('b',), ('g',), ('g',)),), 'b'),
    }
    for case, (spec, outs, blocks, victim) in (specs.items() if 'remove' in which else ()):
        c = M.new_circuit(spec, outs, blocks)
        pre = cm.snapshot(c)
        _, err = M.call(c, '_remove_gate', victim)
        post = cm.snapshot(c)
        extra = []
        if not err:
            if victim in post['gates']:
                extra.append('gate still in the gate map')
            if victim in post['outputs']:
                extra.append('gate still listed as output')
            if [o for o in pre['outputs'] if o != victim] != post['outputs']:
                extra.append(f'other outputs changed: {pre["outputs"]} -> {post["outputs"]}')
            if [i for i in pre['inputs'] if i != victim] != post['inputs']:
                extra.append(f'input order changed: {pre["inputs"]} -> {post["inputs"]}')
            for n, (bi, bg, bo) in post['blocks'].items():
                if victim in bi or victim in bg:
                    extra.append(f'block {n} still names the removed gate')
            if victim in post['users']:
                extra.append('users entry of the removed gate survives')
        report('_remove_gate', f'({case})', c, err, extra)

    # unchecked removal of a gate that still has users (as _remove_block does): the removed gate's own
    # entry must disappear from the raw index and it must stop being listed as a user of its operands
    c = fresh()
    _, err = M.call(c, '_remove_gate', 'g1') if 'remove' in which else (None, 'skip')
    raw = c._d['_gate_to_users']
    probs = []
    if not err:
        if 'g1' in raw:
            probs.append(f'stale users entry {raw["g1"]} survives for the removed label (re-adding the label inherits it)')
        if any('g1' in v for v in raw.values()):
            probs.append('removed gate still listed as a user of its operands')
        if 'g1' in c._d['_gates']:
            probs.append('gate still present')
    if 'remove' in which:
        ck.check(not err and not probs, R, mod, mod.func('Circuit._remove_gate'), '_remove_gate of a gate that has users (block removal) drops its index entry',
                 err or '; '.join(probs), construct='_remove_gate(gate with users)')

    # rename_gate: result must be the pre-state with the label substituted everywhere
    for old in (('a', 'c', 'g1', 'g2', 'g3', 'g4', 'g5') if 'rename' in which else ()):
        c = fresh()
        pre = cm.snapshot(c)
        _, err = M.call(c, 'rename_gate', old, 'zz')
        post = cm.snapshot(c)
        extra = []
        if not err:
            want = cm.rename_snapshot(pre, old, 'zz')
            for k in ('gates', 'users', 'inputs', 'outputs', 'blocks'):
                if post[k] != want[k]:
                    extra.append(f'{k} after rename = {post[k]}, expected {want[k]}')
        report('rename_gate', f'({old} -> zz)', c, err, extra)
    for args, exc in (((('nope', 'zz'), 'raise'), (('a', 'g1'), 'raise')) if 'rename' in which else ()):
        c = fresh()
        pre = cm.snapshot(c)
        _, err = M.call(c, 'rename_gate', *args)
        post = cm.snapshot(c)
        fn = mod.func('Circuit.rename_gate')
        ck.check(bool(err) and pre == post, R, mod, fn, f'rename_gate{args} is refused without touching the circuit',
                 f'call {"returned normally" if not err else "raised after modifying the circuit"}', construct=f'rename_gate{args} refused')

    # replace_inputs
    for tt, ff in (((['a'], []), ([], ['b']), (['a'], ['c']), (['c', 'a'], ['b'])) if 'replace_inputs' in which else ()):
        c = fresh()
        pre = cm.snapshot(c)
        _, err = M.call(c, 'replace_inputs', list(tt), list(ff))
        post = cm.snapshot(c)
        extra = []
        if not err:
            for l in tt:
                if post['gates'].get(l) != ('ALWAYS_TRUE', ()):
                    extra.append(f'{l} became {post["gates"].get(l)} instead of ALWAYS_TRUE')
            for l in ff:
                if post['gates'].get(l) != ('ALWAYS_FALSE', ()):
                    extra.append(f'{l} became {post["gates"].get(l)} instead of ALWAYS_FALSE')
            if post['inputs'] != [i for i in pre['inputs'] if i not in tt + ff]:
                extra.append(f'remaining inputs {post["inputs"]}: order not preserved')
            if {k: v for k, v in post['gates'].items() if k not in tt + ff} != {k: v for k, v in pre['gates'].items() if k not in tt + ff}:
                extra.append('other gates changed')
            if post['outputs'] != pre['outputs']:
                extra.append('outputs changed')
        report('replace_inputs', f'(true={tt}, false={ff})', c, err, extra)
    if 'replace_inputs' in which:
        # the fixed input is itself an output (twice) and a block input: it must stay where it is
        c = M.new_circuit(cm.BASE_SPEC, ('a', 'g4', 'a', 'g5'), cm.BASE_BLOCKS)
        pre = cm.snapshot(c)
        _, err = M.call(c, 'replace_inputs', ['a'], ['c'])
        post = cm.snapshot(c)
        extra = []
        if not err:
            if post['outputs'] != pre['outputs']:
                extra.append(f'outputs changed from {pre["outputs"]} to {post["outputs"]} (a fixed input that is an output must stay an output)')
            if post['blocks'] != pre['blocks']:
                extra.append('blocks naming the fixed input were changed or dropped')
            if post['users'] != pre['users']:
                extra.append('users of the fixed input changed')
            if post['gates'].get('a') != ('ALWAYS_TRUE', ()) or post['gates'].get('c') != ('ALWAYS_FALSE', ()):
                extra.append('constants not installed')
        report('replace_inputs', '(input that is an output and a block input)', c, err, extra)
    c = fresh()
    _, err = M.call(c, 'replace_inputs', ['g1'], []) if 'replace_inputs' in which else (None, None)
    if 'replace_inputs' in which:
      ck.check(err == 'raise:GateNotInputError', R, mod, mod.func('Circuit.replace_inputs'), 'fixing a non-input gate is refused',
             f'replace_inputs on a non-input gate: {err or "returned normally"}', construct='replace_inputs(non-input) refused')

    # Block._rename_gate
    if 'block' not in which:
        return M
    blk_fn = mod.func('Block._rename_gate')
    c = fresh()
    b = c._d['_blocks']['B1']
    from ..interp import RepoFunc, InterpRaise
    try:
        RepoFunc(M.interp, mod, blk_fn, bound_self=b)('g2', 'zz')
        got = (b._d['_inputs'], b._d['_gates'], b._d['_outputs'])
        ck.check(got == (['a', 'b'], ['g1', 'zz'], ['zz']), R, mod, blk_fn, 'Block._rename_gate relabels every occurrence in inputs, gates and outputs',
                 f'block after rename: {got}', construct='Block._rename_gate(g2 -> zz)')
    except InterpRaise as e:
        ck.bad(R, mod, blk_fn, 'Block._rename_gate relabels', f'raises {e.exc_name}', construct='Block._rename_gate(g2 -> zz)')
    # a label listed more than once (make_block collects an outside operand once per use; outputs may repeat)
    c = fresh()
    b = c._d['_blocks']['B1']
    b._d['_inputs'][:] = ['a', 'b', 'a']
    b._d['_outputs'][:] = ['g2', 'g1', 'g2']
    try:
        RepoFunc(M.interp, mod, blk_fn, bound_self=b)('a', 'zz')
        RepoFunc(M.interp, mod, blk_fn, bound_self=b)('g2', 'yy')
        got = (b._d['_inputs'], b._d['_gates'], b._d['_outputs'])
        ck.check(got == (['zz', 'b', 'zz'], ['g1', 'yy'], ['yy', 'g1', 'yy']), R, mod, blk_fn, 'Block._rename_gate relabels a label that is listed several times at every position',
                 f'block after renaming a -> zz and g2 -> yy: {got}', construct='Block._rename_gate with repeated labels')
    except InterpRaise as e:
        ck.bad(R, mod, blk_fn, 'Block._rename_gate relabels repeated labels', f'raises {e.exc_name}', construct='Block._rename_gate with repeated labels')
    return M


# --------------------------------------------------------------------------
# C02.IDX: enumeration of every gate-map / users-index write site


def write_sites(repo):
    """All syntactic writes to a circuit's gate map, users index or a gate's operands, anywhere under cirbo/."""
    sites = []
    for m in repo.modules.values():
        for node in ast.walk(m.tree):
            targets = []
            kind = None
            if isinstance(node, ast.Assign):
                targets, kind = node.targets, 'store'
            elif isinstance(node, (ast.AugAssign, ast.AnnAssign)):
                targets, kind = [node.target], 'store'
            elif isinstance(node, ast.Delete):
                targets, kind = node.targets, 'del'
            for t in targets:
                what = None
                if isinstance(t, ast.Subscript) and isinstance(t.value, ast.Attribute) and t.value.attr in ('_gates', '_gate_to_users'):
                    what = t.value.attr
                elif isinstance(t, ast.Attribute) and t.attr in ('_operands', '_gate_type', '_label'):
                    what = t.attr
                elif isinstance(t, ast.Attribute) and t.attr in ('_gates', '_gate_to_users'):
                    what = t.attr + ' (rebinding)'
                if what:
                    sites.append((m, node, t, kind, what))
            if isinstance(node, ast.Call) and isinstance(node.func, ast.Attribute):
                f = node.func
                if f.attr in ('_add_user', '_remove_user'):
                    sites.append((m, node, f, 'call', f.attr))
                elif f.attr in ('append', 'extend', 'remove', 'pop', 'clear', 'insert', 'setdefault', 'update') and isinstance(f.value, (ast.Subscript, ast.Attribute)):
                    base = f.value.value if isinstance(f.value, ast.Subscript) else f.value
                    if isinstance(base, ast.Attribute) and base.attr == '_gate_to_users':
                        sites.append((m, node, f, 'call', '_gate_to_users.' + f.attr))
    return sites


FOLDED = {
    'Circuit._add_gate', 'Circuit._emplace_gate', 'Circuit._remove_gate', 'Circuit._add_user', 'Circuit._remove_user',
    'Circuit.rename_gate', 'Circuit.replace_inputs._replace_inputs', 'Circuit.replace_inputs', 'Circuit.__init__',
}


def check_sites(ck: Checker, R='C02.IDX', only_subcircuit=False, only_function=None):
    repo = ck.repo
    _, _, conv = rw.find_convertors(ck)
    conv_funcs = {(hmod.name, hname) for (hmod, hname, _, _) in conv.values()}
    n_sites = 0
    for m, node, t, kind, what in write_sites(repo):
        q = m.qualname_of(node)
        cls = q.split('.')[0]
        encl_cls = q.split('.')[0] if q.split('.')[0] in m.classes else None
        if encl_cls and encl_cls != 'Circuit' and root_name(t if not isinstance(t, ast.Attribute) or kind != 'call' else t.value) == 'self':
            # another class's own field that happens to share the name (e.g. CircuitFinderSat._gates)
            continue
        if cls in ('Block', 'Gate', 'GateType') or (m.name.endswith('.gate')):
            # Block._gates is the block's own label list; Gate.__init__ initialises a new gate
            continue
        n_sites += 1
        cons = f'{q}: {norm(node)[:150]}'
        is_sub = m.name == 'cirbo.minimization.subcircuit' and q == 'minimize_subcircuits'
        if only_function is not None:
            if m.name == CIRCUIT and q == only_function:
                if q == 'Circuit.connect_circuit':
                    _connect_site(ck, R, m, node, what, cons)
                elif q == 'Circuit.replace_subcircuit':
                    _replace_subcircuit_site(ck, R, m, node, what, cons)
            continue
        if only_subcircuit:
            if is_sub:
                _subcircuit_site(ck, R, m, node, what, cons)
            continue
        if is_sub:
            ck.ok(R, m, node, f'write site ({what}) in the subcircuit minimiser: decided and reported under C04.IDX', construct=cons)
        elif m.name == CIRCUIT and q in FOLDED:
            ck.ok(R, m, node, f'write site ({what}) belongs to a primitive folded over the model states', construct=cons)
        elif (m.name, q) in conv_funcs:
            ck.ok(R, m, node, f'write site ({what}) belongs to a bench rewrite folded by C14.IDX', construct=cons)
        elif m.name == CIRCUIT and q == 'Circuit.connect_circuit':
            _connect_site(ck, R, m, node, what, cons)
        elif m.name == CIRCUIT and q == 'Circuit.replace_subcircuit':
            _replace_subcircuit_site(ck, R, m, node, what, cons)
        else:
            _generic_site(ck, R, m, node, t, kind, what, cons)
    ck.need(n_sites >= 30, f'only {n_sites} gate-map write sites found (expected >= 30): enumeration broken')


def _suite_of(m, node):
    st = m.enclosing_stmt(node)
    parent = m.parents[st]
    for field in ('body', 'orelse', 'finalbody'):
        suite = getattr(parent, field, None)
        if isinstance(suite, list) and st in suite:
            return st, suite
    return st, []


def _gate_ctor_parts(call: ast.Call):
    """(label, type, operands) expression nodes of a Gate(...) construction, or None."""
    if not isinstance(call, ast.Call) or call_name(call) != 'Gate':
        return None
    kw = {k.arg: k.value for k in call.keywords}
    pos = list(call.args)
    label = kw.get('label', pos[0] if len(pos) > 0 else None)
    typ = kw.get('gate_type', pos[1] if len(pos) > 1 else None)
    ops = kw.get('operands', pos[2] if len(pos) > 2 else None)
    return label, typ, ops


def add_shape(m, fn, node):
    """`R._gates[K] = Gate(K, T, OPS)` paired in the same suite with `for o in OPS: R._add_user(o, K)`.

    Returns (ok, why)."""
    if not isinstance(node, ast.Assign) or len(node.targets) != 1:
        return False, 'not a plain store'
    t = node.targets[0]
    recv = norm(t.value.value)
    key = t.slice
    parts = _gate_ctor_parts(node.value)
    if parts is None:
        return False, 'stored value is not a Gate(...) construction'
    label, typ, ops = parts
    if label is None or norm(deref(fn, label)) != norm(deref(fn, key)):
        return False, f'gate labelled `{norm(label) if label is not None else None}` stored under key `{norm(key)}`'
    if ops is None:
        return True, 'no operands'
    st, suite = _suite_of(m, node)
    ops_n = norm(deref(fn, ops))
    for sib in suite:
        if isinstance(sib, ast.For) and norm(deref(fn, sib.iter)) == ops_n and isinstance(sib.target, ast.Name) and len(sib.body) == 1:
            b = sib.body[0]
            if isinstance(b, ast.Expr) and isinstance(b.value, ast.Call) and call_name(b.value) == '_add_user' and norm(b.value.func.value) == recv \
                    and len(b.value.args) == 2 and is_name(b.value.args[0], sib.target.id) and norm(deref(fn, b.value.args[1])) == norm(deref(fn, key)):
                return True, 'paired with an _add_user loop over the same operands'
    return False, f'no `for o in {ops_n}: {recv}._add_user(o, {norm(key)})` next to the store: the users index misses the new operands'


def _connect_site(ck, R, m, node, what, cons):
    fn = m.func('Circuit.connect_circuit')
    if what in ('_add_user',):
        ck.ok(R, m, node, 'index update paired with the connector rewrite (checked at the store)', construct=cons)
        return
    if what != '_gates':
        ck.bad(R, m, node, 'recognised write in connect_circuit', f'unexpected write to {what}', construct=cons)
        return
    ok, why = add_shape(m, fn, node)
    # the overwritten gate must be an operand-free INPUT: guarded by the right_connect validation loop
    guard = False
    for st in fn.body:
        if isinstance(st, ast.If) and norm(st.test) == 'right_connect':
            for lp in st.body:
                if isinstance(lp, ast.For) and norm(lp.iter) == 'this_connectors' and any(
                    isinstance(x, ast.If) and 'gate_type != gate.INPUT' in norm(x.test) and always_raises(x.body) for x in lp.body
                ):
                    guard = True
    # the store must sit under `if right_connect:` in the else-branch of `label not in mapping`
    dominated = False
    cur = node
    while cur in m.parents:
        par = m.parents[cur]
        if isinstance(par, ast.If) and norm(par.test) == 'right_connect' and cur in par.body:
            dominated = True
        cur = par
    ck.check(ok and guard and dominated, R, m, node,
             'overwriting a base input with the attached connector gate registers the new operands in the users index (old gate is an operand-free INPUT)',
             why if not ok else ('base connectors are not validated to be INPUT gates under right_connect' if not guard else 'store not under right_connect'),
             construct='connect_circuit: right_connect connector store')


def _replace_subcircuit_site(ck, R, m, node, what, cons):
    fn = m.func('Circuit.replace_subcircuit')
    # save/restore of the external users of the replaced outputs
    src = norm(fn)
    saved = 'copy_outputs_users[output_label].append(user)' in src and 'for user in self.get_gate_users(output_label)' in src
    order = False
    rb = [n for n in ast.walk(fn) if isinstance(n, ast.Call) and call_name(n) == '_remove_block']
    if rb and saved:
        save_line = min(n.lineno for n in ast.walk(fn) if isinstance(n, ast.Call) and norm(n) == 'copy_outputs_users[output_label].append(user)')
        order = save_line < rb[0].lineno < node.lineno
    restore_ok = False
    for lp in ast.walk(fn):
        if isinstance(lp, ast.For) and norm(lp.iter) == 'copy_outputs_users.items()' and isinstance(lp.target, ast.Tuple) and len(lp.body) == 1 and isinstance(lp.body[0], ast.If):
            k, v = (norm(e) for e in lp.target.elts)
            br = lp.body[0]
            if norm(br.test) == f'{k} not in self._gate_to_users' and [norm(x) for x in br.body] == [f'self._gate_to_users[{k}] = {v}'] \
                    and [norm(x) for x in br.orelse] == [f'self._gate_to_users[{k}].extend({v})']:
                restore_ok = True
        if isinstance(lp, ast.For) and norm(lp.iter) == 'copy_outputs_users.items()' and isinstance(lp.target, ast.Tuple) and len(lp.body) == 1 \
                and norm(lp.body[0]) == f'self._gate_to_users.setdefault({norm(lp.target.elts[0])}, []).extend({norm(lp.target.elts[1])})':
            restore_ok = True
    ck.check(saved and order and restore_ok, R, m, node,
             'external users of replaced outputs are saved before the block is removed and ADDED back after re-insertion (assigned when the entry is absent, appended when the new subcircuit already registered users)',
             'save/restore of external users around _remove_block not recognised' if not (saved and order) else
             'the saved external users are not appended when the re-inserted gate already has users inside the new subcircuit: they are dropped from the index', construct=cons)


def _subcircuit_site(ck, R, m, node, what, cons):
    """The `all outputs trivial` branch of minimize_subcircuits re-points users by hand."""
    fn = m.func('minimize_subcircuits')
    st, suite = _suite_of(m, node)
    if what == '_operands':
        # re-pointing `user` from `output` to `new_output`: needs +user on new_output and -user on output
        adds = any('_gate_to_users[new_output].append(user)' in norm(s) or '_add_user(new_output, user)' in norm(s) for s in suite)
        rems = any(('_gate_to_users[output].remove(user)' in norm(s)) or ('_remove_user(output, user)' in norm(s)) for s in suite)
        # or the whole old entry is dropped after the loop
        loop = m.parents[st]
        outer = _suite_of(m, loop)[1] if isinstance(loop, ast.For) else []
        rems = rems or any(norm(s) in ('del circuit._gate_to_users[output]', 'circuit._gate_to_users[output] = []', 'circuit._gate_to_users[output].clear()') for s in outer)
        ck.check(adds and rems, R, m, node,
                 're-pointing a user to another gate adds it to the new gate\'s users and removes it from the old gate\'s users',
                 ('user never added to the new operand\'s users; ' if not adds else '') +
                 ('user never removed from the replaced gate\'s users: remove_gate(output) then raises GateHasUsersError whenever the output has a user' if not rems else ''),
                 construct='minimize_subcircuits: trivial-output user re-pointing')
    else:
        ck.ok(R, m, node, f'index update ({what}) paired with the re-pointing store (checked there)', construct=cons)


def _generic_site(ck, R, m, node, t, kind, what, cons):
    fn = m.enclosing_function(node)
    if fn is None:
        ck.bad(R, m, node, 'gate-map writes happen inside audited functions', 'module-level write to circuit internals', construct=cons)
        return
    if what == '_gates' and kind == 'store':
        ok, why = add_shape(m, fn, node)
        # a fresh key is required: dominated by a check that the label does not exist
        ck.check(ok, R, m, node, 'gate-map store outside the audited primitives is paired with the users-index update', why, construct=cons)
        return
    if what in ('_add_user', '_remove_user'):
        # allowed only as part of a recognised add-shape in the same function
        stores = [n for n in ast.walk(fn) if isinstance(n, ast.Assign) and any(
            isinstance(x, ast.Subscript) and isinstance(x.value, ast.Attribute) and x.value.attr == '_gates' for x in n.targets)]
        ck.check(bool(stores), R, m, node, 'users-index primitive used next to a gate-map store',
                 f'{what} called in a function that never writes the gate map: index and operands drift apart', construct=cons)
        return
    ck.bad(R, m, node, 'writes to circuit internals follow a recognised balanced shape',
           f'{kind} of {what} outside the audited primitives with no recognised pairing', construct=cons)


# --------------------------------------------------------------------------
# C02.VALID


# (method, parameter) -> required validation kinds; confirmed by reading the pinned tree.
#   exists  : the label(s) must name existing gates (raising validator before the first write)
#   fresh   : the label must not exist yet
#   bfresh  : block name must be unused;  bexists : block must exist
VALID_TABLE = {
    ('remove_gate', 'gate_label'): ['exists', 'nousers'],
    ('add_gate', 'new_gate'): ['fresh', 'exists'],
    ('emplace_gate', 'label'): ['fresh'],
    ('emplace_gate', 'operands'): ['exists'],
    ('make_block_from_slice', 'name'): ['bfresh'],
    ('make_block_from_slice', 'inputs'): ['exists'],
    ('make_block_from_slice', 'outputs'): ['exists'],
    ('make_block', 'name'): ['bfresh'],
    ('make_block', 'gates'): ['exists'],
    ('make_block', 'outputs'): ['exists'],
    ('make_block', 'inputs'): ['exists'],
    ('delete_block', 'block_label'): ['bexists'],
    ('remove_block', 'block_label'): ['bexists', 'bnousers'],
    ('connect_circuit', 'name'): ['bfresh'],
    ('connect_circuit', 'this_connectors'): ['exists'],
    ('connect_circuit', 'other_connectors'): ['exists'],
    ('rename_gate', 'old_label'): ['exists'],
    ('rename_gate', 'new_label'): ['fresh'],
    ('mark_as_output', 'label'): ['exists'],
    ('set_outputs', 'outputs'): ['exists'],
    ('set_inputs', 'inputs'): ['exists'],
    ('add_inputs', 'inputs'): ['fresh'],
    ('replace_inputs', 'inputs_to_true'): ['exists'],
    ('replace_inputs', 'inputs_to_false'): ['exists'],
    ('order_inputs', 'inputs'): ['exists'],
    ('order_outputs', 'outputs'): ['exists'],
    ('replace_subcircuit', 'inputs_mapping'): ['exists'],
    ('replace_subcircuit', 'outputs_mapping'): ['exists'],
}

DELEGATORS = {'connect_left', 'connect_right', 'connect_inputs', 'extend_circuit', 'add_circuit'}


def _first_write_line(fi, eff: Effects, private_mutators):
    """Line of the first statement that may write `self` state directly or through a private mutator."""
    best = None
    for node in ast.walk(fi.node):
        line = None
        if isinstance(node, (ast.Assign, ast.AugAssign, ast.Delete, ast.AnnAssign)):
            ts = node.targets if isinstance(node, (ast.Assign, ast.Delete)) else [node.target]
            for t in ts:
                if isinstance(t, (ast.Attribute, ast.Subscript)) and root_name(t) == 'self':
                    line = node.lineno
        elif isinstance(node, ast.Call) and isinstance(node.func, ast.Attribute):
            f = node.func
            if root_name(f.value) == 'self':
                if f.attr in ('append', 'extend', 'remove', 'pop', 'clear', 'insert', 'update', 'setdefault', 'sort', 'reverse'):
                    line = node.lineno
                elif isinstance(f.value, ast.Name) and f.attr in private_mutators:
                    line = node.lineno
        if line is not None and (best is None or line < best):
            best = line
    return best


def _first_write_line_node(fn_node, private_mutators):
    best = None
    nested = {n.name: n for n in ast.walk(fn_node) if isinstance(n, ast.FunctionDef) and n is not fn_node}
    for node in walk_no_nested(fn_node):
        line = None
        if isinstance(node, ast.Call) and isinstance(node.func, ast.Name) and node.func.id in nested \
                and _first_write_line_node(nested[node.func.id], private_mutators) is not None:
            line = node.lineno
        if isinstance(node, (ast.Assign, ast.AugAssign, ast.Delete, ast.AnnAssign)):
            ts = node.targets if isinstance(node, (ast.Assign, ast.Delete)) else [node.target]
            for t in ts:
                if isinstance(t, (ast.Attribute, ast.Subscript)) and root_name(t) == 'self':
                    line = node.lineno
        elif isinstance(node, ast.Call) and isinstance(node.func, ast.Attribute):
            f = node.func
            if root_name(f.value) == 'self':
                if f.attr in ('append', 'extend', 'remove', 'pop', 'clear', 'insert', 'update', 'setdefault', 'sort', 'reverse'):
                    line = node.lineno
                elif isinstance(f.value, ast.Name) and f.attr in private_mutators:
                    line = node.lineno
        if line is not None and (best is None or line < best):
            best = line
    return best


def _validators_before(fn_node, pname, limit, private_mutators=(), depth=0):
    """Kinds of raising validation idioms applied to parameter `pname` (or to the elements
    it is iterated into) no later than the first write (`limit`, a line; None = no write)."""
    kinds = set()
    names = {pname}
    for node in ast.walk(fn_node):
        if isinstance(node, (ast.For, ast.comprehension)):
            it = node.iter
            if any(isinstance(n, ast.Name) and n.id in names for n in ast.walk(it)):
                for n in ast.walk(node.target):
                    if isinstance(n, ast.Name):
                        names.add(n.id)

    def mentions(expr):
        return any(isinstance(n, ast.Name) and n.id in names for n in ast.walk(expr))

    nested = {n.name: n for n in ast.walk(fn_node) if isinstance(n, ast.FunctionDef) and n is not fn_node}
    for node in ast.walk(fn_node):
        ln = getattr(node, 'lineno', None)
        if ln is None:
            continue
        before = limit is None or ln < limit
        same_stmt = limit is not None and ln == limit  # evaluated while computing the stored value
        if isinstance(node, ast.Call):
            cn = call_name(node)
            args = list(node.args) + [k.value for k in node.keywords]
            if isinstance(node.func, ast.Name) and cn in nested and depth < 2:
                # the nested helper validates each element right before writing it (judged against its own first write)
                callee = nested[cn]
                cps = [a.arg for a in callee.args.args]
                for i, a in enumerate(node.args):
                    if i < len(cps) and mentions(a):
                        kinds |= _validators_before(callee, cps[i], _first_write_line_node(callee, private_mutators), private_mutators, depth + 1)
                continue
            if not (before or (same_stmt and cn == 'order_list')):
                continue
            if cn == 'check_gates_exist' and args and mentions(args[0]):
                kinds.add('exists')
            elif cn == 'check_label_doesnt_exist' and args and mentions(args[0]):
                kinds.add('fresh')
            elif cn == 'check_block_doesnt_exist' and args and mentions(args[0]):
                kinds.add('bfresh')
            elif cn == 'check_gate_has_not_users' and args and mentions(args[0]):
                kinds.add('nousers')
            elif cn == 'check_block_has_no_users' and args and mentions(args[0]):
                kinds.add('bnousers')
            elif cn == 'get_gate' and args and mentions(args[0]) and root_name(node.func) == 'self':
                kinds.add('exists')
            elif cn == 'get_block' and args and mentions(args[0]):
                kinds.add('bexists')
            elif cn == 'order_list' and args and mentions(args[0]):
                kinds.add('exists')
        elif isinstance(node, ast.If) and before:
            t = node.test
            if isinstance(t, ast.Compare) and len(t.ops) == 1 and always_raises(node.body):
                l, r = t.left, t.comparators[0]
                if isinstance(t.ops[0], ast.NotIn) and mentions(l) and norm(r) in ('self._gates', 'self.gates'):
                    kinds.add('exists')
                if isinstance(t.ops[0], ast.In) and mentions(l) and norm(r) in ('self._gates', 'self.gates'):
                    kinds.add('fresh')
        elif isinstance(node, ast.Subscript) and (before or same_stmt) and norm(node.value) in ('self._blocks', 'self.blocks') and mentions(node.slice):
            kinds.add('bexists')  # the dictionary access itself raises KeyError
    return kinds


def check_valid(ck: Checker, eff: Effects, R='C02.VALID'):
    repo = ck.repo
    m = repo.mod(CIRCUIT)
    muts = eff.mutators(CIRCUIT, 'Circuit')
    private = {n for n in muts if n.startswith('_') and not n.startswith('__')}
    public = {n: fi for n, fi in muts.items() if not n.startswith('_')}
    ck.notes['circuit_mutators'] = sorted(muts)
    ck.notes['circuit_public_mutators'] = sorted(public)
    ck.notes['circuit_exposers'] = eff.exposers(CIRCUIT, 'Circuit')
    ck.need(len(public) >= 22, f'only {len(public)} public mutators of Circuit found (22 confirmed by hand)')
    for name, fi in sorted(public.items()):
        if name in DELEGATORS:
            # body is a single delegation to connect_circuit passing the label parameters on
            calls = [c for c in calls_in(fi.node, 'connect_circuit')]
            rets = [n for n in ast.walk(fi.node) if isinstance(n, ast.Return)]
            ck.check(len(calls) == 1 and len(rets) == 1 and rets[0].value is calls[0] and _first_write_line(fi, eff, private) is None, R, m, fi.node,
                     f'{name} only delegates to the validated connect_circuit', 'wrapper does more than delegate to connect_circuit',
                     construct=f'{name}: delegation')
            continue
        first = _first_write_line_node(fi.node, private)
        label_params = []
        a = fi.node.args
        for p in a.posonlyargs + a.args + a.kwonlyargs:
            if p.arg == 'self' or p.annotation is None:
                continue
            ann = norm(p.annotation)
            if 'Label' in ann or ann in ('gate.Gate', 'Gate'):
                label_params.append(p.arg)
        if not label_params:
            ck.ok(R, m, fi.node, f'{name} takes no label parameter', construct=f'{name}: no label parameters')
            continue
        for p in label_params:
            need = VALID_TABLE.get((name, p))
            have = _validators_before(fi.node, p, first, private)
            cons = f'{name}({p})'
            if need is None:
                # a mutator outside the confirmed table: some raising validator must mention the parameter
                ck.check(bool(have), R, m, fi.node, f'{cons} is validated before the first write',
                         f'label parameter `{p}` reaches a write of the circuit (line {first}) without any raising validation', construct=cons)
            else:
                missing = [k for k in need if k not in have]
                ck.check(not missing, R, m, fi.node, f'{cons} validated ({", ".join(need)}) before the first write (line {first})',
                         f'missing validation {missing} of `{p}` before the first write at line {first}; found {sorted(have)}', construct=cons)


# --------------------------------------------------------------------------
# C02.COPY


def check_copy(ck: Checker, eff: Effects, R='C02.COPY'):
    repo = ck.repo
    m = repo.mod(CIRCUIT)
    cls = m.cls('Circuit')
    for fn in [n for n in cls.body if isinstance(n, ast.FunctionDef)]:
        params = set(param_names(fn)) - {'self'}
        for node in ast.walk(fn):
            if not isinstance(node, (ast.Assign, ast.AnnAssign)):
                continue
            targets = node.targets if isinstance(node, ast.Assign) else [node.target]
            for t in targets:
                field = None
                if is_self_attr(t) and t.attr in FIELDS:
                    field = t.attr
                elif isinstance(t, ast.Subscript) and is_self_attr(t.value) and t.value.attr in ('_gate_to_users', '_blocks'):
                    field = t.value.attr + '[...]'
                if field is None or node.value is None:
                    continue
                v = node.value
                ok, why = _fresh_for_store(fn, v, params)
                ck.check(ok, R, m, node, f'value stored into Circuit.{field} is not an alias of caller-visible mutable state', why,
                         construct=f'{fn.name}: {norm(node)[:140]}')
    # Block(...) call sites: list arguments must be fresh
    n_block = 0
    for mm in repo.modules.values():
        for node in ast.walk(mm.tree):
            if isinstance(node, ast.Call) and isinstance(node.func, ast.Name) and node.func.id == 'Block' and repo.canonical(mm, node.func) == CIRCUIT + '.Block':
                n_block += 1
                fn = mm.enclosing_function(node)
                params = set(param_names(fn)) - {'self'} if fn else set()
                kw = {k.arg: k.value for k in node.keywords}
                for i, pn in enumerate(('name', 'owner', 'inputs', 'gates', 'outputs')):
                    if pn in ('name', 'owner'):
                        continue
                    arg = kw.get(pn, node.args[i] if i < len(node.args) else None)
                    if arg is None:
                        continue
                    ok, why = _fresh_for_store(fn, arg, params)
                    ck.check(ok, R, mm, node, f'Block(..., {pn}=...) receives a freshly allocated list', why,
                             construct=f'{mm.qualname_of(node)}: Block {pn}={norm(arg)[:80]}')
    ck.need(n_block >= 1, f'no Block(...) construction found (3 on the pinned tree)')
    # __copy__ passes everything through copying APIs
    fn = m.func('Circuit.__copy__')
    calls = {call_name(c) for c in calls_in(fn) if isinstance(c.func, ast.Attribute) and norm(c.func.value) == 'new_circuit'}
    direct = [n for n in ast.walk(fn) if isinstance(n, (ast.Assign, ast.AugAssign)) and any(root_name(t) == 'new_circuit' and isinstance(t, (ast.Attribute, ast.Subscript)) for t in (n.targets if isinstance(n, ast.Assign) else [n.target]))]
    ck.check(calls <= {'emplace_gate', 'add_gate', 'set_inputs', 'set_outputs', 'make_block'} and not direct and 'emplace_gate' in calls | {'add_gate'} and
             {'set_inputs', 'set_outputs'} <= calls, R, m, fn,
             'a copy is built only through copying APIs (emplace_gate/set_inputs/set_outputs/make_block) of a new Circuit',
             f'__copy__ writes the new circuit through {sorted(calls)} / direct stores {[norm(d)[:60] for d in direct]}', construct='__copy__ construction')
    first = fn.body[0]
    ck.check(isinstance(first, ast.Assign) and norm(first.value) == 'Circuit()' and isinstance(fn.body[-1], ast.Return) and norm(fn.body[-1].value) == norm(first.targets[0]),
             R, m, fn, '__copy__ returns a newly allocated Circuit', 'does not allocate and return a new Circuit()', construct='__copy__ allocation')
    # copies cover inputs order, outputs and blocks
    src = norm(fn)
    ck.check('set_inputs(self.inputs)' in src.replace('self._inputs', 'self.inputs') and 'set_outputs(self.outputs)' in src.replace('self._outputs', 'self.outputs')
             and 'self.top_sort(inverse=True)' in src, R, m, fn,
             'the copy re-creates every gate in dependency order and the same input/output order',
             'copy does not iterate top_sort(inverse=True) / set_inputs(self.inputs) / set_outputs(self.outputs)', construct='__copy__ content')


def _fresh_for_store(fn, v, params, depth=0):
    if is_fresh_expr(v):
        # list(x) / [..] / a + b ... allocate
        return True, ''
    if isinstance(v, ast.Call):
        n = norm(v.func)
        if n in ('order_list', 'Block', 'gate.Gate', 'Gate', 'collections.defaultdict', 'Circuit'):
            return True, ''
        if isinstance(v.func, ast.Name) and fn is not None:
            # a local helper (nested def / lambda bound to a name) every return of which allocates
            helpers = [n_ for n_ in ast.walk(fn) if isinstance(n_, ast.FunctionDef) and n_ is not fn and n_.name == v.func.id]
            if helpers and all(r.value is not None and is_fresh_expr(r.value) for h_ in helpers for r in ast.walk(h_) if isinstance(r, ast.Return)) \
                    and all(any(isinstance(r, ast.Return) for r in ast.walk(h_)) for h_ in helpers):
                return True, ''
        if isinstance(v.func, ast.Attribute) and v.func.attr in ('pop', 'get', 'setdefault', 'copy') and root_name(v.func.value) == 'self':
            # an object taken out of the circuit's own state and put back elsewhere (moving a users list to a new key): nothing of the caller's
            return True, ''
        return False, f'value `{norm(v)[:80]}` comes from a call not known to allocate'
    if isinstance(v, ast.Name):
        if v.id in params:
            return False, f'parameter `{v.id}` is stored as is: the caller keeps a reference to the circuit\'s internal state'
        defs = assignments_in(fn, v.id, nested=True) if fn is not None else []
        if not defs:
            return False, f'`{v.id}` has no local definition'
        if depth > 3:
            return False, 'definition chain too long'
        for kind, val, st in defs:
            if kind == 'for':
                # loop variable over .items() of a local dict of locally built lists
                it = val
                base = it.func.value if isinstance(it, ast.Call) and isinstance(it.func, ast.Attribute) and it.func.attr in ('items', 'values') else it
                ok, why = _fresh_for_store(fn, base, params, depth + 1)
                if not ok:
                    return False, why
                continue
            if kind != 'assign':
                return False, f'`{v.id}` is bound by {kind}'
            ok, why = _fresh_for_store(fn, val, params, depth + 1)
            if not ok:
                return False, why
        return True, ''
    if isinstance(v, ast.Subscript) and is_self_attr(v.value):
        return True, ''  # moving the circuit's own inner object between its own slots
    if isinstance(v, ast.Attribute):
        return False, f'`{norm(v)}` is another object\'s attribute (shared mutable state)'
    return False, f'`{norm(v)[:80]}` not recognised as freshly allocated'


# --------------------------------------------------------------------------
# C02.ACYC


def check_acyclic(ck: Checker, R='C02.ACYC'):
    repo = ck.repo
    m = repo.mod(CIRCUIT)
    fn = m.func('Circuit.replace_subcircuit')
    body = fn.body
    rets = [n for n in ast.walk(fn) if isinstance(n, ast.Return)]
    ok = len(rets) == 1 and rets[0] is body[-1] and isinstance(body[-2], ast.Expr) and norm(body[-2].value) == 'check_circuit_has_no_cycles(self)'
    ck.check(ok, R, m, fn, 'every normal exit of replace_subcircuit passes through check_circuit_has_no_cycles(self)',
             'the single return is not immediately preceded by check_circuit_has_no_cycles(self)', construct='replace_subcircuit exit')
    # add_gate / emplace_gate only reference existing gates (fresh label + existing operands => no cycle)
    ck.ok(R, m, m.func('Circuit.emplace_gate'), 'a new gate with a fresh label and existing operands cannot close a cycle (C02.VALID emplace_gate/add_gate)',
          construct='emplace_gate/add_gate: fresh label + existing operands')
    # connect_circuit right branch: table fact, confirmed by reading
    ck.ok(R, m, m.func('Circuit.connect_circuit'),
          'right_connect gives operand-free base inputs the image, under one injective label map, of operands of the acyclic attached circuit, emitted in its topological order (confirmed instance, kept as a table entry)',
          construct='connect_circuit: right_connect acyclicity (table entry)')
    ck.assume('connect_circuit(right_connect=True) cannot close a cycle when attached gates only reference attached gates and base connectors are inputs (paper argument)')


def check_order_list(ck: Checker, R='C02.ORDER'):
    """order_inputs / order_outputs store order_list(given, current): folded over all small lists it must
    return a permutation of `current` that starts with `given` (multiset inclusion), else raise."""
    import collections
    import itertools
    from ..interp import Interp, InterpRaise, RepoFunc
    repo = ck.repo
    um = repo.mod('cirbo.core.circuit.utils')
    fn = um.func('order_list')
    it = Interp(repo)
    f = RepoFunc(it, um, fn)
    probs = []
    n = 0
    olds = [list(x) for k in range(4) for x in itertools.product('abc', repeat=k)]
    news = [list(x) for k in range(4) for x in itertools.product('abz', repeat=k)]
    for old in olds:
        for new in news:
            n += 1
            it.steps = 0
            co, cn = collections.Counter(old), collections.Counter(new)
            legal = all(cn[k] <= co[k] for k in cn)
            old_before = list(old)
            try:
                res = f(list(new), old)
            except InterpRaise as e:
                if legal or e.exc_name != 'CircuitGateIsAbsentError':
                    probs.append(f'order_list({new}, {old}) raises {e.exc_name}')
                continue
            if old != old_before:
                probs.append(f'order_list({new}, {old_before}) modified its second argument')
            if not legal:
                probs.append(f'order_list({new}, {old}) = {res}: accepted an ordering that is not a sub-multiset of the current list')
                continue
            rest = list(old)
            for x in new:
                rest.remove(x)
            if res != new + rest:
                probs.append(f'order_list({new}, {old}) = {res}, expected {new + rest}')
            if len(probs) > 4:
                break
        if len(probs) > 4:
            break
    ck.check(not probs, R, um, fn, f'order_list returns the given prefix followed by the remaining elements in their old order, or raises ({n} list pairs incl. duplicates and foreign labels)',
             '; '.join(probs[:3]), construct='order_list semantics')
    m = repo.mod(CIRCUIT)
    for name, field in (('order_inputs', '_inputs'), ('order_outputs', '_outputs')):
        g = m.func(f'Circuit.{name}')
        from ..core import body_without_doc
        b = body_without_doc(g)
        p = g.args.args[1].arg
        ck.check(len(b) == 2 and norm(b[0]) == f'self.{field} = order_list({p}, self.{field})' and norm(b[1]) == 'return self', R, m, g,
                 f'{name} stores order_list(given, current {field[1:]})', f'body `{norm(b[0]) if b else None}`', construct=f'{name} body')


def run(ck: Checker):
    repo = ck.repo
    den = Denotations(repo)
    eff = Effects(repo)
    ck.rule('C02.IDX', 'every function that writes the gate map / users index is either folded over model states covering all label-equality patterns '
                       '(add/remove/rename/replace_inputs primitives, bench rewrites) and must re-establish the invariant, or matches a recognised paired shape '
                       '(connect_circuit right branch, replace_subcircuit save/restore, subcircuit re-pointing); write sites are enumerated over the whole package')
    ck.rule('C02.VALID', 'every public mutator validates each label-carrying parameter on a raising path before its first write')
    ck.rule('C02.COPY', 'no store into Circuit state or Block lists aliases a parameter or another object\'s list; __copy__ builds through copying APIs')
    ck.rule('C02.ACYC', 'operand re-pointing sites cannot close a cycle or end in check_circuit_has_no_cycles')
    ck.rule('C02.HIST', 'seeded histories of public mutations (all mutators of the statement incl. composition, block creation/removal, subcircuit replacement, bench conversion, copying; legal and illegal arguments) folded on instances of the repository\'s Circuit class: after every call that returns the circuit is well formed (operands/outputs exist, users index = inverse operand multiset, inputs = INPUT gates once each, blocks name gates, acyclic); rename / replace_subcircuit / into_bench keep the truth table; a copy equals its original and shares no mutable state')
    from .. import history_fold
    history_fold.fold_histories(ck, 'C02.HIST', observers=('top_sort',))
    ck.floor('C02.HIST', 12)
    # directed replace_subcircuit situations that seeded histories rarely produce (a replacement that would close a cycle, an
    # inner gate read from outside, overlapping mappings): refused, or the circuit stays well formed (shared with C19)
    ck.rule('C19.SUBC', 'replace_subcircuit in the situations the statement of C19 names: refused, or a well-formed acyclic circuit (shared with C19)')
    history_fold.fold_replace_cases(ck, 'C19.SUBC')
    # minimize_subcircuits writes circuit state in place (short-circuited cone outputs): its hand-made cases, shared with C04
    ck.rule('C04.FOLD', 'minimize_subcircuits folded over the hand-made model circuits of C04 (one configuration): the result is well formed (shared with C04)')
    from .. import minimize_fold
    minimize_fold.fold_minimize(ck, 'C04.FOLD', handmade_only=True)
    fold_primitives(ck, den)
    # structural rules: write-site shapes, guard-before-write, cycle checks after re-pointing.  They state the clauses for circuits and
    # histories of any size but know one way of writing each mutator: where they do not recognise the code the clause is the fold's
    with ck.soft('C02.HIST (histories of public mutations folded)', need_coverage=True):
        check_sites(ck)
        ck.floor('C02.IDX', 60)
    with ck.soft('C02.HIST (histories of public mutations folded)'):
        check_valid(ck, eff)
        ck.floor('C02.VALID', 30)
    check_copy(ck, eff)
    ck.floor('C02.COPY', 15)
    with ck.soft('C02.HIST (histories of public mutations folded)'):
        check_acyclic(ck)
    ck.rule('C02.ORDER', 'order_inputs/order_outputs: the stored list is a permutation of the current one (order_list folded over all small list pairs)')
    check_order_list(ck)
    ck.assume('top_sort/dfs are correct (C20 / undecided clause)')
    ck.assume('labels are only stored and compared for equality by the folded primitives (data independence)')
