"""C08 -- multiplier and squarer generators (registry, add-only, arguments, endianness; the
arithmetic core -- that the bits decode to a*b -- is NOT decided)."""

from __future__ import annotations

import ast

from ..core import AnalysisError, Checker, norm, param_names
from ..effects import Effects
from ..interp import Interp, RepoEnum
from ..tables import Denotations
from .. import gadgets as G
from .. import genrules as R

MUL = R.ARITH + '.multiplication'
SQ = R.ARITH + '.square'

ENDIAN_EXEMPT = {}


def registry(ck: Checker, modname, dict_name, enum_name, rule='C08.REG'):
    repo = ck.repo
    m = repo.mod(modname)
    it = Interp(repo)
    enum = it.global_value(m, enum_name)
    ck.need(isinstance(enum, RepoEnum), f'{m.rel}: {enum_name} is not an Enum')
    d = m.assign(dict_name)
    ck.need(isinstance(d, ast.Dict), f'{m.rel}: {dict_name} is not a dict literal')
    keys = {}
    for k, v in zip(d.keys, d.values):
        kn = norm(k)
        ck.need(kn.startswith(enum_name + '.'), f'{m.rel}: key `{kn}` of {dict_name} is not a {enum_name} member')
        res = repo.resolve_expr(m, v)
        ck.need(res and res[2] == 'function', f'{m.rel}: value `{norm(v)}` of {dict_name} does not resolve to a function')
        keys[kn.split('.', 1)[1]] = (res[0], res[1], v)
    missing = [x for x in enum.members if x not in keys]
    ck.check(not missing, rule, m, d, f'every {enum_name} member has a registered generator', f'modes without a generator (KeyError at generation time): {missing}', construct=f'{dict_name} keys')
    sigs = set()
    for mode, (fm, fname, v) in keys.items():
        fn = fm.func(fname)
        pos = [p.arg for p in fn.args.args]
        kwo = {p.arg: (norm(dflt) if dflt is not None else None) for p, dflt in zip(fn.args.kwonlyargs, fn.args.kw_defaults)}
        ok = pos and pos[0] == 'circuit' and kwo.get('big_endian') == 'False' and not fn.args.vararg
        sigs.add(len(pos))
        ck.check(ok, rule, fm, fn, f'{fname} (mode {mode}) has the registry signature (circuit, operands..., *, big_endian=False)',
                 f'signature ({", ".join(pos)}; kw-only {kwo})', construct=f'{dict_name}[{mode}] = {fname}')
    ck.check(len(sigs) == 1, rule, m, d, 'all registered generators take the same number of operands', f'positional arities {sorted(sigs)}', construct=f'{dict_name} uniform arity')
    # the generate_* entry point dispatches on the mode and forwards big_endian
    return keys


def run(ck: Checker):
    repo = ck.repo
    eff = Effects(repo)
    public = R.public_names(repo)
    ck.rule('C08.REG', 'every multiplication / squaring mode has a registered generator with the common signature; generate_* dispatches on the mode')
    ck.rule('C08.ADD-ONLY', 'multipliers and squarers touch the host circuit only through add-only operations')
    ck.rule('C08.ARGS', 'no operand label list is mutated in place')
    ck.rule('C08.ENDIAN', 'operands are reversed at entry and every returned product converted back under big_endian')
    ck.rule('C08.PLACEHOLDER', 'placeholder-filled tables are completely overwritten before use in the result (where the function is loop-bounded)')
    registry(ck, MUL, '_process_mul', 'MulMode')
    registry(ck, SQ, '_process_square', 'SquareMode')
    for modname, gen, dn in ((MUL, 'generate_mul', '_process_mul'), (SQ, 'generate_square', '_process_square')):
        m = repo.mod(modname)
        f = m.func(gen)
        src = norm(f)
        ck.check(f'{dn}[type](' in src and 'big_endian=big_endian' in src and 'circuit.set_outputs(outputs)' in src, 'C08.REG', m, f,
                 f'{gen} dispatches on the requested mode, forwards big_endian and outputs exactly the returned bits', 'shape changed', construct=f'{gen} dispatch')
    ck.floor('C08.REG', 14)
    R.check_add_only(ck, 'C08.ADD-ONLY', [MUL, SQ])
    R.check_fresh_generated(ck, 'C08.ADD-ONLY', [MUL, SQ])
    ck.floor('C08.ADD-ONLY', 14)
    R.check_args(ck, eff, 'C08.ARGS', [MUL, SQ])
    ck.floor('C08.ARGS', 30)
    R.check_endian(ck, 'C08.ENDIAN', [MUL, SQ], public, ENDIAN_EXEMPT)
    ck.floor('C08.ENDIAN', 11)
    n = R.check_placeholders(ck, 'C08.PLACEHOLDER', [MUL, SQ], size_range=(1, 2, 3), shift_range=(0, 1, 2))
    ck.need(n >= 2, f'only {n} placeholder-using multipliers could be analysed')
    ck.assume('NOT DECIDED: that the returned bits decode to a*b / a^2, the result widths and the Karatsuba thresholds (the core of the statement)')
    ck.assume('summation / subtraction gadgets reused by the multipliers are decided under C07.GADGET and C09.GADGET')
