"""C08 -- multiplier and squarer generators (registry, add-only, arguments, endianness; the
arithmetic core -- that the bits decode to a*b -- is NOT decided)."""

from __future__ import annotations

import ast

from ..core import AnalysisError, Checker, norm, param_names
from ..effects import Effects
from ..interp import Interp, RepoEnum
from ..tables import Denotations
from .. import gadgets as G
from .. import genrules as R

MUL = R.ARITH + '.multiplication'
SQ = R.ARITH + '.square'

ENDIAN_EXEMPT = {}


def registry(ck: Checker, modname, dict_name, enum_name, rule='C08.REG'):
    repo = ck.repo
    m = repo.mod(modname)
    it = Interp(repo)
    enum = it.global_value(m, enum_name)
    ck.need(isinstance(enum, RepoEnum), f'{m.rel}: {enum_name} is not an Enum')
    d = m.assign(dict_name)
    ck.need(isinstance(d, ast.Dict), f'{m.rel}: {dict_name} is not a dict literal')
    keys = {}
    for k, v in zip(d.keys, d.values):
        kn = norm(k)
        ck.need(kn.startswith(enum_name + '.'), f'{m.rel}: key `{kn}` of {dict_name} is not a {enum_name} member')
        res = repo.resolve_expr(m, v)
        ck.need(res and res[2] == 'function', f'{m.rel}: value `{norm(v)}` of {dict_name} does not resolve to a function')
        keys[kn.split('.', 1)[1]] = (res[0], res[1], v)
    missing = [x for x in enum.members if x not in keys]
    ck.check(not missing, rule, m, d, f'every {enum_name} member has a registered generator', f'modes without a generator (KeyError at generation time): {missing}', construct=f'{dict_name} keys')
    sigs = set()
    for mode, (fm, fname, v) in keys.items():
        fn = fm.func(fname)
        pos = [p.arg for p in fn.args.args]
        kwo = {p.arg: (norm(dflt) if dflt is not None else None) for p, dflt in zip(fn.args.kwonlyargs, fn.args.kw_defaults)}
        ok = pos and pos[0] == 'circuit' and kwo.get('big_endian') == 'False' and not fn.args.vararg
        sigs.add(len(pos))
        ck.check(ok, rule, fm, fn, f'{fname} (mode {mode}) has the registry signature (circuit, operands..., *, big_endian=False)',
                 f'signature ({", ".join(pos)}; kw-only {kwo})', construct=f'{dict_name}[{mode}] = {fname}')
    ck.check(len(sigs) == 1, rule, m, d, 'all registered generators take the same number of operands', f'positional arities {sorted(sigs)}', construct=f'{dict_name} uniform arity')
    # the generate_* entry point dispatches on the mode and forwards big_endian
    return keys


def run(ck: Checker):
    repo = ck.repo
    eff = Effects(repo)
    public = R.public_names(repo)
    ck.rule('C08.REG', 'every multiplication / squaring mode has a registered generator with the common signature; generate_* dispatches on the mode')
    ck.rule('C08.ADD-ONLY', 'multipliers and squarers touch the host circuit only through add-only operations')
    ck.rule('C08.ARGS', 'no operand label list is mutated in place')
    ck.rule('C08.ENDIAN', 'operands are reversed at entry and every returned product converted back under big_endian')
    ck.rule('C08.PLACEHOLDER', 'placeholder-filled tables are completely overwritten before use in the result (where the function is loop-bounded)')
    # shape rules about the same clauses: the registry as a dictionary literal of plain functions, the text of the dispatch, the
    # split-and-recombine pattern of the Karatsuba family (C08.NUM instantiates those at the widths that trigger the recursion)
    with ck.soft('C08.GEN (generate_* instantiated for every mode)'):
        registry(ck, MUL, '_process_mul', 'MulMode')
        registry(ck, SQ, '_process_square', 'SquareMode')
        for modname, gen, dn in ((MUL, 'generate_mul', '_process_mul'), (SQ, 'generate_square', '_process_square')):
            m = repo.mod(modname)
            f = m.func(gen)
            src = norm(f)
            ck.check(f'{dn}[type](' in src and 'big_endian=big_endian' in src and 'circuit.set_outputs(outputs)' in src, 'C08.REG', m, f,
                     f'{gen} dispatches on the requested mode, forwards big_endian and outputs exactly the returned bits', 'shape changed', construct=f'{gen} dispatch')
        ck.floor('C08.REG', 14)
    with ck.soft('C08.NUM (Karatsuba multipliers and the squarer instantiated at the widths that trigger the recursion)'):
        karatsuba_rule(ck)
    R.check_add_only(ck, 'C08.ADD-ONLY', [MUL, SQ])
    R.check_fresh_generated(ck, 'C08.ADD-ONLY', [MUL, SQ])
    ck.floor('C08.ADD-ONLY', 14)
    R.check_args(ck, eff, 'C08.ARGS', [MUL, SQ])
    R.check_multiset(ck, 'C08.ARGS', [MUL, SQ])
    ck.floor('C08.ARGS', 30)
    ck.rule('C08.ENDIAN-REL', 'endianness as a relation: for every public generator with a big_endian parameter the big-endian call on operands given most significant bit first returns the reversed result of the little-endian call (both instantiated on equal host circuits, every value of the operand bits)')
    from .. import num_folds as _nfe
    _compared = _nfe.fold_endian_rel(ck, 'C08.ENDIAN-REL', [MUL, SQ], public, ENDIAN_EXEMPT)
    ck.floor('C08.ENDIAN-REL', 3)
    # the shape rule (reverse at entry, convert every return) knows one way of writing it: soft where the relation was instantiated
    with ck.soft('C08.ENDIAN-REL (both endiannesses instantiated and compared)'):
        R.check_endian(ck, 'C08.ENDIAN', [MUL, SQ], public, ENDIAN_EXEMPT, names=_compared)
    R.check_endian(ck, 'C08.ENDIAN', [MUL, SQ], public, ENDIAN_EXEMPT, but=_compared)
    n = R.check_placeholders(ck, 'C08.PLACEHOLDER', [MUL, SQ], size_range=(1, 2, 3), shift_range=(0, 1, 2))
    ck.need(n >= 2, f'only {n} placeholder-using multipliers could be analysed')
    ck.rule('C07.GADGET', 'compressor gadgets reused by the multipliers satisfy their arithmetic specification (shared with C07)')
    ck.rule('C07.TRANSPOSE', 'the 2^k-1 block summation used by the POW2_M1 multiplier/squarers regroups block results without truncation (shared with C07)')
    from .C07 import gadget_rules, transpose_rule
    den = Denotations(repo)
    gadget_rules(ck, G.GadgetBench(repo, den))
    with ck.soft('C08.NUM (add_mul_pow2_m1 and add_square_pow2_m1 instantiated as they stand)'):
        transpose_rule(ck)
    ck.rule('C08.GEN', 'generate_mul / generate_square instantiated for every member of their mode enumerations, widths 1 and 3, both endiannesses: the generated circuit computes a * b / a^2 on every operand value (every mode has a generator, the entry point dispatches on it, forwards the endianness and outputs exactly the returned bits)')
    from .. import num_folds as _nf
    _nf.fold_generate(ck, 'C08.GEN')
    ck.floor('C08.GEN', 2)
    ck.rule('C08.FOLD', 'for-range templates instantiated for small widths, every operand value, both endiannesses, on a host circuit with gates of its own: add_mul_alter = a * b (n + m bits; n + m - 1 when a width is 1) over the folded two-number adders; add_sub_two_numbers (the subtraction of the Karatsuba recombination) = (a - b) mod 2^len(a); while-loop bit counters replaced by their contract')
    from .. import arith_folds
    bench = arith_folds.fold_mul(ck, 'C08.FOLD')
    arith_folds.fold_adders(ck, 'C08.FOLD', bench)
    arith_folds.fold_sub(ck, 'C08.FOLD', bench)
    ck.floor('C08.FOLD', 4)
    ck.rule('C08.NUM', 'every multiplier of the dispatch table (default, alter, Dadda, Wallace, 2^k-1, both Karatsuba variants) and both squarers instantiated as they stand -- work lists, reduction loops, recursion -- on a host circuit with gates of its own, both endiannesses: the returned bits decode to a * b / a^2, on every operand value for small widths and on a fixed sample of operand values at the widths where the algorithms change behaviour (Karatsuba 18/20/21, squarers 12/17/19; more in the thorough tier)')
    from .. import num_folds
    nb = num_folds.fold_multipliers(ck, 'C08.NUM')
    num_folds.fold_squarers(ck, 'C08.NUM', nb)
    ck.floor('C08.NUM', 9)
    ck.assume('NOT DECIDED: products and squares at widths other than the instantiated ones, and at the sampled widths for operand values outside the sample')
    ck.assume('summation / subtraction gadgets reused by the multipliers are decided under C07.GADGET and C09.GADGET')


def karatsuba_rule(ck: Checker, rule='C08.KARATSUBA'):
    """Split-and-recombine multipliers: x = hi * 2^mid + lo with hi = x[mid:], lo = x[:mid].  The recombination must add
    the middle term at shift mid and the hi*hi term at shift 2*mid (for the squarer: 2*hi*lo at mid + 1) -- a necessary
    condition of exactness whose truth is in the shape of the code."""
    from ..core import calls_in, call_name, single_def, deref
    repo = ck.repo
    ck.rule(rule, 'split-and-recombine multipliers/squarer: operands are split at `mid` into high = x[mid:] and low = x[:mid]; the low*low product enters at shift 0, the middle term at shift mid (mid + 1 for 2ab in the squarer) and the high*high product at shift 2*mid')
    n = 0
    for modname in (MUL, SQ):
        m = repo.mod(modname)
        for q, fn in m.functions.items():
            if '.' in q:
                continue
            shifts = [c for c in calls_in(fn, 'add_sum_two_numbers_with_shift')]
            slices = {norm(x) for x in __import__('ast').walk(fn) if isinstance(x, __import__('ast').Subscript) and isinstance(x.slice, __import__('ast').Slice)}
            if len(shifts) != 2 or not any(sl.endswith('[mid:]') for sl in slices):
                continue
            n += 1
            shifts.sort(key=lambda c: c.lineno)
            s1, s2 = shifts
            hi = {nm for nm in ('a', 'b', 'c', 'd') if (single_def(fn, nm) is not None and norm(single_def(fn, nm)).endswith('[mid:]'))}
            lo = {nm for nm in ('a', 'b', 'c', 'd') if (single_def(fn, nm) is not None and norm(single_def(fn, nm)).endswith('[:mid]'))}
            mid_def = single_def(fn, 'mid')
            probs = []
            if mid_def is None or norm(mid_def) != 'n // 2':
                probs.append(f'split point mid = `{norm(mid_def) if mid_def is not None else None}`')
            if modname == MUL:
                # res = shift(mid, lo*lo, middle); final = shift(2*mid, res, hi*hi)
                a1 = [norm(x) for x in s1.args[1:]]
                a2 = [norm(x) for x in s2.args[1:]]
                def prod_of(name):
                    d = single_def(fn, name)
                    if d is None:
                        return None
                    ops = set()
                    for c in calls_in(d):
                        ops |= {norm(x) for x in c.args[1:3]}
                    return ops
                lo_prod = a1[1] if len(a1) > 1 else None
                hi_prod = a2[2] if len(a2) > 2 else None
                if a1[0] != 'mid':
                    probs.append(f'middle term added at shift `{a1[0]}`, not mid')
                if a2[0] not in ('2 * mid', 'mid * 2', 'mid + mid'):
                    probs.append(f'high product added at shift `{a2[0]}`, not 2 * mid (equal only for even widths)')
                if lo_prod is None or not (prod_of(lo_prod) or set()) <= lo or not prod_of(lo_prod):
                    probs.append(f'the term at shift 0 (`{lo_prod}`) is not the product of the low halves {sorted(lo)}')
                if hi_prod is None or not (prod_of(hi_prod) or set()) <= hi or not prod_of(hi_prod):
                    probs.append(f'the term at shift 2*mid (`{hi_prod}`) is not the product of the high halves {sorted(hi)}')
                if len(a2) > 1 and a2[1] != norm(__import__('ast').Name('res')):
                    probs.append(f'second recombination does not start from the first (`{a2[1]}`)')
            else:
                a1 = [norm(x) for x in s1.args[1:]]
                a2 = [norm(x) for x in s2.args[1:]]
                # a = lo, b = hi in add_square: aa (lo^2) + ab * 2^(mid+1) + bb * 2^(2 mid)
                if a1[0] != 'mid + 1':
                    probs.append(f'cross term 2ab added at shift `{a1[0]}`, not mid + 1')
                if a2[0] not in ('2 * mid', 'mid * 2'):
                    probs.append(f'high square added at shift `{a2[0]}`, not 2 * mid')
            ck.check(not probs, rule, m, fn, f'{q}: recombination shifts match the split point', '; '.join(probs), construct=f'{q} recombination shifts')
    ck.need(n >= 5, f'only {n} split-and-recombine functions found (5 confirmed)')
