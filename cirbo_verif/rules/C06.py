"""C06 -- exact synthesis is sound and complete for the requested size and basis.

The SAT encoding is a family of clause templates, uniform in gate index and truth-table
position.  The templates are instantiated by the mini-evaluator on the smallest instances
that exhibit every template (<= 2 inputs, <= 2 gates) and compared with the specification
exhaustively over all structure assignments: for every choice of predecessor pairs, gate
truth tables and output gates, the clause set (after unit propagation of the forced gate
values) accepts it iff it is a circuit of the requested basis that agrees with the model on
every defined entry and obeys the imposed constraints.
"""

from __future__ import annotations

import ast
import itertools

from ..core import AnalysisError, Checker, call_name, calls_in, gate_const, norm
from ..interp import Host, Instance, Interp, InterpRaise, RepoClass, RepoEnum, RepoFunc
from ..rewrites import FakeCircuit, FakeGate
from ..tables import Denotations, GateTypeVal, gate_overrides
from .. import semantics
from .C17 import DC, DONT_CARE

SEARCH = 'cirbo.synthesis.circuit_search'
LOGIC = 'cirbo.core.logic'
GATE_MOD = 'cirbo.core.circuit.gate'


class HostCNF(Host):
    def __init__(self, *a, **k):
        self.clauses = []
        self.origin = []

    def append(self, clause):
        self.clauses.append(list(clause))

    def extend(self, clauses):
        for c in clauses:
            self.clauses.append(list(c))


class HostIDPool(Host):
    def __init__(self, *a, **k):
        self.ids = {}

    def id(self, name):
        if name not in self.ids:
            self.ids[name] = len(self.ids) + 1
        return self.ids[name]


class HostModel(Host):
    def __init__(self, table):
        self.table = [list(r) for r in table]
        n = len(table[0])
        self.input_size = n.bit_length() - 1
        self.output_size = len(table)

    def get_model_truth_table(self):
        return [list(r) for r in self.table]


class Finder:
    def __init__(self, repo, den):
        self.repo = repo
        ov = gate_overrides(den)
        self.types = {t.var: t for t in ov.values() if isinstance(t, GateTypeVal)}
        ov[f'{LOGIC}.DontCare'] = DONT_CARE
        ov['pysat.formula.CNF'] = HostCNF
        ov['pysat.formula.IDPool'] = HostIDPool
        ov[f'{GATE_MOD}.Gate'] = FakeGate
        self.made = []
        input_type = self.types['INPUT']

        def make_circuit():
            c = FakeCircuit(input_type)
            c.mark_as_output = lambda label: c._outputs.append(label) if label in c._gates else (_ for _ in ()).throw(InterpRaise('CircuitValidationError'))
            return c

        ov['cirbo.core.circuit.circuit.Circuit'] = make_circuit
        self.interp = Interp(repo, overrides=ov, max_steps=3_000_000)
        self.mod = repo.mod(SEARCH)
        self.cls = RepoClass(self.mod, self.mod.cls('CircuitFinderSat'))

    def new(self, table, n_gates, basis, need_normalized=False):
        self.interp.steps = 0
        return self.interp.instantiate(self.cls, (HostModel(table), n_gates), {'basis': basis, 'need_normalized': need_normalized})

    def call(self, inst, name, *a, **k):
        self.interp.steps = 0
        return self.interp.getattr(self.mod, None, inst, name)(*a, **k)


def propagate(clauses, assign):
    """Unit propagation. assign: dict var->bool (mutated). Returns False on conflict."""
    changed = True
    while changed:
        changed = False
        for cl in clauses:
            unassigned = None
            n_un = 0
            sat = False
            for l in cl:
                v = assign.get(abs(l))
                if v is None:
                    n_un += 1
                    unassigned = l
                elif v == (l > 0):
                    sat = True
                    break
            if sat:
                continue
            if n_un == 0:
                return False
            if n_un == 1:
                assign[abs(unassigned)] = unassigned > 0
                changed = True
    return True


def enumerate_structures(n, N, n_out):
    gates = list(range(n, n + N))
    pair_choices = [list(itertools.combinations(range(g), 2)) for g in gates]
    codes = [''.join(c) for c in itertools.product('01', repeat=4)]
    for preds in itertools.product(*pair_choices):
        for tts in itertools.product(codes, repeat=N):
            for outs in itertools.product(gates, repeat=n_out):
                yield dict(zip(gates, preds)), dict(zip(gates, tts)), list(outs)


def natural_values(n, N, preds, tts):
    T = 1 << n
    x = {}
    for i in range(n):
        x[i] = [bool((t >> (n - 1 - i)) & 1) for t in range(T)]
    for g in range(n, n + N):
        a, b = preds[g]
        x[g] = [tts[g][2 * int(x[a][t]) + int(x[b][t])] == '1' for t in range(T)]
    return x


def check_instance(ck, F, table, N, basis_name, basis_codes, R, label, normalized=False, constrain=None, extra_spec=None):
    """Instantiate the templates and compare with the specification on every structure assignment."""
    mod = F.mod
    fn = mod.func('CircuitFinderSat._init_default_cnf_formula')
    n_out = len(table)
    n = (len(table[0])).bit_length() - 1
    try:
        inst = F.new(table, N, basis_name, normalized)
        if constrain:
            constrain(inst)
        clauses = F.call(inst, 'get_cnf')
    except InterpRaise as e:
        ck.bad(R, mod, fn, f'{label}: the encoding is generated', f'raises {e.exc_name}', construct=label)
        return None
    ids = inst._d['_vpool'].ids
    clauses = [list(c) for c in clauses]
    gates = list(range(n, n + N))
    problems = []
    n_struct = 0
    for preds, tts, outs in enumerate_structures(n, N, n_out):
        n_struct += 1
        x = natural_values(n, N, preds, tts)
        in_basis = all(tts[g] in basis_codes for g in gates)
        norm_ok = (not normalized) or all(tts[g][0] == '0' for g in gates)
        fun_ok = all(isinstance(table[h][t], DC) or x[outs[h]][t] == bool(table[h][t]) for h in range(n_out) for t in range(1 << n))
        extra_ok = extra_spec(preds, tts, outs) if extra_spec else True
        want = in_basis and norm_ok and fun_ok and extra_ok
        assign = {}
        for name, vid in ids.items():
            parts = name.split('_')
            if parts[0] == 's':
                g, a, b = int(parts[1]), int(parts[2]), int(parts[3])
                assign[vid] = preds.get(g) == (a, b)
            elif parts[0] == 'g':
                h, g = int(parts[1]), int(parts[2])
                assign[vid] = outs[h] == g
            elif parts[0] == 'f':
                g, p, q = int(parts[1]), int(parts[2]), int(parts[3])
                assign[vid] = tts[g][2 * p + q] == '1'
        ok = propagate(clauses, assign)
        if ok:
            # forced gate values must be the natural ones; leftovers (don't-care columns) are free
            for name, vid in ids.items():
                if name.startswith('x_') and vid in assign:
                    _, g, t = name.split('_')
                    if assign[vid] != x[int(g)][int(t)]:
                        problems.append(f'structure {preds}/{tts}: clause set forces value of gate {g} at input {t} to {int(assign[vid])}, the circuit computes {int(x[int(g)][int(t)])}')
                        break
            full = dict(assign)
            for name, vid in ids.items():
                if vid not in full and name.startswith('x_'):
                    _, g, t = name.split('_')
                    full[vid] = x[int(g)][int(t)]
            ok = all(any(full.get(abs(l)) == (l > 0) for l in cl) for cl in clauses)
        if ok != want:
            problems.append(f'preds={preds} tables={tts} outputs={outs}: clause set {"accepts" if ok else "rejects"} it, specification {"accepts" if want else "rejects"} '
                            f'(basis {in_basis}, normalised {norm_ok}, function {fun_ok}, constraints {extra_ok})')
        if len(problems) >= 4:
            break
    # ill-formed structures: no / two predecessor pairs, no / two output gates
    s_ids = {g: [vid for name, vid in ids.items() if name.startswith(f's_{g}_')] for g in gates}
    g_ids = {h: [vid for name, vid in ids.items() if name.startswith(f'g_{h}_')] for h in range(n_out)}
    for group, what in ([(v, f'gate {g} predecessor pair') for g, v in s_ids.items()] + [(v, f'output {h} gate') for h, v in g_ids.items()]):
        for k in ([0, 2] if len(group) >= 2 else [0]):
            assign = {vid: False for vs in list(s_ids.values()) + list(g_ids.values()) for vid in vs}
            # a well-formed rest
            for g2, vs in s_ids.items():
                if vs is not group and vs:
                    assign[vs[0]] = True
            for h2, vs in g_ids.items():
                if vs is not group and vs:
                    assign[vs[0]] = True
            for vid in group[:k]:
                assign[vid] = True
            only = [cl for cl in clauses if all(abs(l) in assign for l in cl)]
            sat = all(any(assign[abs(l)] == (l > 0) for l in cl) for cl in only)
            if sat:
                problems.append(f'{what}: {k} choices true satisfies the structural clauses (exactly-one constraint missing)')
    if n_struct == 0:
        # no circuit of this shape exists at all: the clause set must be unsatisfiable
        assign = {}
        refuted = not propagate(clauses, assign)
        if not refuted:
            free = sorted({abs(l) for cl in clauses for l in cl} - set(assign))
            if len(free) <= 16:
                refuted = True
                for bits in itertools.product((False, True), repeat=len(free)):
                    full = dict(assign, **dict(zip(free, bits)))
                    if all(any(full.get(abs(l)) == (l > 0) for l in cl) for cl in clauses):
                        refuted = False
                        break
        if not refuted:
            problems.append(f'no circuit with {n} input(s) and {N} gate(s) exists (a gate needs two distinct predecessors, an output needs a gate), yet the clause set is satisfiable: the search would return a malformed answer instead of NoSolutionError')
    ck.check(not problems, R, mod, fn, f'{label}: clause templates accept exactly the circuits of the specification ({n_struct} structures, {len(clauses)} clauses)',
             '; '.join(problems[:3]), construct=label)
    return inst


def run(ck: Checker):
    repo = ck.repo
    den = Denotations(repo)
    F = Finder(repo, den)
    m = F.mod
    it = F.interp
    ck.rule('C06.SEM', 'Operation codes and _tt_to_gate_type agree with the oracle (C01.SEM-SIB); Basis.AIG <= XAIG <= FULL, FULL lists all 16 operations once, AIG has no xor; _str_to_basis keys are the Basis names; forbidden operations = FULL - basis')
    ck.rule('C06.ENC', 'clause templates of _init_default_cnf_formula instantiated on the smallest instances exhibiting every template and compared with the specification over all structure assignments (predecessor pairs x 16 tables per gate x output gates), including don\'t-cares, normalisation and basis restriction; exactly-one constraints')
    ck.rule('C06.FIX', 'fix_gate / forbid_wire constraints are enforced exactly (every combination of given parameters flows into clauses), illegal arguments are refused, and the database shortcut is disabled first')
    ck.rule('C06.DEC', 'the model decoder rebuilds the circuit whose structure the model encodes: operands (first, second), type from the (p,q) table in product order, outputs at the chosen gates')

    # ---- SEM ----
    from .C01 import sem_sib_codes
    sem_sib_codes(ck, den, rule='C06.SEM')
    opn = it.global_value(m, 'Operation')
    basis = it.global_value(m, 'Basis')
    ck.need(isinstance(basis, RepoEnum) and set(basis.members) >= {'AIG', 'XAIG', 'FULL'}, f'{m.rel}: Basis enum not understood')
    B = {k: [x.name for x in v.value] for k, v in basis.members.items()}
    bnode = m.cls('Basis')
    ck.check(set(B['AIG']) <= set(B['XAIG']) <= set(B['FULL']), 'C06.SEM', m, bnode, 'AIG <= XAIG <= FULL', f'{B}', construct='Basis inclusion')
    ck.check(sorted(B['FULL']) == sorted(opn.members) and len(set(B['FULL'])) == 16, 'C06.SEM', m, bnode, 'FULL lists every operation exactly once', f'FULL = {B["FULL"]}', construct='Basis.FULL complete')
    ck.check(not ({'xor_', 'nxor_'} & set(B['AIG'])) and all(len(set(v)) == len(v) for v in B.values()), 'C06.SEM', m, bnode, 'AIG contains neither xor nor nxor; no duplicates', f'AIG = {B["AIG"]}', construct='Basis.AIG without xor')
    # every AIG operation is and/or of possibly negated inputs (monotone in literals): not xor/nxor/constants/projections
    s2b = it.global_value(m, '_str_to_basis')
    ck.check(isinstance(s2b, dict) and {k: v.name for k, v in s2b.items()} == {k: k for k in basis.members}, 'C06.SEM', m, m.assign_nodes['_str_to_basis'], 'basis names resolve to the basis of that name',
             f'_str_to_basis = {s2b}', construct='_str_to_basis')
    rb = RepoFunc(it, m, m.func('resolve_basis'))
    probs = []
    for k in basis.members:
        for spelled in (k, k.lower(), k.capitalize()):
            try:
                if rb(spelled).name != k:
                    probs.append(f'{spelled!r} -> {rb(spelled).name}')
            except InterpRaise as e:
                probs.append(f'{spelled!r} raises {e.exc_name}')
        if rb(basis.members[k]).name != k:
            probs.append(f'Basis.{k} not passed through')
    ck.check(not probs, 'C06.SEM', m, m.func('resolve_basis'), 'a basis is found however its name is spelled (case-insensitively) and enum members pass through', '; '.join(probs), construct='resolve_basis')

    # ---- ENC ----
    code = {mname: mem.value for mname, mem in opn.members.items()}
    codes = {k: {code[o] for o in v} for k, v in B.items()}
    T, Fv, X = True, False, DONT_CARE
    insts = [
        # (table, N, basis)
        ([[Fv, Fv, Fv, T]], 1, 'XAIG'),
        ([[Fv, T, T, Fv]], 1, 'AIG'),
        ([[Fv, X, T, X]], 1, 'FULL'),
        ([[T, Fv]], 1, 'FULL') if False else ([[X, X, X, T]], 1, 'AIG'),
        ([[Fv, T, T, Fv]], 2, 'AIG'),
        ([[Fv, X, T, T], [X, X, Fv, T]], 1, 'FULL'),
        ([[Fv, X, T, Fv], [X, X, T, Fv]], 1, 'XAIG'),
    ]
    if ck.tier == 'thorough':
        insts += [([[Fv, T, T, T], [Fv, T, T, Fv]], 2, 'XAIG'), ([[T, X, Fv, T]], 2, 'FULL'), ([[Fv, Fv, T, Fv, T, T, T, Fv]], 1, 'FULL')]
    for table, N, bn in insts:
        lab = f'encoding n={len(table[0]).bit_length() - 1} gates={N} basis={bn} model={"/".join("".join("*" if isinstance(v, DC) else str(int(v)) for v in r) for r in table)}'
        check_instance(ck, F, table, N, bn, codes[bn], 'C06.ENC', lab)
    check_instance(ck, F, [[Fv, T, T, T]], 1, 'FULL', codes['FULL'], 'C06.ENC', 'encoding n=2 gates=1 basis=FULL normalised model=0111', normalized=True)
    check_instance(ck, F, [[T, T, T, Fv]], 1, 'FULL', codes['FULL'], 'C06.ENC', 'encoding n=2 gates=1 basis=FULL normalised model=1110', normalized=True)
    # custom basis given as a list of operations
    custom = [opn.members['and_'], opn.members['gt_']]
    check_instance(ck, F, [[Fv, Fv, T, Fv]], 1, custom, {code['and_'], code['gt_']}, 'C06.ENC', 'encoding n=2 gates=1 basis=[and_, gt_] model=0010')
    # degenerate sizes: no gate to take the output at / no pair of predecessors
    check_instance(ck, F, [[Fv, Fv, Fv, T]], 0, 'FULL', codes['FULL'], 'C06.ENC', 'encoding n=2 gates=0 basis=FULL model=0001 (unsatisfiable by shape)')
    check_instance(ck, F, [[Fv, T]], 1, 'FULL', codes['FULL'], 'C06.ENC', 'encoding n=1 gates=1 basis=FULL model=01 (unsatisfiable by shape)')
    ck.floor('C06.ENC', 12)

    # ---- FIX ----
    tbl = [[Fv, T, T, Fv]]
    AND = F.types['AND']
    GT = F.types['GT']
    fixes = [
        ('fix_gate(3, first=0, second=2, type=AND)', lambda i: F.call(i, 'fix_gate', 3, first_predecessor=0, second_predecessor=2, gate_type=AND),
         lambda p, t, o: p[3] == (0, 2) and t[3] == '0001'),
        ('fix_gate(3, first_predecessor=1)', lambda i: F.call(i, 'fix_gate', 3, first_predecessor=1), lambda p, t, o: 1 in p[3]),
        ('fix_gate(3, second_predecessor=1)', lambda i: F.call(i, 'fix_gate', 3, second_predecessor=1), lambda p, t, o: 1 in p[3]),
        ('fix_gate(3, second_predecessor=2)', lambda i: F.call(i, 'fix_gate', 3, second_predecessor=2), lambda p, t, o: 2 in p[3]),
        ('fix_gate(2, first=0, second=1)', lambda i: F.call(i, 'fix_gate', 2, first_predecessor=0, second_predecessor=1), lambda p, t, o: p[2] == (0, 1)),
        ('fix_gate(3, first=0, type=GT)', lambda i: F.call(i, 'fix_gate', 3, first_predecessor=0, gate_type=GT), lambda p, t, o: 0 in p[3] and t[3] == '0010'),
        ('forbid_wire(0, 3)', lambda i: F.call(i, 'forbid_wire', 0, 3), lambda p, t, o: 0 not in p[3]),
        ('forbid_wire(2, 3)', lambda i: F.call(i, 'forbid_wire', 2, 3), lambda p, t, o: 2 not in p[3]),
        ('forbid_wire(1, 2)', lambda i: F.call(i, 'forbid_wire', 1, 2), lambda p, t, o: 1 not in p[2]),
    ]
    for lab, con, spec in fixes:
        check_instance(ck, F, tbl, 2, 'FULL', codes['FULL'], 'C06.FIX', f'{lab} on n=2 gates=2', constrain=con, extra_spec=spec)
    # a fixed type does not lift the basis restriction or the normalisation requirement
    XOR, NAND = F.types['XOR'], F.types['NAND']
    check_instance(ck, F, tbl, 2, 'AIG', codes['AIG'], 'C06.FIX', 'fix_gate(3, first=0, type=XOR) in basis AIG on n=2 gates=2',
                   constrain=lambda i: F.call(i, 'fix_gate', 3, first_predecessor=0, gate_type=XOR), extra_spec=lambda p, t, o: 0 in p[3] and t[3] == '0110')
    check_instance(ck, F, tbl, 2, 'AIG', codes['AIG'], 'C06.FIX', 'fix_gate(2, first=0, type=AND) in basis AIG on n=2 gates=2',
                   constrain=lambda i: F.call(i, 'fix_gate', 2, first_predecessor=0, gate_type=AND), extra_spec=lambda p, t, o: 0 in p[2] and t[2] == '0001')
    check_instance(ck, F, [[T, T, T, Fv]], 1, 'FULL', codes['FULL'], 'C06.FIX', 'fix_gate(2, first=0, type=NAND) with need_normalized on n=2 gates=1', normalized=True,
                   constrain=lambda i: F.call(i, 'fix_gate', 2, first_predecessor=0, gate_type=NAND), extra_spec=lambda p, t, o: 0 in p[2] and t[2] == '1110')
    refusals = [
        ('fix_gate(9, first_predecessor=0)', lambda i: F.call(i, 'fix_gate', 9, first_predecessor=0), 'GateIsAbsentError'),
        ('fix_gate(1, first_predecessor=0)', lambda i: F.call(i, 'fix_gate', 1, first_predecessor=0), 'GateIsAbsentError'),
        ('fix_gate(3, first_predecessor=7)', lambda i: F.call(i, 'fix_gate', 3, first_predecessor=7), 'GateIsAbsentError'),
        ('fix_gate(3)', lambda i: F.call(i, 'fix_gate', 3), 'FixGateError'),
        ('fix_gate(3, first=2, second=1)', lambda i: F.call(i, 'fix_gate', 3, first_predecessor=2, second_predecessor=1), 'FixGateOrderError'),
        ('fix_gate(2, first_predecessor=3)', lambda i: F.call(i, 'fix_gate', 2, first_predecessor=3), 'FixGateOrderError'),
        ('fix_gate(2, second_predecessor=3)', lambda i: F.call(i, 'fix_gate', 2, second_predecessor=3), 'FixGateOrderError'),
        ('forbid_wire(3, 2)', lambda i: F.call(i, 'forbid_wire', 3, 2), 'ForbidWireOrderError'),
        ('forbid_wire(0, 1)', lambda i: F.call(i, 'forbid_wire', 0, 1), 'GateIsAbsentError'),
        ('forbid_wire(8, 3)', lambda i: F.call(i, 'forbid_wire', 8, 3), 'GateIsAbsentError'),
    ]
    for lab, act, exc in refusals:
        inst = F.new(tbl, 2, 'FULL')
        try:
            act(inst)
            got = 'returned normally'
        except InterpRaise as e:
            got = e.exc_name
        fnn = 'fix_gate' if lab.startswith('fix') else 'forbid_wire'
        ck.check(got == exc, 'C06.FIX', m, m.func(f'CircuitFinderSat.{fnn}'), f'{lab} is refused with {exc}', f'{got}', construct=f'{lab} refused')
    # (shape of the same clause: decided by the database scenarios of C06.FIND)
    with ck.soft('C06.FIND (find_circuit with a recording database, with and without constraints)'):
        for fnn in ('fix_gate', 'forbid_wire'):
            f = m.func(f'CircuitFinderSat.{fnn}')
            from ..core import body_without_doc
            b = body_without_doc(f)
            ck.check(b and norm(b[0]) == 'self._need_check_db = False', 'C06.FIX', m, f, f'{fnn} disables the database shortcut before anything else',
                     f'first statement is `{norm(b[0]) if b else None}`', construct=f'{fnn}: _need_check_db = False first')
        fc = m.func('CircuitFinderSat.find_circuit')
        ck.check('if circuit_db is not None and self._need_check_db:' in norm(fc), 'C06.FIX', m, fc, 'the database answer is used only when no constraint was imposed', 'guard changed', construct='find_circuit database guard')
    ck.floor('C06.FIX', 23)

    # ---- DEC ----
    dec_rule(ck, F)
    find_rule(ck, F)
    # exactly the requested number of gates, inputs named by index
    ck.assume('the SAT solver is sound and complete; time-limit handling and the database shortcut content are not decided')
    ck.assume('the clause generator is uniform in gate index and truth-table position, so instances with <= 2 inputs and <= 2 gates exhibit every clause template (for larger sizes only the loop domains are relied on)')


class HostDpll(Host):
    """pysat.solvers.Solver stand-in: a small complete DPLL (unit propagation + branching).  The analyser's own solver: it
    decides the clause sets the folded encoder produces, nothing of the repository."""

    def __init__(self, name=None, bootstrap_with=None, **k):
        self.clauses = [list(c) for c in (bootstrap_with or [])]
        self.model = None

    def append_formula(self, f):
        self.clauses.extend(list(c) for c in getattr(f, 'clauses', f))

    def add_clause(self, c):
        self.clauses.append(list(c))

    def delete(self):
        return None

    def __enter__(self):
        return self

    def __exit__(self, *a):
        return False

    def get_model(self):
        return None if self.model is None else list(self.model)

    def solve(self, *a, **k):
        nv = max((abs(l) for c in self.clauses for l in c), default=0)
        assign = {}

        def propagate(assign):
            changed = True
            while changed:
                changed = False
                for c in self.clauses:
                    un, sat = None, False
                    n_un = 0
                    for l in c:
                        v = assign.get(abs(l))
                        if v is None:
                            n_un += 1
                            un = l
                        elif v == (l > 0):
                            sat = True
                            break
                    if sat:
                        continue
                    if n_un == 0:
                        return False
                    if n_un == 1:
                        assign[abs(un)] = un > 0
                        changed = True
            return True

        def search(assign, budget=[200000]):
            budget[0] -= 1
            if budget[0] < 0:
                raise AnalysisError('model solver budget exceeded')
            if not propagate(assign):
                return None
            free = next((v for v in range(1, nv + 1) if v not in assign), None)
            if free is None:
                return assign
            for val in (False, True):
                a2 = dict(assign)
                a2[free] = val
                r = search(a2)
                if r is not None:
                    return r
            return None
        res = search(assign)
        if res is None:
            self.model = None
            return False
        self.model = [v if res[v] else -v for v in range(1, nv + 1)]
        return True


def _code(t):
    try:
        return semantics.binary_code(t)
    except (ValueError, KeyError):
        return None     # not a binary gate type at all


def find_rule(ck: Checker, F, R='C06.FIND'):
    """find_circuit end to end on the smallest instances, with a model solver: every two-input function, one and two gates,
    two bases -- a circuit is returned exactly when one of that size exists in the basis, and it computes the function;
    constraints added after a first search are obeyed by the next one; finders do not influence each other."""
    m = F.mod
    it = F.interp
    it.overrides['pysat.solvers.Solver'] = HostDpll
    it.externals['pysat.solvers.Solver'] = HostDpll
    it.externals['datetime.datetime.now'] = lambda *a: 0
    it._globals_cache.clear()
    opn = it.global_value(m, 'Operation')
    basis = it.global_value(m, 'Basis')
    codes = {k: sorted({opn.members[o.name].value if hasattr(o, 'name') else o.value for o in v.value}) for k, v in basis.members.items()}
    T, Fv = True, False
    fn = m.func('CircuitFinderSat.find_circuit')

    def realisable(row, N, code_set, forbidden=()):
        n = 2
        for preds, tts, outs in enumerate_structures(n, N, 1):
            if any(tts[g] not in code_set for g in range(n, n + N)):
                continue
            if any((a, g) in forbidden or (b, g) in forbidden for g, (a, b) in preds.items()):
                continue
            x = natural_values(n, N, preds, tts)
            if [x[outs[0]][t] for t in range(4)] == list(row):
                return True
        return False

    def table_of(c):
        ins = list(c._inputs)
        rows_ = []
        for o in c._outputs:
            r = []
            for bits in itertools.product((False, True), repeat=len(ins)):
                val = dict(zip(ins, bits))
                for l, g in c._gates.items():
                    if l not in val:
                        val[l] = bool(semantics.value(g.gate_type.var, [val[x] for x in g.operands]))
                r.append(val[o])
            rows_.append(r)
        return rows_

    probs = []
    n_runs = 0
    rows = list(itertools.product((Fv, T), repeat=4))
    for bname in ('XAIG', 'AIG'):
        cs = set(codes[bname])
        for N in (1, 2):
            for row in rows:
                n_runs += 1
                inst = F.new([list(row)], N, bname)
                want = realisable(row, N, cs)
                try:
                    c = F.call(inst, 'find_circuit')
                except InterpRaise as e:
                    if e.exc_name != 'NoSolutionError':
                        probs.append(f'find_circuit raises {e.exc_name} for table {"".join(str(int(v)) for v in row)}, {N} gate(s), basis {bname}')
                    elif want:
                        probs.append(f'NoSolutionError although a circuit with {N} gate(s) in {bname} computes {"".join(str(int(v)) for v in row)}')
                    continue
                if not want:
                    probs.append(f'a circuit is returned for {"".join(str(int(v)) for v in row)} with {N} gate(s) in {bname} although none exists')
                elif table_of(c) != [list(row)]:
                    probs.append(f'the circuit returned for {"".join(str(int(v)) for v in row)} ({N} gate(s), {bname}) computes {table_of(c)}')
                else:
                    used = {g.gate_type.var for l, g in c._gates.items() if g.gate_type.var != 'INPUT'}
                    foreign = sorted(t for t in used if _code(t) not in cs)
                    if foreign or len(c._gates) - len(c._inputs) != N:
                        probs.append(f'the circuit returned for {"".join(str(int(v)) for v in row)} ({N} gate(s), {bname}) has gates {sorted(used)} / {len(c._gates) - len(c._inputs)} gates')
            if len(probs) > 3:
                break
    ck.check(not probs, R, m, fn, f'find_circuit folded end to end with a model solver for every two-input function, 1 and 2 gates, XAIG and AIG ({n_runs} searches): a circuit exactly when one of that size exists in the basis, computing the function with gates of the basis',
             '; '.join(probs[:2]), construct='find_circuit over all two-input functions')
    # a constraint added after a first search is obeyed by the next search of the same finder
    probs = []
    for row, N, bname in (((Fv, T, T, Fv), 1, 'XAIG'), ((Fv, Fv, Fv, T), 1, 'AIG'), ((Fv, T, T, T), 2, 'AIG')):
        inst = F.new([list(row)], N, bname)
        try:
            c1 = F.call(inst, 'find_circuit')
        except InterpRaise as e:
            probs.append(f'first search raises {e.exc_name}')
            continue
        # forbid the wire input 0 -> first gate (index 2): with one gate no circuit is left; with two, another structure must be found
        try:
            F.call(inst, 'forbid_wire', 0, 2)
        except InterpRaise as e:
            probs.append(f'forbid_wire(0, 2) raises {e.exc_name}')
            continue
        want = realisable(row, N, set(codes[bname]), forbidden={(0, 2)})
        try:
            c2 = F.call(inst, 'find_circuit')
            reads = any('0' in g.operands and l == 's2' for l, g in c2._gates.items())
            if reads:
                probs.append(f'after forbid_wire(0, 2) the same finder returns a circuit whose gate s2 still reads input 0 ({"".join(str(int(v)) for v in row)}, {N} gate(s), {bname})')
            elif not want:
                probs.append(f'after forbid_wire(0, 2) a circuit is returned although none exists ({"".join(str(int(v)) for v in row)}, {N} gate(s), {bname})')
            elif table_of(c2) != [list(row)]:
                probs.append(f'after forbid_wire(0, 2) the returned circuit computes {table_of(c2)}')
        except InterpRaise as e:
            if e.exc_name != 'NoSolutionError' or want:
                probs.append(f'after forbid_wire(0, 2) the search raises {e.exc_name} although {"a" if want else "no"} circuit exists ({"".join(str(int(v)) for v in row)}, {N} gate(s), {bname})')
    ck.check(not probs, R, m, fn, 'a constraint added between two searches of one finder (forbid_wire) is obeyed by the second search', '; '.join(probs[:2]), construct='find_circuit, forbid_wire, find_circuit')
    # finders do not influence each other: a normalised search first, then plain searches in the same bases
    probs = []
    for first, later in (('XAIG', (((T, T, T, Fv), 1, 'XAIG'), ((T, Fv, Fv, T), 1, 'XAIG'), ((Fv, Fv, Fv, T), 1, 'AIG'))),
                         ('FULL', (((T, T, T, Fv), 1, 'AIG'), ((T, Fv, T, T), 1, 'FULL'), ((T, Fv, Fv, T), 1, 'XAIG'), ((Fv, T, T, Fv), 1, 'AIG')))):
        try:
            F.call(F.new([[Fv, T, T, Fv]], 1, first, need_normalized=True), 'get_cnf')
        except InterpRaise:
            pass
        for row, N, bname in later:
            inst = F.new([list(row)], N, bname)
            want = realisable(row, N, set(codes[bname]))
            rs = ''.join(str(int(v)) for v in row)
            try:
                c = F.call(inst, 'find_circuit')
                used = {g.gate_type.var for l, g in c._gates.items() if g.gate_type.var != 'INPUT'}
                foreign = sorted(t for t in used if _code(t) not in set(codes[bname]))
                if not want:
                    probs.append(f'after a normalised search in {first} was set up, the search for {rs} with one gate in {bname} returns a circuit (gates {sorted(used)}) although none exists')
                elif table_of(c) != [list(row)] or foreign:
                    probs.append(f'after a normalised search in {first} was set up, the search for {rs} in {bname} returns gates {sorted(used)} computing {table_of(c)}')
            except InterpRaise as e:
                if want or e.exc_name != 'NoSolutionError':
                    probs.append(f'after a normalised search in {first} was set up, the search for {rs} with one gate in {bname} raises {e.exc_name}')
    ck.check(not probs, R, m, fn, 'searches set up earlier in the process (a normalised one in XAIG, then one in FULL) do not change what later searches find', '; '.join(probs[:2]), construct='independent finders')
    # the database shortcut: used for an unconstrained finder (a stored circuit that is small enough is the answer, one that is
    # too large means "no solution"), never once a constraint was imposed
    class _Db(Host):
        def __init__(self, answer):
            self.answer, self.calls = answer, []

        def get_by_raw_truth_table_model(self, tt):
            self.calls.append([list(r) for r in tt])
            return self.answer

    class _Stored(Host):
        def __init__(self, n):
            self.n = n

        def gates_number(self, *a, **k):
            return self.n
    probs = []
    row = [Fv, Fv, Fv, T]       # AND: two AIG gates can compute it whatever single wire or predecessor is fixed below
    small, large = _Stored(1), _Stored(5)
    for desc, stored, constrain, want in (('a stored circuit of admissible size', small, None, 'stored'), ('a stored circuit that is too large', large, None, 'NoSolutionError'),
                                          ('a database without the function', None, None, 'search'), ('forbid_wire before the search', small, ('forbid_wire', (0, 3)), 'search'),
                                          ('fix_gate before the search', small, ('fix_gate', (2,), {'first_predecessor': 0}), 'search'),
                                          ('forbid_wire before the search, stored circuit too large', large, ('forbid_wire', (0, 3)), 'search')):
        inst = F.new([row], 2, 'AIG')
        db = _Db(stored)
        try:
            if constrain:
                F.call(inst, constrain[0], *constrain[1], **(constrain[2] if len(constrain) > 2 else {}))
            got = F.call(inst, 'find_circuit', circuit_db=db)
            outcome = 'stored' if got is stored and stored is not None else 'search'
            if outcome == 'search' and (not hasattr(got, '_gates') or table_of(got) != [row]):
                outcome = f'a result that does not compute the function ({got!r})'
        except InterpRaise as e:
            outcome = e.exc_name
        if outcome != want:
            probs.append(f'{desc}: find_circuit(circuit_db=...) ends with {outcome}, expected {want}')
        elif want in ('stored', 'NoSolutionError') and db.calls != [[row]]:
            probs.append(f'{desc}: the database was asked {db.calls} instead of once for the truth table of the finder')
    ck.check(not probs, R, m, fn, 'the database shortcut of find_circuit: the stored circuit is the answer when it is small enough, NoSolutionError when it is too large, a search when the database has nothing, and always a search once fix_gate / forbid_wire was called',
             '; '.join(probs[:2]), construct='find_circuit with a circuit database')
    ck.assume('find_circuit is folded end to end for two-input functions and at most two gates only, with a model solver in place of pysat')


def dec_rule(ck: Checker, F, R='C06.DEC'):
    """The model decoder, folded over models of every structure: one output, and two outputs
    (same gate twice, later gate listed first, an output on each gate)."""
    m = F.mod
    T, Fv = True, False
    n, N = 2, 2
    # (the decoder is a private method: the fold knows it as `_get_circuit_by_model(self, model)`; written another way, decoding is
    # left to C06.FIND, which checks the circuits find_circuit hands back for every two-input function)
    dec = m.functions.get('CircuitFinderSat._get_circuit_by_model')
    if dec is None or [a.arg for a in dec.args.args] != ['self', 'model']:
        ck.notes.setdefault('structural_rules_not_applicable', []).append('model-decoder fold: CircuitFinderSat._get_circuit_by_model(self, model) is not there [left to C06.FIND]')
        return
    for n_out, step in ((1, 37), (2, 53)):
        probs = []
        n_dec = 0
        table = [[Fv, T, T, Fv]] * n_out
        inst = F.new(table, N, 'FULL')
        F.call(inst, 'get_cnf')
        ids = inst._d['_vpool'].ids
        for preds, tts, outs in itertools.islice(enumerate_structures(n, N, n_out), 0, None, step):
            n_dec += 1
            x = natural_values(n, N, preds, tts)
            model = []
            for name, vid in ids.items():
                parts = name.split('_')
                if parts[0] == 's':
                    v = preds[int(parts[1])] == (int(parts[2]), int(parts[3]))
                elif parts[0] == 'g':
                    v = outs[int(parts[1])] == int(parts[2])
                elif parts[0] == 'f':
                    v = tts[int(parts[1])][2 * int(parts[2]) + int(parts[3])] == '1'
                else:
                    v = x[int(parts[1])][int(parts[2])]
                model.append(vid if v else -vid)
            try:
                c = F.call(inst, '_get_circuit_by_model', model)
            except InterpRaise as e:
                probs.append(f'{preds}/{tts}: decoder raises {e.exc_name}')
                continue
            lab = lambda g: str(g) if g < n else f's{g}'  # noqa: E731
            want = {str(i): ('INPUT', ()) for i in range(n)}
            for g in range(n, n + N):
                want[f's{g}'] = (semantics.CODE_TO_NAME[tts[g]], (lab(preds[g][0]), lab(preds[g][1])))
            got = {l: (g.gate_type.var, tuple(g.operands)) for l, g in c._gates.items()}
            if got != want or c._outputs != [lab(o) for o in outs] or c._inputs != [str(i) for i in range(n)]:
                probs.append(f'{preds}/{tts}/outputs at gates {outs}: decoded {got} outputs {c._outputs}')
            if len(probs) > 3:
                break
        seen_outs = {tuple(o) for _, _, o in itertools.islice(enumerate_structures(n, N, n_out), 0, None, step)}
        ck.need(n_out == 1 or {(2, 2), (3, 2), (2, 3), (3, 3)} <= seen_outs, 'C06.DEC sampling misses an output placement (checker defect)')
        ck.check(not probs, R, m, m.func('CircuitFinderSat._get_circuit_by_model'),
                 f'decoder rebuilds the encoded circuit with {n_out} output(s): gates, operand order, types, and the k-th output at the gate the model chose for the k-th table row ({n_dec} models over all 16 gate tables, all predecessor pairs, all output placements)',
                 '; '.join(probs[:3]), construct=f'_get_circuit_by_model ({n_out} output{"s" if n_out > 1 else ""})')
