"""C05 -- the circuit-to-CNF reduction is exact."""

from __future__ import annotations

import ast

from ..core import (
    AnalysisError, Checker, assignments_in, call_name, calls_in, deref, is_name, norm,
    param_names, single_def, walk_no_nested, GATE_NAMES,
)
from .. import cnf_templates as ct
from .. import semantics


_DISPATCH_NAME = ['_operations']


def run(ck: Checker):
    repo = ck.repo
    mod, fn, dict_node, table = ct.find_operations(ck)
    _DISPATCH_NAME[0] = getattr(dict_node, '_dispatch_name', '_operations')
    max_nary = 4 if ck.tier == 'quick' else 6

    # ---- C05.REG ---------------------------------------------------------
    ck.rule('C05.REG', 'the Tseytin dispatch table has exactly the 19 gate types as keys; all handlers take (cnf, top_lit, lits)')
    missing = [t for t in GATE_NAMES if t not in table]
    ck.check(not missing, 'C05.REG', mod, dict_node, 'keys of _operations = all gate types',
             f'gate types without a CNF handler: {missing} (process_gate raises KeyError for them)',
             construct='_operations keys')
    for t, (hmod, hname, vnode, knode) in table.items():
        h = table.nodes[t]
        if not isinstance(h, ast.FunctionDef) or getattr(table.calls[t], 'closure', None) is not None:
            # a handler that is not a plain function (partial application, closure, callable record): its signature is what
            # C05.TPL exercises by calling it with (cnf, top_lit, lits)
            ck.ok('C05.REG', hmod, h, f'handler of {t} is the callable `{hname}` (called with (cnf, top_lit, lits) by C05.TPL)', construct=f'_operations[{t}] = {hname}')
            continue
        a = h.args
        npos = len(a.posonlyargs) + len(a.args)
        ck.check(npos == 3 and not a.vararg and not a.kwonlyargs, 'C05.REG', hmod, h,
                 f'handler of {t} takes (cnf, top_lit, lits)',
                 f'handler {hname} registered for {t} has signature ({", ".join(param_names(h))})',
                 construct=f'_operations[{t}] = {hname}')
    ck.floor('C05.REG', 20)

    # ---- C05.TPL ---------------------------------------------------------
    ck.rule('C05.TPL', 'for each type and each legal arity the emitted clause set is equivalent to top <-> f(operands), exhaustively over 2^(n+1) assignments')
    for t, (hmod, hname, vnode, knode) in table.items():
        h = table.nodes[t]
        if t == 'INPUT':
            for n in (0,):
                cnf = ct.clauses_of(repo, hmod, hname, n, call=table.calls[t])
                ck.check(cnf == [], 'C05.TPL', hmod, h, 'INPUT emits no clause',
                         f'handler of INPUT emitted {cnf!r}', construct=f'{hname} for INPUT arity 0')
            continue
        for n in semantics.arities(t, max_nary):
            cnf = ct.clauses_of(repo, hmod, hname, n, call=table.calls[t])
            cons = f'{hname} for {t} arity {n}'
            if isinstance(cnf, str):
                ck.bad('C05.TPL', hmod, h, f'{t} with {n} operands is encodable',
                       f'handler rejects a legal arity ({cnf})', construct=cons)
                continue
            probs = ct.check_template(t, n, cnf)
            ck.check(not probs, 'C05.TPL', hmod, h, f'clauses of {t}/{n} equivalent to top <-> {t}(l1..l{n})',
                     '; '.join(probs[:3]) + (f' (+{len(probs) - 3} more rows)' if len(probs) > 3 else ''),
                     detail={'clauses': cnf}, construct=cons)
    ct.check_repeats(ck, table, 'C05.TPL')
    ck.floor('C05.TPL', 40)

    # ---- C05.FOLD / C05.SAT folds: they decide the driver and the query end to end -------------------------------
    ck.rule('C05.FOLD', 'tseytin_transformation folded as a whole over a family of model circuits and output selections; each clause set decided against the circuit for every input assignment (inputs = variables 1..n, satisfiable iff the selected outputs are True, every variable determined)')
    from .. import passes
    passes.fold_tseytin(ck, 'C05.FOLD')
    ck.floor('C05.FOLD', 1)
    ck.rule('C05.SAT', 'is_circuit_satisfiable = is_satisfiable(Cnf.from_circuit(circuit)) folded end to end with a model solver (exhaustive search): True exactly when some assignment makes all outputs True, the returned model satisfies the clauses and projects onto such an assignment; structural plumbing rules where the code is written the known way')
    passes.fold_sat_query(ck, 'C05.SAT')
    # ---- structural rules about the driver and the plumbing: they speak where they recognise the code ---------------
    with ck.soft('C05.FOLD'):
        _alloc_and_unit(ck, mod, fn)
    with ck.soft('C05.SAT (fold of the query with a model solver)'):
        _sat(ck)


def _find_nested(mod, fn, name):
    for node in ast.walk(fn):
        if isinstance(node, ast.FunctionDef) and node is not fn and node.name == name:
            return node
    return None


def _alloc_and_unit(ck: Checker, mod, fn):
    R = 'C05.ALLOC'
    ck.rule(R, 'literal allocation: counter starts at 0 and is pre-incremented; circuit inputs are registered in order before any gate; a gate is encoded once, after its operands')
    circuit_param = fn.args.args[0].arg if fn.args.args else None
    ck.need(circuit_param is not None, f'{mod.rel}: tseytin_transformation has no circuit parameter')
    # counter
    inits = [a for a in assignments_in(fn, 'next_lit') if a[0] == 'assign']
    ck.need(len(inits) == 1, f'{mod.rel}: literal counter next_lit not found (shape changed)')
    init = inits[0][1]
    ck.check(isinstance(init, ast.Constant) and init.value == 0, R, mod, inits[0][2],
             'literal counter starts at 0', f'counter initialised to `{norm(init)}`: inputs would not be variables 1..n')
    # the registering closure: nonlocal next_lit; next_lit += 1; return next_lit
    saved = None
    for node in walk_no_nested(fn):
        if isinstance(node, (ast.Assign, ast.AnnAssign)):
            tgt = node.targets[0] if isinstance(node, ast.Assign) else node.target
            if is_name(tgt, 'saved_lits'):
                saved = node
    ck.need(saved is not None and isinstance(saved.value, ast.Call) and call_name(saved.value) == 'defaultdict'
            and len(saved.value.args) == 1 and isinstance(saved.value.args[0], ast.Name),
            f'{mod.rel}: saved_lits = defaultdict(<allocator>) not found (shape changed)')
    alloc = _find_nested(mod, fn, saved.value.args[0].id)
    ck.need(alloc is not None, f'{mod.rel}: allocator closure not found')
    body = [s for s in alloc.body if not isinstance(s, (ast.Nonlocal, ast.Expr))]
    good = (
        len(body) == 2 and isinstance(body[0], ast.AugAssign) and is_name(body[0].target, 'next_lit')
        and isinstance(body[0].op, ast.Add) and isinstance(body[0].value, ast.Constant) and body[0].value.value == 1
        and isinstance(body[1], ast.Return) and is_name(body[1].value, 'next_lit')
    )
    ck.check(good, R, mod, alloc, 'allocator pre-increments by one and returns the new counter',
             f'allocator body is `{norm(ast.Module(body=alloc.body, type_ignores=[]))}`: literals are not 1,2,3,...')

    # inputs loop before outputs loop / any process_gate call
    top = [s for s in fn.body]
    inputs_loop = None
    outputs_loop = None
    first_process_call = None
    for s in top:
        if isinstance(s, ast.For):
            it = norm(s.iter)
            if it == f'{circuit_param}.inputs' and inputs_loop is None:
                inputs_loop = s
            elif any(True for _ in calls_in(s, 'process_gate')) and outputs_loop is None:
                outputs_loop = s
        if first_process_call is None and not isinstance(s, ast.FunctionDef):
            if any(True for _ in calls_in(s, 'process_gate')):
                first_process_call = s
    ck.need(outputs_loop is not None, f'{mod.rel}: loop over selected outputs not found (shape changed)')
    if inputs_loop is None:
        ck.bad(R, mod, fn, 'all circuit inputs are registered first, in input order',
               f'no top-level `for ... in {circuit_param}.inputs` loop: the i-th input is not variable i+1',
               construct='inputs registration loop')
    else:
        target = inputs_loop.target
        touches = any(
            isinstance(n, ast.Subscript) and is_name(n.value, 'saved_lits') and is_name(n.slice) and is_name(target, n.slice.id)
            for st in inputs_loop.body for n in ast.walk(st)
        ) or any(
            call_name(c) == 'get_lit' and c.args and is_name(c.args[0]) and is_name(target, c.args[0].id)
            for st in inputs_loop.body for c in calls_in(st)
        )
        unconditional = all(not isinstance(s, (ast.If, ast.Continue, ast.Break)) for s in inputs_loop.body)
        before = inputs_loop.lineno < first_process_call.lineno
        ck.check(touches and unconditional and before, R, mod, inputs_loop,
                 'every circuit input gets its literal, in input order, before any gate is processed',
                 'inputs loop ' + ('does not register the loop variable' if not touches else
                                   'is conditional' if not unconditional else 'comes after the first process_gate call'),
                 construct=f'for {norm(target)} in {circuit_param}.inputs')

    pg = _find_nested(mod, fn, 'process_gate')
    ck.need(pg is not None, f'{mod.rel}: process_gate closure not found')
    label = pg.args.args[0].arg
    st0 = pg.body[0]
    early = (
        isinstance(st0, ast.If) and isinstance(st0.test, ast.Compare) and len(st0.test.ops) == 1
        and isinstance(st0.test.ops[0], ast.In) and is_name(st0.test.left, label)
        and is_name(st0.test.comparators[0], 'saved_lits') and len(st0.body) == 1
        and isinstance(st0.body[0], ast.Return) and norm(st0.body[0].value) in (f'saved_lits[{label}]', f'get_lit({label})')
    )
    ck.check(early, R, mod, st0, 'a gate already registered (input or encoded gate) is not encoded again',
             'process_gate does not start with `if label in saved_lits: return saved_lits[label]`',
             construct='process_gate early return')
    # handler call
    hcalls = [c for c in calls_in(pg) if isinstance(c.func, ast.Subscript) and is_name(c.func.value, _DISPATCH_NAME[0])]
    ck.need(len(hcalls) >= 1, f'{mod.rel}: handler dispatch call not found in process_gate')
    ck.check(len(hcalls) == 1 and mod.parents[mod.enclosing_stmt(hcalls[0])] is pg, R, mod, hcalls[0],
             'the handler is called exactly once, unconditionally', f'{len(hcalls)} dispatch call sites / nested under a condition')
    hc = hcalls[0]
    ok_args = len(hc.args) == 3 and not hc.keywords
    detail = ''
    if ok_args:
        a_cnf, a_top, a_lits = hc.args
        ok_cnf = is_name(a_cnf, 'cnf')
        top_def = deref(pg, a_top)
        ok_top = norm(top_def) in (f'get_lit({label})', f'saved_lits[{label}]')
        lits_def = deref(pg, a_lits)
        ok_lits = False
        if isinstance(lits_def, ast.ListComp) and len(lits_def.generators) == 1 and not lits_def.generators[0].ifs:
            g = lits_def.generators[0]
            src = deref(pg, g.iter)
            gate_var = None
            if isinstance(src, ast.Attribute) and src.attr == 'operands':
                gd = deref(pg, src.value)
                gate_var = norm(gd)
            elt_ok = isinstance(lits_def.elt, ast.Call) and call_name(lits_def.elt) == 'process_gate' and len(lits_def.elt.args) == 1 \
                and is_name(lits_def.elt.args[0]) and is_name(g.target, lits_def.elt.args[0].id)
            ok_lits = elt_ok and gate_var == f'{circuit_param}.get_gate({label})'
        key = deref(pg, hc.func.slice)
        ok_key = isinstance(key, ast.Attribute) and key.attr == 'gate_type' and norm(deref(pg, key.value)) == f'{circuit_param}.get_gate({label})'
        # operand recursion precedes allocation of the gate's own literal? not needed for exactness;
        # what is needed: lits computed (operands encoded) before the handler call -- by data dependence.
        ok_args = ok_cnf and ok_top and ok_lits and ok_key
        detail = f'cnf={ok_cnf} top={ok_top} lits={ok_lits} key={ok_key}'
    ck.check(ok_args, R, mod, hc,
             'handler receives (cnf, literal of this gate, literals of gate.operands in operand order), keyed by this gate\'s type',
             f'dispatch call `{norm(hc)}` does not have that shape ({detail})', construct='process_gate dispatch call')
    ret = pg.body[-1]
    ck.check(isinstance(ret, ast.Return) and norm(deref(pg, ret.value)) in (f'get_lit({label})', f'saved_lits[{label}]'),
             R, mod, ret, 'process_gate returns the gate\'s own literal', f'returns `{norm(ret)}`', construct='process_gate return')
    ck.floor(R, 6)

    # ---- UNIT ------------------------------------------------------------
    R = 'C05.UNIT'
    ck.rule(R, 'one unit clause per selected output, unconditionally, with the literal returned for that output; default selection = all outputs')
    oparam = fn.args.args[1].arg if len(fn.args.args) > 1 else None
    ck.need(oparam is not None, f'{mod.rel}: outputs parameter not found')
    ck.check(is_name(outputs_loop.iter, oparam), R, mod, outputs_loop, 'the loop ranges over the selected outputs',
             f'iterates over `{norm(outputs_loop.iter)}`', construct='outputs loop header')
    idx = outputs_loop.target
    appends = [s for s in outputs_loop.body if isinstance(s, ast.Expr) and isinstance(s.value, ast.Call)
               and call_name(s.value) == 'append' and is_name(s.value.func.value, 'cnf')]
    all_appends_in_loop = [c for st in outputs_loop.body for c in calls_in(st, 'append') if is_name(c.func.value, 'cnf')]
    good = False
    if len(appends) == 1 and len(all_appends_in_loop) == 1:
        arg = appends[0].value.args[0] if appends[0].value.args else None
        if isinstance(arg, ast.List) and len(arg.elts) == 1:
            # deref inside loop body
            lit = arg.elts[0]
            if isinstance(lit, ast.Name):
                defs = [s.value for s in outputs_loop.body if isinstance(s, ast.Assign) and is_name(s.targets[0], lit.id)]
                lit = defs[0] if len(defs) == 1 else lit
            good = norm(lit) == f'process_gate({circuit_param}.output_at_index({norm(idx)}))'
    ck.check(good and not any(isinstance(s, (ast.Continue, ast.Break)) for st in outputs_loop.body for s in ast.walk(st)),
             R, mod, outputs_loop, 'each selected output contributes the unit clause [literal of that output]',
             'the outputs loop does not unconditionally append `[process_gate(circuit.output_at_index(i))]`',
             construct='outputs loop unit clause')
    # default selection
    dflt = None
    for s in fn.body:
        if isinstance(s, ast.If) and norm(s.test) == f'{oparam} is None' and len(s.body) == 1 and isinstance(s.body[0], ast.Assign):
            dflt = s
    ck.need(dflt is not None, f'{mod.rel}: default output selection not found')
    ck.check(norm(dflt.body[0].value) == f'list(range({circuit_param}.output_size))' and is_name(dflt.body[0].targets[0], oparam),
             R, mod, dflt, 'omitted selection means all outputs', f'default selection is `{norm(dflt.body[0])}`',
             construct='default outputs selection')
    last = fn.body[-1]
    ck.check(isinstance(last, ast.Return) and norm(last.value) == 'Cnf(cnf)', R, mod, last,
             'the function returns the clause list it built', f'returns `{norm(last)}`', construct='return Cnf(cnf)')
    # cnf initialised empty, once
    cnf_defs = assignments_in(fn, 'cnf')
    ck.check(len(cnf_defs) == 1 and isinstance(cnf_defs[0][1], ast.List) and not cnf_defs[0][1].elts, R, mod,
             cnf_defs[0][2] if cnf_defs else fn, 'clause list starts empty and is never rebound',
             'cnf is rebound or not initialised to []', construct='cnf = []')
    ck.floor(R, 5)


def _sat(ck: Checker):
    R = 'C05.SAT'
    ck.rule(R, 'is_circuit_satisfiable = is_satisfiable(Cnf.from_circuit(circuit)); from_circuit = tseytin_transformation(circuit) (all outputs); is_satisfiable returns the solver\'s solve()/get_model() on exactly those clauses')
    repo = ck.repo
    sat = repo.mod('cirbo.sat.sat')
    cnfm = repo.mod('cirbo.sat.cnf.cnf')
    f = sat.func('is_circuit_satisfiable')
    rets = [n for n in ast.walk(f) if isinstance(n, ast.Return)]
    cparam = f.args.args[0].arg
    good = False
    if len(rets) == 1 and isinstance(rets[0].value, ast.Call) and call_name(rets[0].value) == 'is_satisfiable':
        c = rets[0].value
        arg = c.args[0] if c.args else next((k.value for k in c.keywords if k.arg == 'cnf'), None)
        good = arg is not None and norm(arg) == f'Cnf.from_circuit({cparam})'
    ck.check(good, R, sat, f, 'circuit satisfiability is satisfiability of the Tseytin CNF of that circuit',
             'is_circuit_satisfiable does not return is_satisfiable(cnf=Cnf.from_circuit(circuit), ...)',
             construct='is_circuit_satisfiable body')
    fc = cnfm.func('Cnf.from_circuit')
    rets = [n for n in ast.walk(fc) if isinstance(n, ast.Return)]
    p = fc.args.args[0].arg
    good = len(rets) == 1 and norm(rets[0].value) == f'tseytin_transformation({p})'
    res = None
    for n in ast.walk(fc):
        if isinstance(n, ast.ImportFrom):
            for a in n.names:
                if a.name == 'tseytin_transformation' and n.module == ct.TSEYTIN:
                    res = True
    ck.check(good and (res or repo.canonical(cnfm, ast.Name('tseytin_transformation')) == ct.TSEYTIN + '.tseytin_transformation'),
             R, cnfm, fc, 'Cnf.from_circuit encodes all outputs of its argument',
             'from_circuit does not return tseytin_transformation(circuit)', construct='Cnf.from_circuit body')
    init = cnfm.func('Cnf.__init__')
    stores = [n for n in ast.walk(init) if isinstance(n, ast.Assign) and norm(n.targets[0]) == 'self._cnf']
    p = init.args.args[1].arg
    ok = any(norm(s.value) == p for s in stores) and all(norm(s.value) in (p, '[]') for s in stores)
    graw = cnfm.func('Cnf.get_raw')
    r = [n for n in ast.walk(graw) if isinstance(n, ast.Return)]
    ck.check(ok and len(r) == 1 and norm(r[0].value) == 'self._cnf', R, cnfm, init,
             'Cnf stores and hands back exactly the clauses it was given', 'Cnf.__init__/get_raw do not pass the clause list through',
             construct='Cnf.__init__ / get_raw')
    g = sat.func('is_satisfiable')
    p = g.args.args[0].arg
    src = norm(g)
    rets = [n for n in ast.walk(g) if isinstance(n, ast.Return)]
    good = (
        len(rets) == 1 and isinstance(rets[0].value, ast.Call) and call_name(rets[0].value) == 'PySatResult'
        and len(rets[0].value.args) == 2 and call_name(rets[0].value.args[0]) == 'solve' and call_name(rets[0].value.args[1]) == 'get_model'
        and not rets[0].value.args[0].args and not rets[0].value.args[0].keywords
        and f'from_clauses={p}.get_raw()' in src and 'append_formula(_pysat_cnf)' in src
    ) if rets and isinstance(rets[0].value, ast.Call) and len(rets[0].value.args) == 2 and all(isinstance(a, ast.Call) for a in rets[0].value.args) else False
    ck.check(good, R, sat, g, 'the answer is the solver\'s verdict on exactly the CNF\'s clauses (no assumptions, no extra clauses)',
             'is_satisfiable does not return PySatResult(solver.solve(), solver.get_model()) over cnf.get_raw()',
             construct='is_satisfiable body')
    ck.floor(R, 4)
    ck.assume('the SAT solver behind pysat is sound and complete (as the property states)')
