"""C10 -- circuit composition computes the documented functional composition (structural clauses)."""

from __future__ import annotations

import ast

from ..core import (
    AnalysisError, Checker, always_raises, call_name, calls_in, deref, is_name, norm, single_def, walk_no_nested, assignments_in,
)
from ..effects import Effects

CIRCUIT = 'cirbo.core.circuit.circuit'


def kwargs_of(call: ast.Call, fn_def: ast.FunctionDef, skip_self=True):
    """Map parameter name -> argument expression for a call of `fn_def`."""
    a = fn_def.args
    pos = [p.arg for p in a.posonlyargs + a.args]
    if skip_self and pos and pos[0] == 'self':
        pos = pos[1:]
    out = {}
    for i, arg in enumerate(call.args):
        if i < len(pos):
            out[pos[i]] = arg
    for k in call.keywords:
        if k.arg:
            out[k.arg] = k.value
    return out


def _concat_parts(expr):
    if isinstance(expr, ast.BinOp) and isinstance(expr.op, ast.Add):
        return _concat_parts(expr.left) + _concat_parts(expr.right)
    return [expr]


def _comp(expr):
    """(elt, target, iter, [ifs]) of a single-generator list comprehension, else None."""
    if isinstance(expr, ast.ListComp) and len(expr.generators) == 1 and isinstance(expr.generators[0].target, ast.Name):
        g = expr.generators[0]
        return norm(expr.elt), g.target.id, norm(g.iter), [norm(i) for i in g.ifs]
    return None


def run(ck: Checker):
    repo = ck.repo
    m = repo.mod(CIRCUIT)
    eff = Effects(repo)
    fn = m.func('Circuit.connect_circuit')
    ck.rule('C10.PURE', 'the attached circuit is not mutated by connect_circuit or any wrapper')
    ck.rule('C10.IFACE', 'new outputs = kept own outputs (not this_connectors) then mapped other outputs (not other_connectors); new inputs = saved own input order filtered by still-INPUT then mapped other inputs (not other_connectors)')
    ck.rule('C10.EMIT', 'attached gates are emitted in other.top_sort(inverse=True) order, type preserved, operands mapped element-wise through the one label map, labels prefixed consistently')
    ck.rule('C10.WRAP', 'the five wrappers pass the documented connector lists and direction')
    ck.rule('C10.UNIQ', 'the connector list used as keys of the label map is the one validated to be duplicate-free')
    ck.rule('C10.BLOCK', 'the created block lists the mapped inputs/outputs of the attached circuit in order and every attached non-input gate')

    # ---- PURE ----
    for q in ('Circuit.connect_circuit', 'Circuit.connect_left', 'Circuit.connect_right', 'Circuit.connect_inputs', 'Circuit.extend_circuit', 'Circuit.add_circuit'):
        fi = eff.lookup(CIRCUIT, q)
        why = '; '.join(f'{w} at line {ln}: `{txt}`' for w, ln, txt in fi.reasons.get('other', [])[:3])
        ck.check('other' in fi.params and 'other' not in fi.mutated, 'C10.PURE', m, fi.node, f'{q} leaves the attached circuit unmodified',
                 f'`other` may be modified: {why}' if 'other' in fi.params else 'parameter `other` not found', construct=f'{q}(other) purity')
    ck.floor('C10.PURE', 6)

    ck.rule('C10.FOLD', 'connect_circuit folded on instances of the repository\'s own Circuit class over a bounded family of compositions (both directions, internal / repeated base connectors, partial connector lists, naming and prefix options; other.top_sort replaced by an oracle) and compared with the documented composition: attached circuit untouched, well-formed result, inputs, outputs, function of every kept output; each wrapper equals connect_circuit with its documented connector lists (distinct other_connectors only: repeated ones under right_connect are finding F11 / C10.UNIQ)')
    from .. import compose_fold
    compose_fold.fold_connect(ck, 'C10.FOLD', 'C10.BLOCK')
    compose_fold.fold_wrappers(ck, 'C10.FOLD')
    compose_fold.fold_repeated_connectors(ck, 'C10.UNIQ')
    ck.floor('C10.FOLD', 15)
    # structural rules: they state the clauses for compositions of any size but know one way of writing connect_circuit;
    # where they do not recognise the code the clause is left to the fold above (C10.UNIQ's verdict is the fold's)
    with ck.soft('C10.FOLD'):
        # names
        p = [a.arg for a in fn.args.args]
        ck.need(p[:4] == ['self', 'other', 'this_connectors', 'other_connectors'], f'{m.rel}: connect_circuit signature changed: {p}')

        # the label map
        loop = None
        for st in fn.body:
            if isinstance(st, ast.For) and norm(st.iter) == 'other.top_sort(inverse=True)':
                loop = st
        ck.need(loop is not None, f'{m.rel}: connect_circuit does not iterate other.top_sort(inverse=True) (shape changed)')
        ck.ok('C10.EMIT', m, loop, 'attached gates are visited in dependency order (operands before users)', construct='for _gate in other.top_sort(inverse=True)')
        mapvar = None
        mapping_build = None
        for st in fn.body:
            if isinstance(st, ast.For) and isinstance(st.iter, ast.Call) and norm(st.iter.func) == 'enumerate' and len(st.body) == 1 and isinstance(st.body[0], ast.Assign):
                b = st.body[0]
                if isinstance(b.targets[0], ast.Subscript) and isinstance(st.target, ast.Tuple):
                    mapping_build = (st, b)
        ck.need(mapping_build is not None, f'{m.rel}: connector map construction not found')
        st, b = mapping_build
        i_var, k_var = (norm(e) for e in st.target.elts)
        keys_list = norm(st.iter.args[0])
        key_ok = norm(b.targets[0].slice) == k_var
        val = b.value
        vals_list = norm(val.value) if isinstance(val, ast.Subscript) and norm(val.slice) == i_var else None
        ck.check(key_ok and keys_list == 'other_connectors' and vals_list == 'this_connectors', 'C10.EMIT', m, st,
                 'the label map sends the i-th attached connector to the i-th base connector', f'map built as `{norm(st)[:140]}`', construct='connector map construction')
        # UNIQ: which list is validated under which direction
        uniq = {}
        for s in fn.body:
            if isinstance(s, ast.If) and norm(s.test) == 'right_connect':
                for branch, flag in ((s.body, True), (s.orelse, False)):
                    for x in branch:
                        if isinstance(x, ast.If) and always_raises(x.body):
                            t = norm(x.test)
                            for lst in ('this_connectors', 'other_connectors'):
                                if t == f'len({lst}) != len(set({lst}))':
                                    uniq.setdefault(flag, set()).add(lst)
        for flag in (False, True):
            validated = uniq.get(flag, set())
            cons = f'connect_circuit: uniqueness of map keys ({keys_list}) with right_connect={flag}'
            ck.check(keys_list in validated, 'C10.UNIQ', m, st, f'with right_connect={flag} the keys of the label map ({keys_list}) are validated duplicate-free',
                     f'only {sorted(validated)} is checked for duplicates but the map is keyed by {keys_list}: a repeated {keys_list} entry silently overwrites its pair '
                     f'and leaves a base connector unconnected', construct=cons)
        ck.check('len(this_connectors) != len(other_connectors)' in {norm(s.test) for s in fn.body if isinstance(s, ast.If) and always_raises(s.body)},
                 'C10.UNIQ', m, fn, 'connector lists of different lengths are rejected', 'no length check', construct='connect_circuit: connector length check')

        # EMIT inside the loop
        cur = norm(loop.target)
        gate_alias = cur
        for s in loop.body:
            if isinstance(s, (ast.Assign, ast.AnnAssign)) and norm(s.value) == cur:
                gate_alias = norm(s.targets[0] if isinstance(s, ast.Assign) else s.target)
        emits = [c for c in calls_in(loop, 'emplace_gate') if norm(c.func.value) == 'self']
        ck.need(len(emits) == 1, f'{m.rel}: expected one emplace_gate in the attach loop, found {len(emits)}')
        e = emits[0]
        kw = kwargs_of(e, m.func('Circuit.emplace_gate'))
        lab = deref(fn, kw.get('label'))
        # new_label is assigned inside the loop: find its definition there
        lab_defs = [s.value for s in ast.walk(loop) if isinstance(s, (ast.Assign, ast.AnnAssign)) and norm(s.targets[0] if isinstance(s, ast.Assign) else s.target) == norm(kw.get('label'))]
        lab_ok = len(lab_defs) == 1 and norm(lab_defs[0]) == f'prefix + {gate_alias}.label'
        type_ok = norm(kw.get('gate_type')) == f'{gate_alias}.gate_type'
        ops = kw.get('operands')
        mapname = None
        ops_ok = False
        if isinstance(ops, ast.Call) and norm(ops.func) == 'tuple' and len(ops.args) == 1 and isinstance(ops.args[0], (ast.GeneratorExp, ast.ListComp)):
            g = ops.args[0]
            if len(g.generators) == 1 and not g.generators[0].ifs and norm(g.generators[0].iter) == f'{gate_alias}.operands' and isinstance(g.elt, ast.Subscript) \
                    and norm(g.elt.slice) == norm(g.generators[0].target):
                mapname = norm(g.elt.value)
                ops_ok = True
        ck.check(lab_ok and type_ok and ops_ok, 'C10.EMIT', m, e, 'an attached gate keeps its type, gets the prefixed label and its operands mapped element-wise in order',
                 f'label ok={lab_ok}, type ok={type_ok}, operands ok={ops_ok} in `{norm(e)[:160]}`', construct='connect_circuit: attached gate emission')
        # the map used for operands is the one seeded by the connector map and extended with every emitted label
        seeded = mapname is not None and norm(single_def(fn, mapname) or ast.Constant(None)) in ('copy.copy(mapping)', 'dict(mapping)', 'mapping.copy()')
        ext = any(isinstance(s, ast.Assign) and norm(s.targets[0]) == f'{mapname}[{gate_alias}.label]' and norm(s.value) == norm(kw.get('label')) for s in ast.walk(loop))
        ck.check(seeded and ext, 'C10.EMIT', m, loop, 'one label map (connector pairs + every emitted gate) is used for all operand references',
                 f'map `{mapname}` seeded from connector map: {seeded}; extended at emission: {ext}', construct='connect_circuit: label map maintenance')
        # prefix definition
        pre = [s for s in fn.body if isinstance(s, ast.If) and norm(s.test) == "name != '' and add_prefix"]
        ck.check(len(pre) == 1 and norm(pre[0].body[0]) == "prefix = name + '@'" and any(norm(s) == "prefix: str = ''" for s in fn.body), 'C10.EMIT', m, pre[0] if pre else fn,
                 'labels are prefixed with name@ exactly when a name is given and add_prefix is set', 'prefix rule changed', construct='connect_circuit: prefix rule')

        # ---- IFACE ----
        so = [c for c in calls_in(fn, 'set_outputs') if norm(c.func.value) == 'self' and m.enclosing_stmt(c) in fn.body]
        si = [c for c in calls_in(fn, 'set_inputs') if norm(c.func.value) == 'self' and m.enclosing_stmt(c) in fn.body]
        ck.need(len(so) == 1 and len(si) == 1, f'{m.rel}: connect_circuit must call set_outputs and set_inputs once at top level')
        parts = [_comp(x) for x in _concat_parts(so[0].args[0])]
        want_out = [('output', 'output', 'self._outputs', ['output not in this_connectors']),
                    (f'{mapname}[output]', 'output', 'other.outputs', ['output not in other_connectors'])]
        ck.check(_same_comps(parts, want_out), 'C10.IFACE', m, so[0],
                 'outputs = own outputs that are not base connectors, then mapped outputs of the attached circuit that are not attached connectors, both in order',
                 f'set_outputs argument is `{norm(so[0].args[0])[:200]}`', construct='connect_circuit: outputs composition')
        parts = [_comp(x) for x in _concat_parts(si[0].args[0])]
        saved = None
        if parts and parts[0]:
            saved = parts[0][2]
        saved_def = single_def(fn, saved) if saved else None
        saved_ok = saved_def is not None and norm(saved_def) in ('list(self._inputs)', 'list(self.inputs)', 'self._inputs.copy()', 'copy.copy(self._inputs)') \
            and [s.lineno for s in fn.body if isinstance(s, ast.Assign) and norm(s.targets[0]) == saved][0] < loop.lineno
        want_in = [('_input', '_input', saved, ['self._gates[_input].gate_type == gate.INPUT']),
                   (f'{mapname}[_input]', '_input', 'other.inputs', ['_input not in other_connectors'])]
        ck.check(saved_ok and _same_comps(parts, want_in), 'C10.IFACE', m, si[0],
                 'inputs = own inputs (order saved before attaching) that are still INPUT gates, then mapped inputs of the attached circuit that are not connectors',
                 f'saved order ok={saved_ok}; set_inputs argument is `{norm(si[0].args[0])[:220]}`', construct='connect_circuit: inputs composition')
        ck.floor('C10.IFACE', 2)

        # ---- direction validation ----
        ok_dir = False
        for s in fn.body:
            if isinstance(s, ast.If) and norm(s.test) == 'right_connect' and s.body and isinstance(s.body[0], ast.For) and s.orelse and isinstance(s.orelse[0], ast.For):
                a, b_ = s.body[0], s.orelse[0]
                ok_dir = norm(a.iter) == 'this_connectors' and 'self.get_gate' in norm(a) and 'gate.INPUT' in norm(a) and always_raises(a.body[0].body) \
                    and norm(b_.iter) == 'other_connectors' and 'other.get_gate' in norm(b_) and always_raises(b_.body[0].body)
        ck.check(ok_dir, 'C10.UNIQ', m, fn, 'the connectors that are replaced must be inputs (base inputs when right_connect, attached inputs otherwise)',
                 'direction-specific INPUT validation not found', construct='connect_circuit: connector INPUT validation')

        # ---- BLOCK ----
        blocks = [c for c in calls_in(fn) if isinstance(c.func, ast.Name) and c.func.id == 'Block']
        named = [c for c in blocks if any(k.arg == 'name' and norm(k.value) == 'name' for k in c.keywords)]
        ck.need(len(named) == 1, f'{m.rel}: construction of the named block not found')
        kw = {k.arg: k.value for k in named[0].keywords}
        gvar = norm(kw['gates'].args[0]) if isinstance(kw.get('gates'), ast.Call) and norm(kw['gates'].func) == 'list' else None
        ok = _comp(kw.get('inputs')) == (f'{mapname}[_input]', '_input', 'other.inputs', []) and _comp(kw.get('outputs')) == (f'{mapname}[_output]', '_output', 'other.outputs', []) and gvar is not None
        ck.check(ok, 'C10.BLOCK', m, named[0], 'the block lists the mapped inputs and outputs of the attached circuit in order',
                 f'block built as `{norm(named[0])[:200]}`', construct='connect_circuit: named block interface')
        # every store/emission of a non-INPUT attached gate adds its label to the block's gate set
        adds = [c for c in calls_in(loop, 'add') if norm(c.func.value) == gvar]
        sites = []  # (node, label_expr)
        sites.append((e, norm(kwargs_of(e, m.func('Circuit.emplace_gate')).get('label'))))
        for s in ast.walk(loop):
            if isinstance(s, ast.Assign) and isinstance(s.targets[0], ast.Subscript) and norm(s.targets[0].value) == 'self._gates':
                sites.append((s, norm(s.targets[0].slice)))
        for node, label in sites:
            st_, suite = _suite(m, node)
            hit = False
            for sib in suite:
                if isinstance(sib, ast.If) and norm(sib.test) == f'{gate_alias}.gate_type != gate.INPUT' and len(sib.body) == 1 and norm(sib.body[0]) == f'{gvar}.add({label})':
                    hit = True
            ck.check(hit, 'C10.BLOCK', m, node, 'every attached non-input gate (emitted or written over a base connector) joins the named block',
                     f'gate `{label}` is created here but `{gvar}.add({label})` under `gate_type != INPUT` is missing in the same suite: the block\'s outputs can name gates outside the block',
                     construct=f'connect_circuit: block membership of {label}')
        ck.floor('C10.BLOCK', 3)
        ck.floor('C10.EMIT', 5)

        # ---- WRAP ----
        cc = fn
        want = {
            'connect_left': {'other': 'other', 'this_connectors': 'this_connectors', 'other_connectors': 'other.inputs', 'right_connect': 'False'},
            'connect_right': {'other': 'other', 'this_connectors': 'self.inputs', 'other_connectors': 'other_connectors', 'right_connect': 'True'},
            'connect_inputs': {'other': 'other', 'this_connectors': 'self.inputs', 'other_connectors': 'other.inputs', 'right_connect': 'True'},
            'add_circuit': {'other': 'other', 'this_connectors': '[]', 'other_connectors': '[]', 'right_connect': 'False'},
            'extend_circuit': {'other': 'other', 'this_connectors': 'this_connectors', 'other_connectors': 'other_connectors', 'right_connect': 'right_connect'},
        }
        for name, w in want.items():
            wf = m.func(f'Circuit.{name}')
            calls = [c for c in calls_in(wf, 'connect_circuit')]
            ck.need(len(calls) == 1, f'{m.rel}: {name} must call connect_circuit once')
            got = {k: norm(v) for k, v in kwargs_of(calls[0], cc).items()}
            got.setdefault('right_connect', 'False')
            bad = {k: (got.get(k), v) for k, v in w.items() if got.get(k) != v}
            pass_through = got.get('name') == 'name' and got.get('add_prefix') == 'add_prefix'
            ck.check(not bad and pass_through, 'C10.WRAP', m, calls[0], f'{name} passes the documented connectors and direction',
                     f'differs from the documented call: {bad}; name/add_prefix passed through: {pass_through}', construct=f'{name} -> connect_circuit arguments')
        ex = m.func('Circuit.extend_circuit')
        d = {}
        for s in ex.body:
            if isinstance(s, ast.If) and len(s.body) == 1 and isinstance(s.body[0], ast.Assign):
                d[norm(s.test)] = norm(s.body[0])
        ck.check(d.get('this_connectors is None') == 'this_connectors = self.inputs if right_connect else self.outputs'
                 and d.get('other_connectors is None') == 'other_connectors = other.outputs if right_connect else other.inputs', 'C10.WRAP', m, ex,
                 'extend_circuit defaults: own outputs feed the attached inputs (left), attached outputs feed own inputs (right)', f'defaults are {d}', construct='extend_circuit defaults')
        ck.floor('C10.WRAP', 6)
        ck.rule('C10.IDX', 'the right_connect branch registers the connector gate as user of each of its operands, once per occurrence (shared with C02.IDX)')
        from .C02 import check_sites
        check_sites(ck, R='C10.IDX', only_function='Circuit.connect_circuit')
        ck.floor('C10.IDX', 1)

    ck.rule('C02.COPY', 'blocks and circuits own their lists: no store into Circuit state and no Block(...) argument aliases a caller-visible list, so a later composition cannot change an earlier block (shared with C02)')
    from .C02 import check_copy
    check_copy(ck, eff)
    ck.floor('C02.COPY', 15)
    ck.assume('repeated composition (a third circuit attached to a composed one) and compositions beyond the folded family are decided only through the structural clauses')


def _same_comps(parts, want):
    if len(parts) != len(want) or any(p is None for p in parts):
        return False
    for (elt, tgt, it, ifs), (welt, wtgt, wit, wifs) in zip(parts, want):
        ren = lambda s: s.replace(wtgt, tgt) if isinstance(s, str) else s  # noqa: E731
        if elt != ren(welt) or it != wit or ifs != [ren(i) for i in wifs]:
            return False
    return True


def _suite(m, node):
    st = m.enclosing_stmt(node)
    parent = m.parents[st]
    for field in ('body', 'orelse', 'finalbody'):
        suite = getattr(parent, field, None)
        if isinstance(suite, list) and st in suite:
            return st, suite
    return st, []
