"""C03 -- simplification passes preserve function, interface and their argument."""

from __future__ import annotations

import ast

from ..core import (
    AnalysisError, Checker, call_name, calls_in, deref, gate_const, is_name, norm, param_names, single_def,
    walk_no_nested,
)
from ..effects import Effects
from ..tables import Denotations
from .. import semantics

SIMPL = 'cirbo.minimization.simplification'
TRANSFORMER = 'cirbo.core.circuit.transformer'

PASSES = [
    (f'{SIMPL}.remove_redundant_gates', 'RemoveRedundantGates'),
    (f'{SIMPL}.merge_unary_operators', 'MergeUnaryOperators'),
    (f'{SIMPL}.merge_duplicate_gates', 'MergeDuplicateGates'),
    (f'{SIMPL}.merge_equivalent_gates', 'MergeEquivalentGates'),
]


def transformer_classes(repo):
    """All classes under cirbo/ deriving (textually) from Transformer, with their _transform."""
    out = []
    for m in repo.modules.values():
        for cname, cnode in m.classes.items():
            if '.' in cname:
                continue
            if any(norm(b).split('.')[-1] in ('Transformer', 'TransformerComposition') for b in cnode.bases) and f'{cname}._transform' in m.functions:
                out.append((m, cname, m.functions[f'{cname}._transform']))
    return out


def rebuild_functions(repo):
    """Functions that rebuild a circuit: each pass's _transform, following delegation to helpers
    that take the circuit as first argument (MergeEquivalentGates -> _replace_equivalent_gates)."""
    out = []
    for m, cname, fn in transformer_classes(repo):
        if cname == 'TransformerComposition':
            continue
        cparam = fn.args.args[1].arg
        rets = [n for n in walk_no_nested(fn) if isinstance(n, ast.Return) and n.value is not None]
        target = (m, fn, cparam, f'{cname}._transform')
        if len(rets) == 1 and isinstance(rets[0].value, ast.Call) and isinstance(rets[0].value.func, ast.Name):
            res = repo.resolve_expr(m, rets[0].value.func)
            if res and res[2] == 'function' and rets[0].value.args and is_name(rets[0].value.args[0], cparam):
                hm, hn = res[0], res[1]
                h = hm.func(hn)
                target = (hm, h, h.args.args[0].arg, hn)
        out.append((m, cname, fn, target))
    return out


def _new_circuit_var(fn):
    """Local bound once to `Circuit()` and returned."""
    for node in walk_no_nested(fn):
        if isinstance(node, (ast.Assign, ast.AnnAssign)):
            v = node.value
            t = node.targets[0] if isinstance(node, ast.Assign) else node.target
            if isinstance(t, ast.Name) and isinstance(v, ast.Call) and norm(v) == 'Circuit()':
                return t.id
    return None


def run(ck: Checker):
    repo = ck.repo
    eff = Effects(repo)
    den = Denotations(repo)
    ck.rule('C03.PURE', 'the circuit argument of every Transformer._transform, of the helpers they delegate to, of cleanup and of Transformer.apply_transformers/transform is never mutated (directly, through closures, exposers or callees)')
    ck.rule('C03.FRESH', 'every concrete pass returns a Circuit() allocated in that call')
    ck.rule('C03.IFACE', 'set_outputs receives circuit.outputs or an element-wise order-preserving image of it; set_inputs receives circuit.inputs (or, with a has-gate filter, a complement is re-added unless input removal was requested)')
    ck.rule('C03.EMIT', 'each rebuilt gate keeps label and type of the visited gate and its operands in order (possibly remapped element-wise); no label is invented')
    ck.rule('C03.SYM', 'duplicate signatures sort operands only under is_symmetric (flag soundness: C01.SEM-REG)')
    ck.rule('C03.UNARY', 'unary-operand getter and the two unary families agree with the operators')

    # ---- PURE ----
    pure_targets = []
    for m, cname, fn in transformer_classes(repo):
        pure_targets.append((m.name, f'{cname}._transform', fn.args.args[1].arg))
    for m, cname, fn, (hm, h, hp, hq) in rebuild_functions(repo):
        if h is not fn:
            pure_targets.append((hm.name, hq, hp))
    meg = repo.mod(f'{SIMPL}.merge_equivalent_gates')
    pure_targets.append((meg.name, '_find_equivalent_gates_groups', meg.func('_find_equivalent_gates_groups').args.args[0].arg))
    pure_targets.append((f'{SIMPL}.cleanup', 'cleanup', 'circuit'))
    pure_targets.append((TRANSFORMER, 'Transformer.apply_transformers', 'circuit'))
    pure_targets.append((TRANSFORMER, 'Transformer.transform', 'circuit'))
    seen = set()
    for modname, q, p in pure_targets:
        if (modname, q) in seen:
            continue
        seen.add((modname, q))
        fi = eff.lookup(modname, q)
        why = '; '.join(f'{w} at line {ln}: `{txt}`' for w, ln, txt in fi.reasons.get(p, [])[:3])
        ck.check(p not in fi.mutated, 'C03.PURE', fi.mod, fi.node, f'{q} does not modify its argument `{p}`',
                 f'argument may be modified: {why}', construct=f'{q}({p}) purity')
    # passes are stateless: _transform must not write the transformer object either (a reused pass object
    # would carry redirection tables from one circuit to the next)
    for m, cname, fn in transformer_classes(repo):
        fi = eff.lookup(m.name, f'{cname}._transform')
        why = '; '.join(f'{w} at line {ln}: `{txt}`' for w, ln, txt in fi.reasons.get('self', [])[:3])
        ck.check('self' not in fi.mutated, 'C03.PURE', m, fn, f'{cname}._transform keeps no state on the transformer object between calls',
                 f'the pass object is modified while transforming (state leaks into the next call on another circuit): {why}', construct=f'{cname}._transform stateless')
    ck.floor('C03.PURE', 14)

    ck.rule('C03.FOLD', 'each pass folded by the mini-evaluator over a family of model circuits (shapes named by the property + seeded random ones) with oracle traversals in two visiting orders: new circuit, argument untouched, same inputs, same outputs count and functions, well formed, not larger')
    from .. import passes
    passes.fold_passes(ck, 'C03.FOLD')
    ck.floor('C03.FOLD', 5)
    from .C18 import unary_chain_fold
    unary_chain_fold(ck, rule='C03.UNARY')
    # structural rules about the rebuild bookkeeping: they speak where they recognise the code; otherwise the clause is the fold's
    with ck.soft('C03.FOLD'):
        # ---- FRESH / IFACE / EMIT per pass ----
        for m, cname, fn, (hm, h, cparam, hq) in rebuild_functions(repo):
            new = _new_circuit_var(h)
            rets = [n for n in walk_no_nested(h) if isinstance(n, ast.Return) and n.value is not None]
            ck.check(new is not None and len(rets) >= 1 and all(is_name(r.value, new) for r in rets), 'C03.FRESH', hm, h,
                     f'{cname} returns a circuit allocated in this call', f'{hq} does not return a local `Circuit()`', construct=f'{hq} returns new Circuit()')
            if new is None:
                continue
            # IFACE
            so = [c for c in calls_in(h, 'set_outputs') if norm(c.func.value) == new]
            si = [c for c in calls_in(h, 'set_inputs') if norm(c.func.value) == new]
            ck.check(len(so) == 1 and _order_preserving_image(h, so[0].args[0] if so and so[0].args else None, f'{cparam}.outputs', allow_filter=False)[0],
                     'C03.IFACE', hm, so[0] if so else h, f'{cname}: outputs of the result are the argument\'s outputs, in order, mapped element-wise',
                     'set_outputs(...) missing or not an order-preserving element-wise image of circuit.outputs: ' + (norm(so[0])[:120] if so else 'no call'),
                     construct=f'{hq}: set_outputs')
            ok_in = False
            why = 'set_inputs(...) missing'
            if len(si) == 1 and si[0].args:
                ok_in, filt = _order_preserving_image(h, si[0].args[0], f'{cparam}.inputs', allow_filter=True, identity=True)
                why = f'`{norm(si[0])[:120]}` is not circuit.inputs in order'
                if ok_in and filt is not None:
                    ok_in, why = _filtered_inputs_ok(h, new, cparam, filt)
            ck.check(ok_in, 'C03.IFACE', hm, si[0] if si else h, f'{cname}: inputs of the result are the argument\'s inputs in the same order (minus unreachable ones only on request)',
                     why, construct=f'{hq}: set_inputs')
            # EMIT
            n_emit = 0
            for c in calls_in(h, 'emplace_gate'):
                if norm(c.func.value) != new:
                    continue
                n_emit += 1
                encl = hm.enclosing_function(c)
                gparam = encl.args.args[0].arg if encl is not h and encl.args.args else None
                kw = {k.arg: k.value for k in c.keywords}
                pos = c.args
                label = kw.get('label', pos[0] if pos else None)
                typ = kw.get('gate_type', pos[1] if len(pos) > 1 else None)
                ops = kw.get('operands', pos[2] if len(pos) > 2 else None)
                probs = []
                if gparam is None:
                    probs.append('gate emitted outside a traversal hook')
                else:
                    if label is None or norm(label) != f'{gparam}.label':
                        probs.append(f'label `{norm(label) if label is not None else None}` is not the visited gate\'s label')
                    if typ is None or norm(typ) != f'{gparam}.gate_type':
                        probs.append(f'type `{norm(typ) if typ is not None else None}` is not the visited gate\'s type')
                    od = deref(encl, ops) if ops is not None else None
                    if od is None or not _operands_image(od, gparam):
                        probs.append(f'operands `{norm(ops) if ops is not None else None}` are not the visited gate\'s operands in order (element-wise remapped)')
                ck.check(not probs, 'C03.EMIT', hm, c, f'{cname}: rebuilt gate keeps label, type and operand order', '; '.join(probs), construct=f'{hq}: emplace_gate')
            ck.need(n_emit >= 1, f'{hm.rel}: {hq} emits no gate (shape changed)')
            # other creation paths: add_inputs only
            for c in calls_in(h):
                if isinstance(c.func, ast.Attribute) and norm(c.func.value) == new and call_name(c) in ('add_gate', '_emplace_gate', '_add_gate', 'rename_gate', 'connect_circuit', 'add_circuit', 'extend_circuit'):
                    ck.bad('C03.EMIT', hm, c, f'{cname}: gates are created only by the checked emplace_gate/add_inputs of visited gates',
                           f'`{norm(c)[:100]}` creates or renames gates outside the audited shape', construct=f'{hq}: {call_name(c)}')
            for c in calls_in(h, 'add_inputs'):
                if norm(c.func.value) != new:
                    continue
                arg = c.args[0] if c.args else None
                encl = hm.enclosing_function(c)
                gparam = encl.args.args[0].arg if encl is not h and encl.args.args else None
                ok = False
                if isinstance(arg, ast.List) and len(arg.elts) == 1 and gparam and norm(arg.elts[0]) == f'{gparam}.label':
                    ok = True
                elif isinstance(arg, ast.ListComp) and len(arg.generators) == 1 and norm(arg.generators[0].iter) == f'{cparam}.inputs' and norm(arg.elt) == norm(arg.generators[0].target):
                    ok = True
                ck.check(ok, 'C03.EMIT', hm, c, f'{cname}: added inputs are labels of the argument\'s inputs', f'`{norm(c)[:120]}` adds inputs not drawn from the argument',
                         construct=f'{hq}: add_inputs')
    # input removal is the user's request only: the library itself never constructs the pass with it
    def _asks_removal(call):
        vals = [k.value for k in call.keywords if k.arg == 'allow_inputs_removal'] + list(call.args[:1])
        return any(not (isinstance(v, ast.Constant) and v.value is False) for v in vals) or any(k.arg is None for k in call.keywords)
    probe = ast.parse('RemoveRedundantGates(allow_inputs_removal=True)').body[0].value
    ck.need(_asks_removal(probe) and not _asks_removal(ast.parse('RemoveRedundantGates()').body[0].value), 'C03.IFACE probe for input-removal requests does not discriminate (checker defect)')
    n_sites = 0
    for m in repo.modules.values():
        for c in calls_in(m.tree, 'RemoveRedundantGates'):
            n_sites += 1
            ck.check(not _asks_removal(c), 'C03.IFACE', m, c, 'passes and pipelines of the library apply RemoveRedundantGates without input removal (inputs disappear only when the caller asked for it)',
                     f'`{norm(c)}` requests input removal inside the library: unreachable inputs vanish although the caller did not ask', construct=f'{norm(c.func)}(...) construction in {m.enclosing_function(c).name if m.enclosing_function(c) else "<module>"}')
    ck.need(n_sites >= 4, f'only {n_sites} RemoveRedundantGates constructions found (4 confirmed by reading)')
    with ck.soft('C03.FOLD'):
        ck.floor('C03.FRESH', 4)
        ck.floor('C03.IFACE', 12)
        ck.floor('C03.EMIT', 6)

        # ---- SYM ----
        mdg = repo.mod(f'{SIMPL}.merge_duplicate_gates')
        bs = mdg.func('MergeDuplicateGates._transform._build_signature')
        sorts = [n for n in ast.walk(bs) if isinstance(n, ast.Call) and call_name(n) == 'sorted']
        ok = bool(sorts)
        for s in sorts:
            st = mdg.enclosing_stmt(s)
            par = mdg.parents[st]
            tp_param = bs.args.args[0].arg
            ok = ok and isinstance(par, ast.If) and norm(par.test) == f'{tp_param}.is_symmetric' and st in par.body
        ck.check(ok, 'C03.SYM', mdg, bs, 'operands are sorted in the signature only for symmetric gate types',
                 'operand sorting is not guarded by `if _gate_type.is_symmetric`', construct='_build_signature sorting guard')
        op_param = bs.args.args[1].arg
        exact = bool(sorts) and all(len(s_.args) == 1 and not s_.keywords and norm(s_.args[0]) == op_param and isinstance(mdg.parents.get(s_), ast.Call)
                                   and norm(mdg.parents[s_].func) == 'tuple' for s_ in sorts)
        ck.check(exact, 'C03.SYM', mdg, sorts[0] if sorts else bs, 'the signature keeps the operand multiset (sorting only reorders: duplicates stay)',
                 f'`{norm(sorts[0]) if sorts else None}` does not sort exactly the operand tuple: XOR(a, b, a) and XOR(a, b) would share a signature', construct='_build_signature keeps the multiset')
        rets = [n for n in ast.walk(bs) if isinstance(n, ast.Return)]
        ck.check(len(rets) == 1 and norm(rets[0].value) == f'({bs.args.args[0].arg},) + {bs.args.args[1].arg}', 'C03.SYM', mdg, rets[0] if rets else bs,
                 'the signature contains the gate type and all operands', f'signature is `{norm(rets[0].value) if rets else None}`', construct='_build_signature value')

        # ---- UNARY ----
        mu = repo.mod(f'{SIMPL}.merge_unary_operators')
        d = mu.assign('_unary_to_operand_getter')
        ck.need(isinstance(d, ast.Dict), f'{mu.rel}: _unary_to_operand_getter is not a dict literal')
        proj = {}
        for t, (cls, f, _) in semantics.ORACLE.items():
            if cls in (semantics.FIX1, semantics.FIX2):
                n = cls[1]
                for k in range(n):
                    for neg in (False, True):
                        if all(bool(f(*xs)) == ((not xs[k]) if neg else xs[k]) for xs in semantics.bools(n)):
                            proj[t] = (k, neg)
        for k, v in zip(d.keys, d.values):
            t = gate_const(repo, mu, k)
            ck.need(t is not None and isinstance(v, ast.Call) and norm(v.func) == 'operator.itemgetter' and len(v.args) == 1 and isinstance(v.args[0], ast.Constant),
                    f'{mu.rel}: entry `{norm(k)}: {norm(v)}` of _unary_to_operand_getter not understood')
            idx = v.args[0].value
            ck.check(t in proj and proj[t][0] == idx, 'C03.UNARY', mu, k, f'{t} reads operand {idx}',
                     f'{t} is mapped to operand {idx} but its operator reads operand {proj.get(t, ("?",))[0]}', construct=f'_unary_to_operand_getter[{t}] = itemgetter({idx})')
        fn = mu.func('MergeUnaryOperators._transform')
        fams = []
        for node in ast.walk(fn):
            if isinstance(node, ast.If) and isinstance(node.test, ast.BoolOp) and isinstance(node.test.op, ast.Or):
                ts = []
                for v in node.test.values:
                    if isinstance(v, ast.Compare) and len(v.ops) == 1 and isinstance(v.ops[0], ast.Eq) and v.left.__class__ is ast.Attribute and v.left.attr == 'gate_type':
                        t = gate_const(repo, mu, v.comparators[0])
                        if t:
                            ts.append(t)
                if ts:
                    fams.append((node, frozenset(ts)))
        neg_types = frozenset(t for t, (k, neg) in proj.items() if neg)
        pos_types = frozenset(t for t, (k, neg) in proj.items() if not neg)
        ck.need(len(fams) >= 4, f'{mu.rel}: unary family tests not found (shape changed)')
        for node, ts in fams:
            ck.check(ts in (neg_types, pos_types), 'C03.UNARY', mu, node.test, 'a unary family test lists exactly the negation types or exactly the buffer types',
                     f'family {sorted(ts)} is neither {sorted(neg_types)} nor {sorted(pos_types)}', construct=f'unary family {sorted(ts)} at {mu.qualname_of(node)}')
        ck.floor('C03.UNARY', 10)
    ck.rule('C18.IDEM', 'pipelines skip a pass only if it is idempotent and equal to the one just applied (shared with C18): a requested input removal is never dropped')
    ck.rule('C18.PIPE', 'every way of running several passes (cleanup light / heavy, transform, apply_transformers, the pipe operator) folded over model circuits equals sequential application of the constituent passes (shared with C18): compositions and cleanup keep inputs, outputs and function because each constituent does (C03.FOLD)')
    passes.fold_pipelines(ck, 'C18.PIPE')
    from .C18 import idem_rules
    with ck.soft('C18.PIPE'):
        idem_rules(ck)
    ck.assume('parity bookkeeping of MergeUnaryOperators and representative choice of MergeEquivalentGates are not decided (truth-table equality itself)')
    ck.assume('dfs hooks fire once per reachable gate in post-order (C20)')


def _order_preserving_image(fn, arg, source, allow_filter, identity=False):
    """arg is `source`, list(map(f, source)), [f(x) for x in source] (no ifs unless allow_filter).
    Returns (ok, filter_expr_or_None)."""
    if arg is None:
        return False, None
    a = deref(fn, arg)
    if norm(a) == source:
        return True, None
    if isinstance(a, ast.Call) and norm(a.func) in ('list', 'tuple') and len(a.args) == 1:
        inner = a.args[0]
        if norm(inner) == source:
            return True, None
        if isinstance(inner, ast.Call) and norm(inner.func) == 'map' and len(inner.args) == 2 and norm(inner.args[1]) == source and not identity:
            return True, None
        a = inner
    if isinstance(a, (ast.ListComp, ast.GeneratorExp)) and len(a.generators) == 1:
        g = a.generators[0]
        if norm(g.iter) != source or not isinstance(g.target, ast.Name):
            return False, None
        if identity and norm(a.elt) != g.target.id:
            return False, None
        if not identity:
            # element must be a function of the loop variable only: f(x) or x
            names = {n.id for n in ast.walk(a.elt) if isinstance(n, ast.Name)}
            if g.target.id not in names:
                return False, None
        if g.ifs:
            if not allow_filter or len(g.ifs) != 1:
                return False, None
            return True, g.ifs[0]
        return True, None
    return False, None


def _filtered_inputs_ok(fn, new, cparam, filt):
    """Filtered set_inputs: filter must be membership in the new circuit, and missing inputs are
    re-added under `not self._allow_inputs_removal`."""
    f = norm(filt)
    if not (f.endswith(f' in {new}.inputs') or f == f'{new}.has_gate({f.split("(")[-1].rstrip(")")})'):
        return False, f'inputs are filtered by `{f}`, not by presence in the rebuilt circuit'
    for node in ast.walk(fn):
        if isinstance(node, ast.If) and norm(node.test) == 'not self._allow_inputs_removal':
            for c in calls_in(node, 'add_inputs'):
                arg = c.args[0] if c.args else None
                if isinstance(arg, ast.ListComp) and len(arg.generators) == 1:
                    g = arg.generators[0]
                    if norm(g.iter) == f'{cparam}.inputs' and norm(arg.elt) == norm(g.target) and len(g.ifs) == 1 \
                            and norm(g.ifs[0]) in (f'not {new}.has_gate({norm(g.target)})', f'{norm(g.target)} not in {new}.inputs', f'{norm(g.target)} not in {new}.gates'):
                        return True, ''
    return False, 'unreached inputs are dropped but never re-added under `not self._allow_inputs_removal`'


def _operands_image(od, gparam):
    n = norm(od)
    if n == f'{gparam}.operands':
        return True
    if isinstance(od, ast.Call) and norm(od.func) == 'tuple' and len(od.args) == 1:
        inner = od.args[0]
        if isinstance(inner, ast.Call) and norm(inner.func) == 'map' and len(inner.args) == 2 and norm(inner.args[1]) == f'{gparam}.operands':
            return True
        if isinstance(inner, (ast.GeneratorExp, ast.ListComp)) and len(inner.generators) == 1 and not inner.generators[0].ifs \
                and norm(inner.generators[0].iter) == f'{gparam}.operands':
            return True
    return False
