"""C19 -- local rewrites keep or specialise the function exactly as documented."""

from __future__ import annotations

import ast

from ..core import Checker, always_raises, call_name, calls_in, norm, walk_no_nested
from ..tables import Denotations
from .. import semantics
from .C02 import fold_primitives, _validators_before, _first_write_line_node, CIRCUIT
from ..effects import Effects


def run(ck: Checker):
    repo = ck.repo
    den = Denotations(repo)
    m = repo.mod(CIRCUIT)
    ck.rule('C19.RENAME', 'rename_gate folded over model states: the result equals the old state with the label substituted in gate map, operand tuples, users index (keys and members), inputs, all output occurrences and all three lists of every block; refused renames leave the state untouched')
    ck.rule('C19.INPUTS', 'replace_inputs folded over model states: to_true inputs become ALWAYS_TRUE, to_false ALWAYS_FALSE (operators constant True/False), removed from the input list keeping the order of the rest; non-inputs refused')
    ck.rule('C19.SUBC', 'replace_subcircuit raises ReplaceSubcircuitError/validation errors on each documented precondition before the first mutation; external users and outputs are saved before the block is removed and restored after re-insertion; exit through the cycle check')
    ck.rule('C19.REMOVE', 'remove_gate validates existence and absence of users before _remove_gate, which drops the label from outputs, inputs, index and blocks')

    ck.rule('C19.HIST', 'rename_gate, replace_inputs, replace_subcircuit (equivalent replacements of several shapes, label clashes, missing outputs) and remove_gate inside seeded histories of public mutations folded on instances of the repository\'s Circuit class: well-formed circuit after every call that returns, truth table kept by rename / replace_subcircuit, remaining inputs in order after replace_inputs, a removed gate leaves the outputs (shared with C02.HIST)')
    from .. import history_fold
    history_fold.fold_histories(ck, 'C19.HIST')
    history_fold.fold_replace_cases(ck, 'C19.SUBC')
    ck.floor('C19.HIST', 12)
    fold_primitives(ck, den, R='C19.RENAME', which=('rename', 'block'))
    ck.floor('C19.RENAME', 10)
    fold_primitives(ck, den, R='C19.INPUTS', which=('replace_inputs',))
    # the constants really are constant
    for tname, want in (('ALWAYS_TRUE', True), ('ALWAYS_FALSE', False)):
        t = den.types[tname]
        vals = {den.eval_op(t._operator, xs) for n in (0, 1, 2) for xs in semantics.bools(n)}
        ck.check(vals == {want}, 'C19.INPUTS', den.ops, den.op_func(t._operator), f'{tname} evaluates to {want} whatever its operands',
                 f'{t._operator} yields {vals}', construct=f'{t._operator} is constant {want}')
    ck.floor('C19.INPUTS', 7)
    fold_primitives(ck, den, R='C19.REMOVE', which=('remove',))
    eff = Effects(repo)
    muts = eff.mutators(CIRCUIT, 'Circuit')
    private = {n for n in muts if n.startswith('_') and not n.startswith('__')}
    # remove_gate refuses a missing gate / a gate with users: folded
    from .. import circuit_model as _cm
    Mh = fold_primitives(ck, den, R='C19.REMOVE', which=())
    for victim, want in (('nope', 'raise'), ('g1', 'raise'), ('g4', None)):
        c = Mh.new_circuit(_cm.BASE_SPEC, _cm.BASE_OUTPUTS, _cm.BASE_BLOCKS)
        pre = _cm.snapshot(c)
        _, err = Mh.call(c, 'remove_gate', victim)
        good = (bool(err) and _cm.snapshot(c) == pre) if want else (not err and victim not in c._d['_gates'] and victim not in c._d['_outputs'] and not _cm.invariant_problems(c))
        ck.check(good, 'C19.REMOVE', m, m.func('Circuit.remove_gate'), f'remove_gate({victim!r}) ' + ('is refused without touching the circuit' if want else 'removes the unused gate from the gate map and the outputs'),
                 f'{err or "returned normally"}; state {"unchanged" if _cm.snapshot(c) == pre else "changed"}', construct=f'remove_gate({victim}) folded')
    with ck.soft('C19.HIST / the folds above'):
        rg = m.func('Circuit.remove_gate')
        have = _validators_before(rg, rg.args.args[1].arg, _first_write_line_node(rg, private), private)
        ck.check({'exists', 'nousers'} <= have, 'C19.REMOVE', m, rg, 'remove_gate refuses a missing gate and a gate that still has users',
                 f'validations before _remove_gate: {sorted(have)}', construct='remove_gate validation')
        rets = [n for n in ast.walk(rg) if isinstance(n, ast.Return)]
        ck.check(len(rets) == 1 and norm(rets[0].value) == f'self._remove_gate({rg.args.args[1].arg})', 'C19.REMOVE', m, rg,
                 'remove_gate removes exactly the validated gate', f'returns `{norm(rets[0].value) if rets else None}`', construct='remove_gate delegation')
    ck.floor('C19.REMOVE', 7)

    with ck.soft('C19.HIST (replace_subcircuit inside folded histories)'):
        subc_rules(ck, private)
    ck.assume('truth-table preservation of replace_subcircuit (functional equivalence of the replacement) is not decided')


def subc_rules(ck: Checker, private=None, R='C19.SUBC'):
    repo = ck.repo
    m = repo.mod(CIRCUIT)
    if private is None:
        eff = Effects(repo)
        muts = eff.mutators(CIRCUIT, 'Circuit')
        private = {n for n in muts if n.startswith('_') and not n.startswith('__')}
    fn = m.func('Circuit.replace_subcircuit')
    sub, im, om = (a.arg for a in fn.args.args[1:4])
    first_mut = _first_write_line_node(fn, private | {'rename_gate', 'make_block_from_slice', 'add_gate'})
    calls = sorted((c.lineno, call_name(c)) for c in calls_in(fn) if isinstance(c.func, ast.Attribute) and norm(c.func.value) == 'self'
                   and call_name(c) in ('rename_gate', 'make_block_from_slice', '_remove_block', 'add_gate', 'make_block'))
    ck.need(calls, f'{m.rel}: replace_subcircuit performs no mutation (shape changed)')
    first_mut = calls[0][0]
    pre = [s for s in fn.body if s.lineno < first_mut]
    src_pre = [norm(s) for s in pre]

    def has(pred):
        return any(pred(s) for s in pre)

    overlap = has(lambda s: isinstance(s, ast.If) and always_raises(s.body) and 'ReplaceSubcircuitError' in norm(s.body[-1])
                  and norm(s.test) == f'len({im}) + len({om}) != len({im} | {om})')
    ck.check(overlap, R, m, fn, 'a gate that is both a mapped input and a mapped output is rejected', 'overlap test missing before the first mutation', construct='replace_subcircuit: overlap precondition')
    for what, txt in (('mapped inputs exist in the circuit', f'check_gates_exist(list({im}.keys()), self)'),
                      ('mapped outputs exist in the circuit', f'check_gates_exist(list({om}.keys()), self)'),
                      ('mapped outputs exist in the new subcircuit', f'check_gates_exist(list({om}.values()), {sub})')):
        ck.check(txt in src_pre, R, m, fn, f'{what} (validated before the first mutation)', f'`{txt}` not found before line {first_mut}', construct=f'replace_subcircuit: {txt}')
    inp_type = has(lambda s: isinstance(s, ast.For) and norm(s.iter) == f'{im}.values()' and any(
        isinstance(x, ast.If) and always_raises(x.body) and norm(x.test) == f'{sub}.get_gate({norm(s.target)}).gate_type != gate.INPUT' for x in s.body))
    ck.check(inp_type, R, m, fn, 'every mapped subcircuit input must be an INPUT of the new subcircuit', 'precondition missing', construct='replace_subcircuit: mapped inputs are INPUT')
    inp_all = has(lambda s: isinstance(s, ast.For) and norm(s.iter) == f'{sub}.inputs' and any(
        isinstance(x, ast.If) and always_raises(x.body) and norm(x.test) == f'{norm(s.target)} not in {im}.values()' for x in s.body))
    ck.check(inp_all, R, m, fn, 'every input of the new subcircuit must be mapped', 'precondition missing', construct='replace_subcircuit: all subcircuit inputs mapped')
    # outputs of the circuit inside the removed block must be mapped outputs
    out_chk = any(isinstance(s, ast.For) and norm(s.iter) in ('self.outputs', 'self._outputs') and any(
        isinstance(x, ast.If) and always_raises(x.body) and 'ReplaceSubcircuitError' in norm(x.body[-1]) for x in s.body) for s in fn.body)
    ck.check(out_chk, R, m, fn, 'a circuit output inside the removed part that is not a mapped output is rejected', 'check missing', construct='replace_subcircuit: unmapped output inside block')
    # ordering of save / guard / remove / re-add / restore
    def line_of(pred):
        ls = [n.lineno for n in ast.walk(fn) if pred(n)]
        return min(ls) if ls else None

    l_save_users = line_of(lambda n: isinstance(n, ast.Call) and norm(n).startswith('copy_outputs_users[') and call_name(n) == 'append')
    l_save_outs = line_of(lambda n: isinstance(n, ast.Call) and norm(n) == 'copy_outputs.append(output)')
    l_guard = line_of(lambda n: isinstance(n, ast.Call) and call_name(n) == 'check_block_has_no_users')
    l_remove = line_of(lambda n: isinstance(n, ast.Call) and call_name(n) == '_remove_block')
    l_add = line_of(lambda n: isinstance(n, ast.Call) and call_name(n) == 'add_gate' and norm(n.func.value) == 'self')
    l_rest_outs = line_of(lambda n: isinstance(n, ast.Assign) and norm(n.targets[0]) == 'self._outputs' and norm(n.value) == 'copy_outputs')
    l_rest_users = line_of(lambda n: isinstance(n, ast.For) and norm(n.iter) == 'copy_outputs_users.items()')
    l_cycle = line_of(lambda n: isinstance(n, ast.Call) and norm(n) == 'check_circuit_has_no_cycles(self)')
    seq = [l_save_outs, l_save_users, l_guard, l_remove, l_add, l_rest_outs, l_rest_users, l_cycle]
    ck.check(all(x is not None for x in seq) and max(l_save_outs, l_save_users, l_guard) < l_remove < l_add < min(l_rest_outs, l_rest_users) and max(l_rest_outs, l_rest_users) < l_cycle,
             R, m, fn, 'outputs and external users are saved and the no-foreign-users guard runs before the block is removed; gates are re-added, then outputs and users are restored, then the cycle check runs',
             f'statement order (save outs, save users, guard, remove, add, restore outs, restore users, cycle check) = {seq}', construct='replace_subcircuit: save / remove / re-add / restore order')
    g = [c for c in calls_in(fn, 'check_block_has_no_users')]
    kw = {k.arg: norm(k.value) for k in g[0].keywords} if g else {}
    ck.check(kw.get('exclusion_gates') == f'set({om}.values())' and kw.get('circuit') == 'self', R, m, g[0] if g else fn,
             'only mapped outputs may have users outside the removed part', f'guard arguments {kw}', construct='replace_subcircuit: foreign users guard')
    readd = [n for n in ast.walk(fn) if isinstance(n, ast.For) and norm(n.iter) == f'{sub}.top_sort(inverse=True)']
    ok = len(readd) == 1 and len(readd[0].body) == 1 and isinstance(readd[0].body[0], ast.If) and \
        norm(readd[0].body[0].test) == f'{norm(readd[0].target)}.label not in {im}.values()' and norm(readd[0].body[0].body[0]) == f'self.add_gate({norm(readd[0].target)})'
    ck.check(ok, R, m, readd[0] if readd else fn, 'every non-input gate of the new subcircuit is added through the validated add_gate in dependency order',
             'shape changed', construct='replace_subcircuit: re-insertion loop')
    rets = [n for n in walk_no_nested(fn) if isinstance(n, ast.Return)]
    ck.check(len(rets) == 1 and fn.body[-1] is rets[0] and l_cycle is not None and fn.body[-2].lineno == l_cycle, R, m, fn,
             'the only normal exit follows the cycle check', 'another exit bypasses check_circuit_has_no_cycles', construct='replace_subcircuit: exit')
    ck.floor(R, 11)
    from .C02 import check_sites
    check_sites(ck, R=R, only_function='Circuit.replace_subcircuit')
