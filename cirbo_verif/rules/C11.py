"""C11 -- bench text round-trips and the parser is faithful (line-level folding + shape rules)."""

from __future__ import annotations

import ast
import itertools

from ..core import AnalysisError, Checker, call_name, calls_in, gate_const, norm, GATE_NAMES
from ..interp import Host, Instance, Interp, InterpRaise, RepoClass, RepoFunc
from ..rewrites import FakeCircuit
from ..tables import Denotations, GateTypeVal, gate_overrides
from .. import semantics

BENCH = 'cirbo.core.parser.bench'
ABSTRACT = 'cirbo.core.parser.abstract'
GATE_MOD = 'cirbo.core.circuit.gate'
CIRCUIT = 'cirbo.core.circuit.circuit'


class Reader:
    """BenchToCircuit instance folded by the mini-evaluator, writing into a recording circuit."""

    def __init__(self, repo, den):
        self.repo = repo
        ov = gate_overrides(den)
        self.types = {t.var: t for t in ov.values() if isinstance(t, GateTypeVal)}
        self.interp = Interp(repo, overrides=ov)
        self.mod = repo.mod(BENCH)
        self.gate_mod = repo.mod(GATE_MOD)
        self.cls = RepoClass(self.mod, self.mod.cls('BenchToCircuit'))
        self.gate_cls = RepoClass(self.gate_mod, self.gate_mod.cls('Gate'))

    def fresh(self):
        inst = Instance(self.cls)
        # AbstractBenchParser.__init__ builds the dispatch table (base initialisers are stubs)
        RepoFunc(self.interp, self.mod, self.mod.func('AbstractBenchParser.__init__'), bound_self=inst)()
        inst._circuit = FakeCircuit(self.types['INPUT'])
        return inst

    def feed(self, inst, line):
        self.interp.steps = 0
        fn = self.mod.func('AbstractBenchParser._process_line')
        try:
            RepoFunc(self.interp, self.mod, fn, bound_self=inst)(line)
            return None
        except InterpRaise as e:
            return f'raise:{e.exc_name}'

    def printed(self, label, tname, operands):
        g = self.interp.instantiate(self.gate_cls, (label, self.types[tname], tuple(operands)))
        return RepoFunc(self.interp, self.gate_mod, self.gate_mod.func('Gate.format_gate'), bound_self=g)()


def adversarial_labels(repo):
    """Representatives of the partition of identifiers induced by the string literals the
    reader compares against (prefix / equality tests), plus a neutral label."""
    mod = repo.mod(BENCH)
    lits = set()
    for node in ast.walk(mod.tree):
        if isinstance(node, ast.Constant) and isinstance(node.value, str) and node.value.strip('( ').isalpha() and 2 <= len(node.value.strip('( ')) <= 12:
            lits.add(node.value.strip('( '))
    for t in GATE_NAMES:
        lits.add(t)
    labels = ['x7', 'G_12']
    for l in sorted(lits):
        w = l.upper()
        labels += [w, w.lower(), w.lower() + '_sum', w + '1']
    return list(dict.fromkeys(labels))


def run(ck: Checker):
    repo = ck.repo
    den = Denotations(repo)
    R = Reader(repo, den)
    mod = R.mod
    ck.rule('C11.NAMES', 'every keyword the printer emits is a key of the reader\'s dispatch table whose handler builds that same type (IFF prints BUFF); keys are upper case; BUFF/VDD aliases')
    ck.rule('C11.HANDLER', 'each handler passes its operands in parameter order; its arity class admits every legal arity of the type')
    ck.rule('C11.CLASSIFY', 'printer and reader folded line by line: for every gate type, every legal arity and every label class induced by the reader\'s literal tests, the printed line is routed to the right handler and yields the same label, type and operands; declarations, blank lines, comments, lower-case operators and the vdd alias are read as documented')
    ck.rule('C11.PRINT', 'format_circuit lists inputs in order, every non-input gate, outputs in order; save_to_file writes exactly that; both from_bench_* use BenchToCircuit; the reader tolerates use before definition and checks operands at end of file')

    labels = adversarial_labels(repo)
    ck.notes['label_classes'] = labels
    # ---- NAMES / HANDLER via the dispatch table built by __init__ ----
    inst = R.fresh()
    table = inst._d.get('_processings')
    ck.need(isinstance(table, dict) and len(table) >= 19, f'{mod.rel}: dispatch table _processings not built by AbstractBenchParser.__init__')
    init = mod.func('AbstractBenchParser.__init__')
    for key in table:
        ck.check(isinstance(key, str) and key == key.upper(), 'C11.NAMES', mod, init, f'dispatch key {key!r} is upper case (the reader upper-cases operator tokens)',
                 f'key {key!r} can never match an upper-cased operator token', construct=f'_processings key {key}')
    for tname in GATE_NAMES:
        if tname == 'INPUT':
            continue
        n = semantics.arities(tname, 3)[-1] if semantics.ORACLE[tname][0] != semantics.ANY else 0
        line = R.printed('g', tname, ['a', 'b', 'c'][:n])
        kwd = line.split('=')[1].strip().split('(')[0]
        ck.check(kwd in table, 'C11.NAMES', R.gate_mod, R.gate_mod.func('Gate.format_gate'), f'printed keyword of {tname} ({kwd}) is known to the reader',
                 f'format_gate prints `{kwd}` for {tname} but the reader has no such operator', construct=f'format_gate keyword of {tname}')
    for alias, want in (('BUFF', 'IFF'), ('VDD', 'ALWAYS_TRUE'), ('IFF', 'IFF'), ('ALWAYS_TRUE', 'ALWAYS_TRUE')):
        ck.check(alias in table, 'C11.NAMES', mod, init, f'alias {alias} is accepted', f'{alias} missing from the dispatch table', construct=f'_processings alias {alias}')
    ck.floor('C11.NAMES', 38)

    # ---- CLASSIFY: fold printer -> reader per line ----
    n_lines = 0
    for tname in GATE_NAMES:
        if tname == 'INPUT':
            continue
        for n in semantics.arities(tname, 4):
            if semantics.ORACLE[tname][0] == semantics.ANY and n > 0:
                continue
            probs = []
            for lab in labels:
                ops = [labels[(labels.index(lab) + 1 + i) % len(labels)] for i in range(n)]
                if n >= 2:
                    ops[-1] = ops[0]  # duplicated operand
                line = R.printed(lab, tname, ops)
                inst = R.fresh()
                err = R.feed(inst, line + '\n')
                n_lines += 1
                c = inst._d['_circuit']
                got = {l: (g.gate_type.var, tuple(g.operands)) for l, g in c._gates.items()}
                want = {lab: (tname, tuple(ops))}
                if err or got != want or c._inputs or c._outputs:
                    probs.append(f'line {line!r} read as {err or got} (inputs {c._inputs}, outputs {c._outputs})')
            h = mod.func('AbstractBenchParser._process_line')
            ck.check(not probs, 'C11.CLASSIFY', mod, h, f'{tname}/{n}: printed definition lines are read back as the same gate for every label class',
                     '; '.join(probs[:2]) + (f' (+{len(probs) - 2} more labels)' if len(probs) > 2 else ''), construct=f'round trip of {tname}/{n} lines')
    # declarations
    for kind, fmt in (('input', 'INPUT({})'), ('output', 'OUTPUT({})'), ('input-lower', 'input({})'), ('output-lower', 'output({})')):
        probs = []
        for lab in labels:
            for nl in ('\n', ''):
                inst = R.fresh()
                err = R.feed(inst, fmt.format(lab) + nl)
                n_lines += 1
                c = inst._d['_circuit']
                if kind.startswith('input'):
                    ok = not err and c._inputs == [lab] and list(c._gates) == [lab] and c._gates[lab].gate_type.var == 'INPUT' and not c._outputs
                else:
                    ok = not err and c._outputs == [lab] and not c._gates
                if not ok:
                    probs.append(f'{fmt.format(lab)!r} -> {err or (c._inputs, c._outputs, list(c._gates))}')
        ck.check(not probs, 'C11.CLASSIFY', mod, mod.func(f'BenchToCircuit._process_{"input" if kind.startswith("input") else "output"}_gate'),
                 f'{kind} declarations recover exactly the label', '; '.join(probs[:3]), construct=f'{kind} declaration lines')
    # neutral lines
    probs = []
    for line in ('', '\n', '# INPUT(x)\n', '#\n', '# a = AND(b, c)'):
        inst = R.fresh()
        err = R.feed(inst, line)
        c = inst._d['_circuit']
        if err or c._gates or c._outputs:
            probs.append(f'{line!r} -> {err or list(c._gates)}')
    ck.check(not probs, 'C11.CLASSIFY', mod, mod.func('AbstractBenchParser._process_line'), 'blank lines and comments produce nothing', '; '.join(probs), construct='blank and comment lines')
    # third-party spellings: lower-case operators, no spaces, vdd alias, BUFF
    forms = [
        ('g = and(a, b)\n', {'g': ('AND', ('a', 'b'))}), ('g=AND(a,b)\n', {'g': ('AND', ('a', 'b'))}), ('g = Nor( a , b , c )\n', {'g': ('NOR', ('a', 'b', 'c'))}),
        ('g = vdd\n', {'g': ('ALWAYS_TRUE', ())}), ('g = VDD\n', {'g': ('ALWAYS_TRUE', ())}), ('g = buff(a)\n', {'g': ('IFF', ('a',))}), ('g = BUFF(a)', {'g': ('IFF', ('a',))}),
        ('g = not(a)\n', {'g': ('NOT', ('a',))}), ('g = xor(a, b, c)\n', {'g': ('XOR', ('a', 'b', 'c'))}), ('g = gt(a, b)\n', {'g': ('GT', ('a', 'b'))}),
        ('g = always_false()\n', {'g': ('ALWAYS_FALSE', ())}), ('vdd_rail = AND(a, b)\n', {'vdd_rail': ('AND', ('a', 'b'))}),
    ]
    for line, want in forms:
        inst = R.fresh()
        err = R.feed(inst, line)
        c = inst._d['_circuit']
        got = {l: (g.gate_type.var, tuple(g.operands)) for l, g in c._gates.items()}
        ck.check(not err and got == want, 'C11.CLASSIFY', mod, mod.func('AbstractBenchParser._process_operator_gate'), f'{line.strip()!r} denotes {want}',
                 f'read as {err or got}', construct=f'line form {line.strip()!r}')
    probs = []
    for line in ('g = FROB(a, b)\n', 'g AND(a, b)\n'):
        inst = R.fresh()
        err = R.feed(inst, line)
        if err != 'raise:ValueError':
            probs.append(f'{line!r} -> {err}')
    ck.check(not probs, 'C11.CLASSIFY', mod, mod.func('AbstractBenchParser._process_operator_gate'), 'unknown operators and lines without `=` are rejected with ValueError', '; '.join(probs), construct='malformed operator lines')
    ck.notes['lines_folded'] = n_lines
    ck.floor('C11.CLASSIFY', 45)

    # ---- HANDLER signatures admit every legal arity ----
    cls = mod.cls('BenchToCircuit')
    for tname in GATE_NAMES:
        if tname == 'INPUT':
            continue
        h = table.get('BUFF' if tname == 'IFF' else tname)
        if not isinstance(h, RepoFunc):
            continue
        a = h.node.args
        npos = len(a.args) - 2  # self, out
        legal = semantics.arities(tname, 5)
        if semantics.ORACLE[tname][0] == semantics.ANY:
            legal = [0]
        okk = all((n == npos) or (a.vararg is not None and n >= npos) for n in legal)
        ck.check(okk, 'C11.HANDLER', h.mod, h.node, f'handler of {tname} accepts every legal operand count {legal}', f'signature ({", ".join(x.arg for x in a.args)}{", *" + a.vararg.arg if a.vararg else ""}) rejects some of {legal}',
                 construct=f'{h.node.name} arity for {tname}')
    ck.floor('C11.HANDLER', 18)

    ck.rule('C11.RT', 'format_circuit then from_bench_string folded on model circuits built from the repository\'s own Gate and Circuit classes (all gate types, n-ary gates, constants with operands, repeated and input outputs, users-first storage, unusual labels): the circuit read back has the same inputs and outputs in order and the same gates, and is well formed')
    from .. import eval_fold
    eval_fold.fold_bench_round_trip(ck, 'C11.RT')
    with ck.soft('C11.RT (printer and reader folded as a round trip)'):
        # ---- PRINT ----
        cm = repo.mod(CIRCUIT)
        fc = cm.func('Circuit.format_circuit')
        src = norm(fc)
        ok = "'\\n'.join((f'INPUT({input_label})' for input_label in self._inputs))" in src and "'\\n'.join((f'OUTPUT({output_label})' for output_label in self._outputs))" in src \
            and "'\\n'.join((_gate.format_gate() for _gate in self._gates.values() if _gate.gate_type != gate.INPUT))" in src and "return f'{input_str}\\n\\n{gates_str}\\n\\n{output_str}'" in src
        ck.check(ok, 'C11.PRINT', cm, fc, 'the text lists inputs in input order, every non-input gate once, outputs in output order (duplicates kept), one per line',
                 'format_circuit changed shape', construct='format_circuit body')
        sf = cm.func('Circuit.save_to_file')
        ck.check('p.write_text(self.format_circuit())' in norm(sf), 'C11.PRINT', cm, sf, 'the saved file is exactly the formatted text', 'save_to_file does not write format_circuit()', construct='save_to_file body')
        for name in ('from_bench_file', 'from_bench_string'):
            f = cm.func(f'Circuit.{name}')
            s = norm(f)
            ck.check('_parser = BenchToCircuit()' in s and 'return _parser.convert_to_circuit(' in s, 'C11.PRINT', cm, f, f'{name} reads through a fresh BenchToCircuit', 'shape changed', construct=f'{name} body')
        ab = repo.mod(ABSTRACT)
        cv = ab.func('AbstractParser.convert')
        loops = [n for n in ast.walk(cv) if isinstance(n, ast.For)]
        ok = len(loops) == 1 and norm(loops[0].iter) == cv.args.args[1].arg and [norm(s) for s in loops[0].body] == [f'yield from self._process_line({norm(loops[0].target)})'] \
            and any(norm(s) == 'yield from self._eof()' for s in cv.body if s.lineno > loops[0].lineno)
        ck.check(ok, 'C11.PRINT', ab, cv, 'every line of the stream is processed in order, then the end-of-file check runs', 'convert changed shape', construct='AbstractParser.convert')
        ctc = mod.func('BenchToCircuit.convert_to_circuit')
        ck.check('for _ in self.convert(' in norm(ctc) and norm(ctc.body[-1]) == 'return self._circuit', 'C11.PRINT', mod, ctc, 'the lazy parse is fully consumed before the circuit is returned', 'shape changed', construct='convert_to_circuit')
        eof = mod.func('BenchToCircuit._eof')
        ck.check('for gate in self._circuit.gates.values(): check_gates_exist(gate.operands, self._circuit)' in norm(eof).replace('\n', ' ').replace('    ', ''), 'C11.PRINT', mod, eof,
                 'operands are checked once all lines were read (use before definition is legal)', 'end-of-file operand check missing', construct='_eof operand check')
        ag = mod.func('BenchToCircuit._add_gate')
        calls = [c for c in calls_in(ag, '_emplace_gate')]
        ok = len(calls) == 1 and {k.arg: norm(k.value) for k in calls[0].keywords} == {'label': ag.args.args[1].arg, 'gate_type': ag.args.args[2].arg, 'operands': f'(*{ag.args.vararg.arg},)'}
        ck.check(ok, 'C11.PRINT', mod, ag, 'gates are created through the unchecked constructor with operands in the order read', f'`{norm(calls[0]) if calls else None}`', construct='BenchToCircuit._add_gate')
        ck.floor('C11.PRINT', 8)
    ck.assume('labels are bench identifiers: no space, bracket, comma, `=`, `#` or newline; layouts outside the enumerated line forms (leading blanks, `INPUT (x)`, CRLF) are not decided')
    ck.assume('Circuit._emplace_gate keeps the users index (C02.IDX) -- modelled by rewrites.FakeCircuit._emplace_gate')
