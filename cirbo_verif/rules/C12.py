"""C12 -- all function representations answer every protocol query alike (structural clauses)."""

from __future__ import annotations

import ast
import itertools

from ..core import AnalysisError, Checker, body_without_doc, call_name, calls_in, is_self_attr, norm, walk_no_nested
from ..interp import Interp, InterpRaise, RepoFunc

BF = 'cirbo.core.boolean_function'
TT = 'cirbo.core.truth_table'
PF = 'cirbo.core.python_function'
CIRCUIT = 'cirbo.core.circuit.circuit'
UTILS = 'cirbo.core.utils'

IMPLS = [(CIRCUIT, 'Circuit'), (TT, 'TruthTable'), (PF, 'PyFunction')]
MODELS = [(TT, 'TruthTableModel'), (PF, 'PyFunctionModel')]


def _methods(mod, cname):
    c = mod.cls(cname)
    return {n.name: n for n in c.body if isinstance(n, ast.FunctionDef)}


def _sig(fn):
    a = fn.args
    pos = [p.arg for p in a.posonlyargs + a.args]
    dflt = [None] * (len(pos) - len(a.defaults)) + [norm(d) for d in a.defaults]
    kwo = [(p.arg, norm(d) if d is not None else None) for p, d in zip(a.kwonlyargs, a.kw_defaults)]
    return list(zip(pos, dflt)), kwo, a.vararg is not None, a.kwarg is not None


def _abstract(fn):
    return not body_without_doc(fn)


def upward_exposed_carried(loop: ast.For) -> set[str]:
    """Variables written in the loop body that are read, on some path through one iteration,
    before any write of that iteration (so the value of the previous iteration reaches the read)."""
    written = set()
    for n in ast.walk(ast.Module(body=loop.body, type_ignores=[])):
        if isinstance(n, (ast.Assign, ast.AugAssign, ast.AnnAssign)):
            ts = n.targets if isinstance(n, ast.Assign) else [n.target]
            for t in ts:
                for x in ast.walk(t):
                    if isinstance(x, ast.Name) and isinstance(x.ctx, ast.Store):
                        written.add(x.id)
                    elif isinstance(x, ast.Subscript) and isinstance(x.ctx, ast.Store) and isinstance(x.value, ast.Name):
                        written.add(x.value.id)
    # targets of the loop itself and of nested loops are fresh each iteration
    fresh_targets = {x.id for x in ast.walk(loop.target) if isinstance(x, ast.Name)}
    exposed = set()

    def reads(expr):
        return {x.id for x in ast.walk(expr) if isinstance(x, ast.Name) and isinstance(x.ctx, ast.Load)}

    def block(stmts, assigned: frozenset) -> frozenset:
        for st in stmts:
            assigned = stmt(st, assigned)
        return assigned

    def stmt(st, assigned):
        if isinstance(st, (ast.Assign, ast.AnnAssign, ast.AugAssign)):
            val = st.value
            rd = reads(val) if val is not None else set()
            ts = st.targets if isinstance(st, ast.Assign) else [st.target]
            new = set()
            for t in ts:
                if isinstance(t, ast.Name):
                    if isinstance(st, ast.AugAssign):
                        rd.add(t.id)
                    new.add(t.id)
                else:
                    rd |= reads(t)  # subscript/attribute stores read the container and the index
            for v in rd:
                if v in written and v not in assigned and v not in fresh_targets:
                    exposed.add(v)
            return assigned | frozenset(new)
        if isinstance(st, ast.If):
            for v in reads(st.test):
                if v in written and v not in assigned and v not in fresh_targets:
                    exposed.add(v)
            a = block(st.body, assigned)
            b = block(st.orelse, assigned)
            return a & b
        if isinstance(st, ast.For):
            for v in reads(st.iter):
                if v in written and v not in assigned and v not in fresh_targets:
                    exposed.add(v)
            inner = assigned | frozenset(x.id for x in ast.walk(st.target) if isinstance(x, ast.Name))
            block(st.body, inner)
            return assigned
        if isinstance(st, (ast.Return, ast.Expr)):
            val = st.value
            if val is not None:
                for v in reads(val):
                    if v in written and v not in assigned and v not in fresh_targets:
                        exposed.add(v)
            return assigned
        return assigned

    block(loop.body, frozenset())
    return exposed


def guards_of_return_false(mod, fn, loop):
    """Names read by the tests that dominate a `return False` inside `loop`."""
    out = []
    for n in ast.walk(ast.Module(body=loop.body, type_ignores=[])):
        if isinstance(n, ast.Return) and isinstance(n.value, ast.Constant) and n.value.value is False:
            names = set()
            cur = n
            while cur is not loop:
                par = mod.parents[cur]
                if isinstance(par, ast.If):
                    names |= {x.id for x in ast.walk(par.test) if isinstance(x, ast.Name)}
                cur = par
            out.append((n, names))
    return out


def run(ck: Checker):
    repo = ck.repo
    bf = repo.mod(BF)
    ck.rule('C12.PROTO', 'Circuit, TruthTable and PyFunction define every body-less method of the Function protocol with the same parameter names, order and defaults; the two models likewise for FunctionModel')
    ck.rule('C12.ORDER', 'every enumeration that produces or consumes truth-table order is product((False, True), repeat=...); index<->input conversions are big-endian and mutually inverse; get_bit_value uses the same shift; int wrappers reverse arguments and result under the same `not big_endian` test')
    ck.rule('C12.CARRY', 'order-sensitive predicates (is_monotone, is_monotone_at) decide `return False` from loop-carried state (an upward-exposed read of a variable written in the loop) or delegate to a sibling that does')
    ck.rule('C12.DELEG', 'whole-function predicates implemented by delegation are all(..._at(i) for i in range(output_size))')
    ck.rule('C12.DEFINE', 'TruthTableModel.define writes into a deep copy at [output][canonical index]; PyFunctionModel.define replaces exactly the DontCare entries; Function.define returns self only for an empty definition')

    # ---- PROTO ----
    fproto = _methods(bf, 'Function')
    mproto = _methods(bf, 'FunctionModel')
    need_f = {n: f for n, f in fproto.items() if _abstract(f)}
    need_m = {n: f for n, f in mproto.items()}
    ck.need(len(need_f) >= 14, f'{bf.rel}: only {len(need_f)} body-less Function methods found')
    for (modn, cname), need in [(x, dict(need_f, **{k: v for k, v in mproto.items() if k in ('input_size', 'output_size')})) for x in IMPLS] + [(x, need_m) for x in MODELS]:
        m = repo.mod(modn)
        have = _methods(m, cname)
        for name, pf in need.items():
            cons = f'{cname}.{name}'
            if name not in have:
                ck.bad('C12.PROTO', m, m.cls(cname), f'{cons} is implemented', f'{cname} does not define `{name}`: the protocol stub returns None', construct=cons)
                continue
            ps, pk, pv, pkw = _sig(pf)
            hs, hk, hv, hkw = _sig(have[name])
            same_names = [p for p, _ in ps] == [p for p, _ in hs] and [k for k, _ in pk] == [k for k, _ in hk]
            same_defaults = [d for _, d in ps] == [d for _, d in hs] and [d for _, d in pk] == [d for _, d in hk]
            is_prop_ok = ('property' in [norm(d) for d in pf.decorator_list]) == ('property' in [norm(d) for d in have[name].decorator_list])
            ck.check(same_names and same_defaults and is_prop_ok, 'C12.PROTO', m, have[name], f'{cons} has the protocol\'s signature',
                     f'signature {hs}{hk} differs from the protocol\'s {ps}{pk}', construct=cons)
    ck.floor('C12.PROTO', 60)

    # structural rules about enumeration order, loop-carried state, delegation and model completion: they speak where they recognise
    # the code; the behaviour of whatever is written there is decided by the folds (C12.FOLD, C12.ITER) run after them
    with ck.soft('C12.FOLD (every protocol query, model completion and the integer wrappers folded over small functions)'):
        # ---- ORDER ----
        n_enum = 0
        for modn in (TT, PF):
            m = repo.mod(modn)
            for node in ast.walk(m.tree):
                if isinstance(node, ast.Call) and norm(node.func) == 'itertools.product':
                    n_enum += 1
                    first = node.args[0] if node.args else None
                    good = isinstance(first, ast.Tuple) and [norm(e) for e in first.elts] == ['False', 'True'] and len(node.args) == 1 and [k.arg for k in node.keywords] == ['repeat']
                    ck.check(good, 'C12.ORDER', m, node, 'assignments are enumerated in truth-table order', f'`{norm(node)}`', construct=f'{m.qualname_of(node)}: {norm(node)}')
        ck.need(n_enum >= 10, f'only {n_enum} enumerations found in truth_table.py / python_function.py')
        um = repo.mod(UTILS)
        it = Interp(repo)
        i2c = RepoFunc(it, um, um.func('input_to_canonical_index'))
        c2i = RepoFunc(it, um, um.func('canonical_index_to_input'))
        gbv = RepoFunc(it, um, um.func('get_bit_value'))
        probs = []
        for n in (1, 2, 3, 4):
            for idx, xs in enumerate(itertools.product((False, True), repeat=n)):
                try:
                    if i2c(list(xs)) != idx:
                        probs.append(f'input_to_canonical_index{xs} = {i2c(list(xs))}, position in product order is {idx}')
                    if list(c2i(idx, n)) != list(xs):
                        probs.append(f'canonical_index_to_input({idx}, {n}) = {c2i(idx, n)}, expected {list(xs)}')
                    for b in range(n):
                        if gbv(idx, b, n) is not xs[b]:
                            probs.append(f'get_bit_value({idx}, {b}, {n}) = {gbv(idx, b, n)}, input {b} of assignment {idx} is {xs[b]}')
                except InterpRaise as e:
                    probs.append(f'raises {e.exc_name} at n={n}, idx={idx}')
        ck.check(not probs, 'C12.ORDER', um, um.func('input_to_canonical_index'), 'index <-> input conversions and get_bit_value agree with the enumeration order (big-endian), exhaustively for 1..4 inputs',
                 '; '.join(probs[:3]), construct='core.utils conversions vs product order')
        # modulo behaviour of canonical_index_to_input used by the int wrappers
        probs = []
        for n in (1, 2, 3):
            for number in range(0, 2 ** (n + 2)):
                got = list(c2i(number, n))
                want = [bool((number >> (n - 1 - i)) & 1) for i in range(n)]
                if got != want:
                    probs.append(f'canonical_index_to_input({number}, {n}) = {got}, low {n} bits big-endian are {want}')
        ck.check(not probs, 'C12.ORDER', um, um.func('canonical_index_to_input'), 'a number is rendered as exactly its low `input_size` bits, most significant first',
                 '; '.join(probs[:3]), construct='canonical_index_to_input width')
        pm = repo.mod(PF)
        for name, nargs in (('PyFunction.from_int_unary_func', 1), ('PyFunction.from_int_binary_func', 2)):
            f = pm.func(name)
            inner = [n for n in ast.walk(f) if isinstance(n, ast.FunctionDef) and n is not f]
            ck.need(len(inner) == 1, f'{pm.rel}: inner callable of {name} not found')
            g = inner[0]
            ifs = [s for s in g.body if isinstance(s, ast.If)]
            tests = [norm(s.test) for s in ifs]
            rev = [norm(x) for s in ifs for x in s.body]
            want_rev = (['args = args[::-1]', 'result = result[::-1]'] if nargs == 1 else ['args1 = args1[::-1]', 'args2 = args2[::-1]', 'result = result[::-1]'])
            order_ok = tests == ['not big_endian', 'not big_endian'] and rev == want_rev
            src = norm(g)
            call_ok = ('number = func(index)' in src and 'index = input_to_canonical_index(args)' in src) if nargs == 1 else \
                ('number = func(index1, index2)' in src and 'index1 = input_to_canonical_index(args1)' in src and 'index2 = input_to_canonical_index(args2)' in src
                 and 'args1 = args[:input_int_len]' in src and 'args2 = args[input_int_len:]' in src)
            ck.check(order_ok and call_ok and 'result = canonical_index_to_input(number, output_int_len)' in src, 'C12.ORDER', pm, g,
                     f'{name}: operands and result are little-endian unless big_endian (reversed around the big-endian index conversion)',
                     f'reversal tests {tests}, reversals {rev}', construct=f'{name} bit order')
        ck.floor('C12.ORDER', 14)

        # ---- CARRY / DELEG ----
        for modn, cname in IMPLS:
            m = repo.mod(modn)
            have = _methods(m, cname)
            for name in ('is_monotone', 'is_monotone_at'):
                fn = have.get(name)
                if fn is None:
                    continue
                cons = f'{cname}.{name}'
                loops = [n for n in walk_no_nested(fn) if isinstance(n, ast.For) and not isinstance(m.parents.get(n), ast.For)]
                loops = [l for l in loops if not any(isinstance(p, ast.For) for p in _ancestors(m, l, fn))]
                if not loops:
                    # delegation: all(self.is_monotone_at(i, inverse=inverse) for i in range(self.output_size))
                    body = body_without_doc(fn)
                    ok = len(body) == 1 and isinstance(body[0], ast.Return) and isinstance(body[0].value, ast.Call) and norm(body[0].value.func) == 'all'
                    if ok:
                        gen = body[0].value.args[0]
                        ok = isinstance(gen, (ast.GeneratorExp, ast.ListComp)) and len(gen.generators) == 1 and norm(gen.generators[0].iter) == 'range(self.output_size)' \
                            and not gen.generators[0].ifs and isinstance(gen.elt, ast.Call) and norm(gen.elt.func) == f'self.{name}_at' \
                            and norm(gen.elt.args[0]) == norm(gen.generators[0].target) and all(k.arg == norm(k.value) for k in gen.elt.keywords) \
                            and {k.arg for k in gen.elt.keywords} | {norm(a) for a in gen.elt.args[1:]} >= {p.arg for p in fn.args.args[1:]}
                    ck.check(ok, 'C12.DELEG', m, fn, f'{cons} = all({name}_at(i, ...) for every output), passing its options on', f'body `{norm(body[0])[:160] if body else None}`', construct=cons)
                    continue
                exposed = set()
                for l in loops:
                    exposed |= upward_exposed_carried(l)
                guards = [g for l in loops for g in guards_of_return_false(m, fn, l)]
                ck.need(guards, f'{m.rel}: {cons} has a loop but no `return False` inside it (shape changed)')
                for ret, names in guards:
                    ck.check(bool(names & exposed), 'C12.CARRY', m, ret, f'{cons}: the failing test depends on state carried from earlier assignments of the enumeration',
                             f'the tests guarding this `return False` read only {sorted(names)}; none of them is written in the loop and read before being rewritten '
                             f'(loop-carried: {sorted(exposed)}): the decision at step k depends on (value_k, loop-invariant) only, which cannot express monotonicity of a sequence',
                             construct=f'{cons}: return False guard')
            for name in ('is_constant',):
                fn = have.get(name)
                if fn is not None and not [n for n in walk_no_nested(fn) if isinstance(n, ast.For)]:
                    body = body_without_doc(fn)
                    ok = len(body) == 1 and isinstance(body[0], ast.Return) and isinstance(body[0].value, ast.Call) and norm(body[0].value.func) == 'all' and len(body[0].value.args) == 1 \
                        and isinstance(body[0].value.args[0], (ast.GeneratorExp, ast.ListComp)) and len(body[0].value.args[0].generators) == 1 \
                        and norm(body[0].value.args[0].generators[0].iter) == 'range(self.output_size)' and not body[0].value.args[0].generators[0].ifs \
                        and norm(body[0].value.args[0].elt) == f'self.is_constant_at({norm(body[0].value.args[0].generators[0].target)})'
                    ck.check(ok, 'C12.DELEG', m, fn, f'{cname}.{name} = all(is_constant_at(i) for every output)', f'body `{norm(body[0])[:160] if body else None}`', construct=f'{cname}.{name}')
        ck.floor('C12.CARRY', 4)
        ck.floor('C12.DELEG', 2)

        # ---- DEFINE ----
        tm = repo.mod(TT)
        d = tm.func('TruthTableModel.define')
        src = norm(d)
        p = d.args.args[1].arg
        ok = '_table_cp = copy.deepcopy(self._table)' in src and f'for (input_value, output_idx), output_value in {p}.items():' in src \
            and '_table_cp[output_idx][input_to_canonical_index(input_value)] = output_value' in src and 'return TruthTable(table=tp.cast(RawTruthTable, _table_cp))' in src
        ck.check(ok, 'C12.DEFINE', tm, d, 'TruthTableModel.define writes each definition at [output][canonical index of the input] of a deep copy', 'shape changed', construct='TruthTableModel.define')
        d = pm.func('PyFunctionModel.define')
        inner = [n for n in ast.walk(d) if isinstance(n, ast.FunctionDef) and n is not d]
        ok = len(inner) == 1
        if ok:
            s = norm(inner[0])
            ok = 'answer = list(_old_callable(args))' in s and 'if answer[idx] != DontCare: continue' in s.replace('\n', ' ').replace('    ', '') \
                and f'answer[idx] = {d.args.args[1].arg}[args_tuple, idx]' in s and 'for idx in range(_output_size):' in s and 'args_tuple = tuple(args)' in s
        ck.check(ok, 'C12.DEFINE', pm, d, 'PyFunctionModel.define keeps every defined output and takes exactly the DontCare ones from the definition, keyed by (input tuple, output index)', 'shape changed', construct='PyFunctionModel.define')
        d = bf.func('Function.define')
        body = body_without_doc(d)
        ok = len(body) == 2 and isinstance(body[0], ast.If) and norm(body[0].test) == d.args.args[1].arg and isinstance(body[0].body[-1], ast.Raise) and norm(body[1]) == 'return self'
        ck.check(ok, 'C12.DEFINE', bf, d, 'a complete function accepts only the empty definition and is its own completion', 'shape changed', construct='Function.define')
        for name, want in (('Function.check', 'return self.evaluate(inputs=inputs)'), ('Function.check_at', 'return self.evaluate_at(inputs=inputs, output_index=output_index)'),
                           ('Function.get_model_truth_table', 'return tp.cast(RawTruthTableModel, self.get_truth_table())')):
            f = bf.func(name)
            body = body_without_doc(f)
            ck.check(len(body) == 1 and norm(body[0]) == want, 'C12.DEFINE', bf, f, f'{name} of a complete function is its evaluation', f'body `{norm(body[0]) if body else None}`', construct=name)
        ck.floor('C12.DEFINE', 6)
        ck.assume('that each predicate equals its mathematical definition is not decided')


def _ancestors(m, node, stop):
    cur = node
    while cur in m.parents and cur is not stop:
        cur = m.parents[cur]
        yield cur


# ---------------------------------------------------------------------------
# C12.FOLD: every protocol predicate of every representation folded over all small functions


def _reference(T, n, m):
    """Mathematical definitions over truth table T (m rows of 2**n bools)."""
    N = 1 << n
    ref = {}
    bit = lambda t, i: bool((t >> (n - 1 - i)) & 1)  # noqa: E731
    ref['truth_table'] = [list(r) for r in T]
    ref['is_constant'] = all(len(set(r)) == 1 for r in T)
    for j in range(m):
        r = T[j]
        ref[('is_constant_at', j)] = len(set(r)) == 1
        for inv in (False, True):
            seq = [(not v) if inv else v for v in r]
            ref[('is_monotone_at', j, inv)] = all(a <= b for a, b in zip(seq, seq[1:]))
        ref[('is_symmetric_at', j)] = all(len({r[t] for t in range(N) if bin(t).count('1') == k}) <= 1 for k in range(n + 1))
        for i in range(n):
            ref[('dep', j, i)] = any(r[t] != r[t ^ (1 << (n - 1 - i))] for t in range(N))
            ref[('eq_in', j, i)] = all(r[t] == bit(t, i) for t in range(N))
            ref[('eq_nin', j, i)] = all(r[t] == (not bit(t, i)) for t in range(N))
        ref[('significant', j)] = [i for i in range(n) if ref[('dep', j, i)]]
    for inv in (False, True):
        ref[('is_monotone', inv)] = all(ref[('is_monotone_at', j, inv)] for j in range(m))
    ref['is_symmetric'] = all(ref[('is_symmetric_at', j)] for j in range(m))
    return ref


def _sym_under(T, n, outs, neg):
    N = 1 << n
    def idx(t):
        x = 0
        for i in range(n):
            b = bool((t >> (n - 1 - i)) & 1) ^ neg[i]
            x = (x << 1) | int(b)
        return x
    for k in range(n + 1):
        vals = {tuple(T[j][idx(t)] for j in outs) for t in range(N) if bin(t).count('1') == k}
        if len(vals) > 1:
            return False
    return True


FIXED_SUM = 'cirbo.core.circuit.utils.input_iterator_with_fixed_sum'


def fold_iterator(ck: Checker, rule='C12.ITER'):
    """The fixed-weight enumeration: every assignment of the requested weight (xor the
    negation mask) exactly once, each as its own object -- a consumer (a user callable wrapped
    in PyFunction may return or keep its argument) must not see a later assignment through an
    earlier one."""
    repo = ck.repo
    um = repo.mod('cirbo.core.circuit.utils')
    fn = um.func('input_iterator_with_fixed_sum')
    it = Interp(repo, max_steps=2_000_000)
    it.eager_generators.add(FIXED_SUM)
    f = it.global_value(um, 'input_iterator_with_fixed_sum')
    probs, cases = [], 0
    for n in range(0, 5):
        masks = [None] + ([list(m) for m in itertools.product((False, True), repeat=n)] if n <= 3 else [[True, False, True, False]])
        for neg in masks:
            for k in range(n + 1):
                cases += 1
                it.steps = 0
                try:
                    got = list(f(n, k, negations=neg) if neg is not None else f(n, k))
                except InterpRaise as e:
                    probs.append(f'n={n}, k={k}, negations={neg}: raises {e.exc_name}')
                    continue
                ng = neg or [False] * n
                want = sorted(tuple(bool(v) ^ ng[i] for i, v in enumerate(xs)) for xs in itertools.product((False, True), repeat=n) if sum(xs) == k)
                have = sorted(tuple(bool(v) for v in g) for g in got)
                if have != want:
                    probs.append(f'n={n}, k={k}, negations={neg}: after the generator has finished the yielded assignments read {have[:4]}..., expected each of {want[:4]}... exactly once')
                elif len({id(g) for g in got}) != len(got):
                    probs.append(f'n={n}, k={k}: the same object is yielded more than once')
    sound = not probs
    ck.check(not probs, rule, um, fn, f'input_iterator_with_fixed_sum folded for n<=4, every weight, every negation mask (n<=3): each assignment of that weight exactly once, each a fresh object ({cases} cases)',
             '; '.join(probs[:3]), construct='input_iterator_with_fixed_sum enumeration')
    ck.floor(rule, 1)
    return sound


def fold_models_and_wrappers(ck: Checker, rule='C12.FOLD'):
    """Model completion (TruthTableModel.define / PyFunctionModel.define / check) and the integer wrappers folded over small
    instances: the completed function agrees with the model wherever it was defined and with the definition elsewhere, the
    model is left untouched; from_int_unary_func / from_int_binary_func honour the stated bit order."""
    repo = ck.repo
    from ..interp import RepoClass
    from ..tables import U as _U
    tm, pm = repo.mod(TT), repo.mod(PF)
    lg = repo.mod('cirbo.core.logic')

    class _DCv:
        def __repr__(self):
            return '*'
    DCV = _DCv()
    it = Interp(repo, overrides={'cirbo.core.logic.DontCare': DCV}, max_steps=3_000_000)
    it.real_super = True
    TTM = RepoClass(tm, tm.cls('TruthTableModel'))
    PFM = RepoClass(pm, pm.cls('PyFunctionModel'))
    probs_t, probs_p = [], []
    vals = (False, True, DCV)
    n_models = 0
    for n, m in ((1, 1), (2, 1), (1, 2)):
        for rows in itertools.product(itertools.product(vals, repeat=1 << n), repeat=m):
            n_models += 1
            table = [list(r) for r in rows]
            holes = [(j, t) for j in range(m) for t in range(1 << n) if table[j][t] is DCV]
            for fill in ((False,) * len(holes), (True,) * len(holes), tuple(k % 2 == 0 for k in range(len(holes)))):
                definition = {}
                for (j, t), v in zip(holes, fill):
                    xs = tuple(bool((t >> (n - 1 - i)) & 1) for i in range(n))
                    definition[(xs, j)] = v
                if fill and fill[0] is True:
                    # an over-complete definition: it also mentions defined positions, with the opposite value
                    for j in range(m):
                        for t in range(1 << n):
                            if table[j][t] is not DCV:
                                definition[(tuple(bool((t >> (n - 1 - i)) & 1) for i in range(n)), j)] = not table[j][t]
                want = [[(definition[(tuple(bool((t >> (n - 1 - i)) & 1) for i in range(n)), j)] if table[j][t] is DCV else table[j][t]) for t in range(1 << n)] for j in range(m)]
                # truth-table model
                it.steps = 0
                try:
                    mdl = it.instantiate(TTM, ([list(r) for r in table],))
                    before = [list(r) for r in mdl._d['_table']]
                    f = it.getattr(tm, None, mdl, 'define')(dict(definition))
                    got = [list(r) for r in it.getattr(tm, None, f, 'get_truth_table')()]
                    if got != want:
                        probs_t.append(f'model {table} completed with {definition}: {got}, expected {want}')
                    if [list(r) for r in mdl._d['_table']] != before:
                        probs_t.append(f'model {table}: define modified the model itself')
                except InterpRaise as e:
                    probs_t.append(f'model {table}: raises {e.exc_name}')
                # python-callable model: a callable returning the model rows
                def mk(tb):
                    # the user's callable hands out rows it keeps (a cached result): completing the model must not write into them
                    keep = {t: [tb[j][t] for j in range(len(tb))] for t in range(len(tb[0]))}
                    f_ = lambda xs: keep[int(''.join(str(int(bool(v))) for v in xs), 2)]  # noqa: E731
                    f_.keep = keep
                    return f_
                it.steps = 0
                try:
                    pmdl = it.instantiate(PFM, (mk(table),), {'input_size': n, 'output_size': m}) if 'output_size' in [a.arg for a in pm.func('PyFunctionModel.__init__').args.args + pm.func('PyFunctionModel.__init__').args.kwonlyargs] else it.instantiate(PFM, (mk(table),), {'input_size': n})
                    f = it.getattr(pm, None, pmdl, 'define')(dict(definition))
                    got = [[list(it.getattr(pm, None, f, 'evaluate')([bool((t >> (n - 1 - i)) & 1) for i in range(n)]))[j] for t in range(1 << n)] for j in range(m)]
                    if got != want:
                        probs_p.append(f'model {table} completed with {definition}: {got}, expected {want}')
                    kept = pmdl._d['_func'].keep if hasattr(pmdl._d.get('_func'), 'keep') else None
                    if kept is not None and any(kept[t][j] is not table[j][t] for j in range(m) for t in range(1 << n)):
                        probs_p.append(f'model {table}: evaluating the completed function wrote into the rows returned by the model\'s own callable (the model is no longer the one that was given)')
                except InterpRaise as e:
                    probs_p.append(f'model {table}: raises {e.exc_name}')
            if len(probs_t) > 3 or len(probs_p) > 3:
                break
    ck.check(not probs_t, rule, tm, tm.func('TruthTableModel.define'), f'TruthTableModel.define: the completed table keeps every defined entry and takes exactly the DontCare ones from the definition; the model is untouched ({n_models} models x 3 definitions)',
             '; '.join(probs_t[:2]), construct='TruthTableModel.define over small models')
    ck.check(not probs_p, rule, pm, pm.func('PyFunctionModel.define'), f'PyFunctionModel.define: the completed callable keeps every defined output and takes exactly the DontCare ones from the definition ({n_models} models x 3 definitions)',
             '; '.join(probs_p[:2]), construct='PyFunctionModel.define over small models')
    # a completely defined function: define() returns it for an empty definition and refuses any other
    TTc2 = RepoClass(tm, tm.cls('TruthTable'))
    bm = repo.mod('cirbo.core.boolean_function')
    probs = []
    try:
        f0 = it.instantiate(TTc2, ([[False, True]],))
        same = it.getattr(tm, None, f0, 'define')({})
        if same is not f0 and [list(r) for r in it.getattr(tm, None, same, 'get_truth_table')()] != [[False, True]]:
            probs.append('define({}) of a defined function returns another function')
        try:
            it.getattr(tm, None, f0, 'define')({((False,), 0): True})
            probs.append('a non-empty definition of a completely defined function is accepted silently')
        except InterpRaise as e:
            if e.exc_name != 'BadDefinitionError':
                probs.append(f'a non-empty definition of a defined function raises {e.exc_name}')
    except InterpRaise as e:
        probs.append(f'Function.define raises {e.exc_name}')
    ck.check(not probs, rule, bm, bm.func('Function.define'), 'a completely defined function returns itself for an empty definition and refuses a non-empty one with BadDefinitionError', '; '.join(probs), construct='Function.define on a defined function')
    # integer wrappers
    PFc = it.global_value(pm, 'PyFunction')
    probs = []
    for be in (False, True):
        for n_in, n_out, fn_, nm in ((2, 3, lambda x: (3 * x + 1) % 8, '3x+1 mod 8'), (3, 2, lambda x: x // 2, 'x // 2')):
            it.steps = 0
            try:
                f = it.getattr(pm, None, PFc, 'from_int_unary_func')(fn_, n_in, n_out, be)
                for x in range(1 << n_in):
                    bits = [bool((x >> k) & 1) for k in range(n_in)]
                    if be:
                        bits.reverse()
                    out = list(it.getattr(pm, None, f, 'evaluate')(bits))
                    if be:
                        out = out[::-1]
                    got = sum(int(bool(b)) << k for k, b in enumerate(out))
                    if got != fn_(x) or len(out) != n_out:
                        probs.append(f'from_int_unary_func({nm}, {n_in}, {n_out}, big_endian={be}) maps {x} to {got} on {len(out)} bits')
                        break
            except InterpRaise as e:
                probs.append(f'from_int_unary_func(big_endian={be}) raises {e.exc_name}')
        it.steps = 0
        try:
            f = it.getattr(pm, None, PFc, 'from_int_binary_func')(lambda x, y: 4 * x + y, 2, 4, be)
            for x in range(4):
                for y in range(4):
                    bx = [bool((x >> k) & 1) for k in range(2)]
                    by = [bool((y >> k) & 1) for k in range(2)]
                    if be:
                        bx.reverse()
                        by.reverse()
                    out = list(it.getattr(pm, None, f, 'evaluate')(bx + by))
                    if be:
                        out = out[::-1]
                    got = sum(int(bool(b)) << k for k, b in enumerate(out))
                    if got != 4 * x + y:
                        probs.append(f'from_int_binary_func(4x+y, big_endian={be}) maps ({x}, {y}) to {got}')
                        break
        except InterpRaise as e:
            probs.append(f'from_int_binary_func(big_endian={be}) raises {e.exc_name}')
    ck.check(not probs, rule, pm, pm.func('PyFunction.from_int_unary_func'), 'the integer wrappers read operands and write the result in the stated bit order (both endiannesses, non-commutative binary function)',
             '; '.join(probs[:2]), construct='PyFunction.from_int_*_func bit order')


def fold_predicates(ck: Checker, rule='C12.FOLD', real_iterator=True):
    import random
    repo = ck.repo
    from ..interp import Host, Instance, RepoClass

    def fixed_sum(input_size, number_of_true, *, negations=None):
        neg = [False] * input_size if negations is None else list(negations)
        for idxs in itertools.combinations(range(input_size), number_of_true):
            v = [False ^ neg[i] for i in range(input_size)]
            for i in idxs:
                v[i] = True ^ neg[i]
            yield v

    # the repo's own generator is used (run to completion) when C12.ITER found it sound for
    # that; otherwise the predicates are folded against an oracle enumeration so that the
    # report names the generator once instead of every consumer
    it = Interp(repo, overrides={} if real_iterator else {FIXED_SUM: fixed_sum}, max_steps=3_000_000)
    if real_iterator:
        it.eager_generators.add(FIXED_SUM)
    from ..rewrites import FakeGate
    from ..tables import Denotations, GateTypeVal, gate_overrides
    _types = {t.var: t for t in gate_overrides(Denotations(repo)).values() if isinstance(t, GateTypeVal)}
    INPUT_T, OTHER_T = _types['INPUT'], _types['AND']
    tm, pm, cm = repo.mod(TT), repo.mod(PF), repo.mod(CIRCUIT)
    TTc = RepoClass(tm, tm.cls('TruthTable'))
    PFc = RepoClass(pm, pm.cls('PyFunction'))
    CCc = RepoClass(cm, cm.cls('Circuit'))

    def make(kind, T, n, m):
        def f(xs):
            t = 0
            for v in xs:
                t = (t << 1) | int(bool(v))
            return [T[j][t] for j in range(m)]
        if kind == 'TruthTable':
            return it.instantiate(TTc, ([list(r) for r in T],)), tm
        if kind == 'PyFunction':
            return it.instantiate(PFc, (f,), {'input_size': n}), pm
        it.steps = 0
        inst = it.instantiate(CCc)     # (through __init__: whatever fields the class keeps are there)
        ins = [f'i{k}' for k in range(n)]
        inst._inputs = ins
        # a structure realising the function: an output that is a projection is the input gate itself (an input that is
        # an output and feeds nothing), every other output a gate over all inputs; evaluation itself is C01/C15's subject
        outs, gates, users = [], {l: FakeGate(l, INPUT_T, ()) for l in ins}, {}
        for j in range(m):
            proj = [i for i in range(n) if all(T[j][t] == bool((t >> (n - 1 - i)) & 1) for t in range(1 << n))]
            if proj:
                outs.append(f'i{proj[0]}')
            else:
                outs.append(f'o{j}')
                gates[f'o{j}'] = FakeGate(f'o{j}', OTHER_T, tuple(ins))
                for l in ins:
                    users.setdefault(l, []).append(f'o{j}')
        inst._outputs = outs
        inst._gates = gates
        inst._gate_to_users = users
        inst._blocks = {}
        inst.evaluate = lambda inputs: list(f(inputs))
        inst.evaluate_at = lambda inputs, output_index: f(inputs)[output_index]
        return inst, cm

    shapes = [(1, 1), (2, 1), (1, 2)]
    sampled = [(2, 2, 24), (3, 1, 24)] if ck.tier == 'quick' else [(2, 2, 256), (3, 1, 256)]
    rnd = random.Random(12)
    funcs = []
    for n, m in shapes:
        rows = list(itertools.product((False, True), repeat=1 << n))
        funcs += [(n, m, [list(r) for r in combo]) for combo in itertools.product(rows, repeat=m)]
    for n, m, k in sampled:
        rows = list(itertools.product((False, True), repeat=1 << n))
        allf = list(itertools.product(rows, repeat=m))
        pick = allf if k >= len(allf) else rnd.sample(allf, k)
        # always include the order-sensitive classics
        funcs += [(n, m, [list(r) for r in combo]) for combo in pick]
    funcs.append((2, 1, [[False, True, False, True]]))
    funcs.append((2, 2, [[False, False, True, True], [True, True, False, False]]))
    # four inputs: invariant under rotation of the inputs but not symmetric (1 exactly on 1010 and 0101), a symmetric one (majority),
    # one depending on a single input, and the two together as a two-output function
    rot = [t in (0b1010, 0b0101) for t in range(16)]
    maj = [bin(t).count('1') >= 3 for t in range(16)]
    third = [bool(t & 0b0010) for t in range(16)]
    funcs += [(4, 1, [rot]), (4, 1, [maj]), (4, 1, [third]), (4, 2, [maj, rot])]
    # one function per Hamming-weight layer that is asymmetric in that layer only (1 on a single assignment of weight w): a loop
    # over the layers that stops early, starts late or skips one is wrong on exactly one of them (seeded C12-13: layers up to n/2 only)
    for n5, picks in ((4, (0b0001, 0b0110, 0b1110)), (5, (0b00001, 0b00110, 0b01110, 0b11110))):
        for one in picks:
            funcs.append((n5, 1, [[t == one for t in range(1 << n5)]]))
    funcs.append((4, 3, [[t == one for t in range(16)] for one in (0b1000, 0b1001, 0b0111)]))
    n_q = 0
    for kind in ('TruthTable', 'PyFunction', 'Circuit'):
        probs = []
        for n, m, T in funcs:
            ref = _reference(T, n, m)
            try:
                inst, mod = make(kind, T, n, m)
            except InterpRaise as e:
                probs.append(f'{_tts(T)}: construction raises {e.exc_name}')
                continue

            def q(name, *a, **k):
                nonlocal n_q
                n_q += 1
                it.steps = 0
                try:
                    return it.getattr(mod, None, inst, name)(*a, **k)
                except InterpRaise as e:
                    return f'raise:{e.exc_name}'

            checks = [('get_truth_table()', [list(r) for r in q('get_truth_table')] if not isinstance(q('get_truth_table'), str) else q('get_truth_table'), ref['truth_table']),
                      ('is_constant()', q('is_constant'), ref['is_constant']), ('is_symmetric()', q('is_symmetric'), ref['is_symmetric'])]
            for inv in (False, True):
                checks.append((f'is_monotone(inverse={inv})', q('is_monotone', inverse=inv) if inv else q('is_monotone'), ref[('is_monotone', inv)]))
            for j in range(m):
                checks.append((f'is_constant_at({j})', q('is_constant_at', j), ref[('is_constant_at', j)]))
                checks.append((f'is_symmetric_at({j})', q('is_symmetric_at', j), ref[('is_symmetric_at', j)]))
                checks.append((f'get_significant_inputs_of({j})', q('get_significant_inputs_of', j), ref[('significant', j)]))
                for inv in (False, True):
                    checks.append((f'is_monotone_at({j}, inverse={inv})', q('is_monotone_at', j, inverse=inv), ref[('is_monotone_at', j, inv)]))
                for i in range(n):
                    checks.append((f'is_dependent_on_input_at({j}, {i})', q('is_dependent_on_input_at', j, i), ref[('dep', j, i)]))
                    checks.append((f'is_output_equal_to_input({j}, {i})', q('is_output_equal_to_input', j, i), ref[('eq_in', j, i)]))
                    checks.append((f'is_output_equal_to_input_negation({j}, {i})', q('is_output_equal_to_input_negation', j, i), ref[('eq_nin', j, i)]))
            for xs in itertools.product((False, True), repeat=n):
                t = int(''.join(str(int(v)) for v in xs), 2)
                checks.append((f'evaluate({list(xs)})', list(q('evaluate', list(xs))) if not isinstance(q('evaluate', list(xs)), str) else 'raise', [T[j][t] for j in range(m)]))
                checks.append((f'evaluate_at({list(xs)}, {m - 1})', q('evaluate_at', list(xs), m - 1), T[m - 1][t]))
            outs = list(range(m))
            neg = q('find_negations_to_make_symmetric', outs)
            exists = any(_sym_under(T, n, outs, list(ng)) for ng in itertools.product((False, True), repeat=n))
            if isinstance(neg, str):
                checks.append(('find_negations_to_make_symmetric', neg, 'a result'))
            elif neg is None:
                checks.append(('find_negations_to_make_symmetric is None', False, exists))
            else:
                checks.append(('find_negations_to_make_symmetric makes it symmetric', _sym_under(T, n, outs, list(neg)), True))
            for what, got, want in checks:
                if got is not want and got != want:
                    probs.append(f'{_tts(T)}: {what} = {got!r}, definition gives {want!r}')
            if len(probs) > 5:
                break
        cls_mod = {'TruthTable': tm, 'PyFunction': pm, 'Circuit': cm}[kind]
        ck.check(not probs, rule, cls_mod, cls_mod.cls(kind), f'{kind}: every protocol query equals its definition on {len(funcs)} small functions (all with <= 2 table rows of width 2, plus samples/all of 2x2 and 3x1)',
                 '; '.join(probs[:3]), construct=f'{kind} protocol queries vs definitions')
    ck.notes['protocol_queries_folded'] = n_q
    ck.assume('input_iterator_with_fixed_sum is run to completion before its consumer when folding the symmetric-check loops (justified by C12.ITER: every yielded assignment is a fresh object)')


def _tts(T):
    return '/'.join(''.join(str(int(v)) for v in r) for r in T)


_run_without_fold = run


def run(ck: Checker):  # noqa: F811
    _run_without_fold(ck)
    ck.rule('C12.FOLD', 'every query of the function protocol, in all three representations, folded over all small Boolean functions and compared with its mathematical definition (and thereby with the sibling representations)')
    ck.rule('C12.ITER', 'input_iterator_with_fixed_sum folded as a generator run to completion: every assignment of the requested weight (xor the negation mask) exactly once and each yielded list a fresh object, so a callable that returns or keeps its argument cannot be compared with itself')
    fold_predicates(ck, real_iterator=fold_iterator(ck))
    fold_models_and_wrappers(ck)
    ck.rule('C12.HIST', 'Circuit.get_truth_table folded at random points of seeded histories of public mutations (input reordering, fixing inputs, compositions, conversions): the table of the circuit as it is then, the basis of every other circuit query (shared machinery with C02.HIST)')
    from .. import history_fold
    history_fold.fold_histories(ck, 'C12.HIST', only=(), observers=('get_truth_table',), n_hist=(120 if ck.tier == 'quick' else 1200))
    ck.floor('C12.HIST', 1)
