"""C07 -- summation generators (gadget exactness, basis discipline, add-only, arguments, endianness)."""

from __future__ import annotations

import ast

from ..core import AnalysisError, Checker, call_name, calls_in, gate_const, is_name, norm, param_names, walk_no_nested
from ..effects import Effects
from ..guards import dominating_tests
from ..tables import Denotations
from .. import gadgets as G
from .. import genrules as R

SUM = G.SUM
MODULES = [SUM, R.ARITH + '._utils', R.GENPKG + '.helpers']

ENDIAN_EXEMPT = {
    'add_sum_pow2_m1': 'input is a multiset of equal-weight bits (order irrelevant); each returned block is converted',
}


def _xor(c, a, b, types, label):
    c.emplace_gate(label, types['XOR'], (a, b))
    return label


def gadget_rules(ck: Checker, B: G.GadgetBench, rule='C07.GADGET'):
    T = B.types

    def val(ev, l):
        return int(ev(l))

    def sum2(a, res, ev, c):
        r0, r1 = res
        i = [int(a[f'i{k}']) for k in range(2)]
        return None if sum(i) == val(ev, r0) + 2 * val(ev, r1) else f'{sum(i)} != {val(ev, r0)} + 2*{val(ev, r1)}'

    def sum3(a, res, ev, c):
        r0, r1 = res
        i = [int(a[f'i{k}']) for k in range(3)]
        return None if sum(i) == val(ev, r0) + 2 * val(ev, r1) else f'{sum(i)} != {val(ev, r0)} + 2*{val(ev, r1)}'

    for f in ('add_sum2', 'add_sum2_aig'):
        G.check_gadget(ck, B, rule, SUM, f, 2, lambda n: (list(n),), sum2, f'{f}: x1 + x2 = r0 + 2*r1')
    for f in ('add_sum3', 'add_sum3_aig'):
        G.check_gadget(ck, B, rule, SUM, f, 3, lambda n: (list(n),), sum3, f'{f}: x1 + x2 + x3 = r0 + 2*r1')

    # gadgets whose operands are related (x2 xor x3 etc.) need helper gates in the host first
    m = ck.repo.mod(SUM)

    def run_related(fname, n_in, build, spec, what):
        fn = m.func(fname)
        try:
            c, names = B.host(n_in)
            args = build(c, names)
            before = set(c._gates)
            res = B.run(SUM, fname, c, args)
        except Exception as e:  # InterpRaise
            ck.bad(rule, m, fn, what, f'gadget raises {getattr(e, "exc_name", e)}', construct=f'{fname} netlist')
            return
        probs = []
        from .. import semantics
        for vals in semantics.bools(n_in):
            a = dict(zip(names, vals))
            ev = lambda lab: c.evaluate(lab, a)  # noqa: E731
            try:
                msg = spec([int(v) for v in vals], res, lambda l: int(ev(l)))
            except KeyError as e:
                msg = f'result names a missing gate {e}'
            if msg:
                probs.append(f'inputs {"".join(str(int(v)) for v in vals)}: {msg}')
        ck.check(not probs, rule, m, fn, what, '; '.join(probs[:3]), construct=f'{fname} netlist',
                 detail={'netlist': {l: repr(g) for l, g in c._gates.items() if l not in before}, 'result': repr(res)})

    run_related('add_stockmeyer_block', 3, lambda c, n: [n[0], n[1], _xor(c, n[1], n[2], T, 'x23')],
                lambda i, res, v: None if sum(i) == v(res[0]) + 2 * v(res[1]) else f'{sum(i)} != {v(res[0])} + 2*{v(res[1])}',
                'add_stockmeyer_block(x1, x2, x2^x3): x1 + x2 + x3 = w0 + 2*w1')
    # mdfa: inputs z, x1, y1, x2, y2 ; operands (z, x1, x1^y1, x2, x2^y2) ; result (z', a, a^b) with z+x1+y1+x2+y2 = z' + 2*(a+b)
    run_related('add_mdfa', 5, lambda c, n: [n[0], n[1], _xor(c, n[1], n[2], T, 'xy1'), n[3], _xor(c, n[3], n[4], T, 'xy2')],
                lambda i, res, v: None if sum(i) == v(res[0]) + 2 * (v(res[1]) + (v(res[1]) ^ v(res[2]))) else f'{sum(i)} != {v(res[0])} + 2*({v(res[1])} + {v(res[1]) ^ v(res[2])})',
                'add_mdfa(z, x1, x1^y1, x2, x2^y2) = (z\', a, a^b): z + x1 + y1 + x2 + y2 = z\' + 2*(a + b)')
    run_related('add_simplified_mdfa', 4, lambda c, n: [n[0], _xor(c, n[0], n[1], T, 'xy1'), n[2], _xor(c, n[2], n[3], T, 'xy2')],
                lambda i, res, v: None if sum(i) == v(res[0]) + 2 * (v(res[1]) + (v(res[1]) ^ v(res[2]))) else f'{sum(i)} != {v(res[0])} + 2*({v(res[1])} + {v(res[1]) ^ v(res[2])})',
                'add_simplified_mdfa(x1, x1^y1, x2, x2^y2) = (z\', a, a^b): x1 + y1 + x2 + y2 = z\' + 2*(a + b)')


def basis_rules(ck: Checker, modules, public):
    repo = ck.repo
    TS, REACH = 'C07.BASIS-TS', 'C07.BASIS-REACH'
    em = G.Emission(repo)
    n_ts = 0
    for m, q, fn in R.gen_functions(repo, modules):
        if 'basis' not in param_names(fn):
            continue
        # typestate: comparisons with GenerationBasis members
        for node in ast.walk(fn):
            if isinstance(node, ast.Compare) and len(node.ops) == 1 and isinstance(node.ops[0], (ast.Eq, ast.NotEq)) and 'GenerationBasis.' in norm(node.comparators[0]) and isinstance(node.left, ast.Name):
                n_ts += 1
                x = node.left.id
                ok, why = _normalised_at(m, fn, node, x)
                ck.check(ok, TS, m, node, f'{q}: `{x}` is a GenerationBasis member when compared', why, construct=f'{q}: {norm(node)}')
        # reachability
        if (m.name, q) in public or q.startswith('generate_'):
            for state, allowed_codes, allowed_types in (('AIG', G.AIG_CODES, {'INPUT', 'NOT', 'AND', 'OR', 'NAND', 'NOR', 'GT', 'LT', 'GEQ', 'LEQ', 'LNOT'}),
                                                        ('XAIG', G.AIG_CODES | G.XOR_CODES, {'INPUT', 'NOT', 'AND', 'OR', 'NAND', 'NOR', 'GT', 'LT', 'GEQ', 'LEQ', 'LNOT', 'XOR', 'NXOR'})):
                got = em.emitted(m, q, state)
                bad = sorted(f'{k}:{v}' for k, v in got if (k == 'code' and v not in allowed_codes) or (k == 'type' and v not in allowed_types))
                ck.check(not bad, REACH, m, fn, f'{q}: with basis {state} only {state} gates can be emitted (branches on the basis pruned, callees followed)',
                         f'gate kinds outside {state} reachable: {bad}', construct=f'{q} emits under {state}', detail=sorted(f'{k}:{v}' for k, v in got))
    return n_ts


def _normalised_at(m, fn, node, x, _depth=0):
    """Is name `x` guaranteed to hold a GenerationBasis member at `node`?"""
    params = param_names(fn)
    if x in params and fn.name.startswith('_') and _depth < 3:
        # a private helper: the typestate of its parameter is that of the argument at every call site in the module
        sites = []
        for q2, caller in m.functions.items():
            for c in calls_in(caller, fn.name):
                if isinstance(c.func, ast.Name):
                    sites.append((caller, c))
        if sites:
            pos = [a.arg for a in fn.args.posonlyargs + fn.args.args]
            bad = []
            for caller, c in sites:
                arg = next((k.value for k in c.keywords if k.arg == x), None)
                if arg is None and x in pos and pos.index(x) < len(c.args):
                    arg = c.args[pos.index(x)]
                if arg is None:
                    d = None
                    for a_, dv in zip((fn.args.posonlyargs + fn.args.args)[::-1], fn.args.defaults[::-1]):
                        if a_.arg == x:
                            d = dv
                    for a_, dv in zip(fn.args.kwonlyargs, fn.args.kw_defaults):
                        if a_.arg == x:
                            d = dv
                    if d is not None and 'GenerationBasis.' in norm(d):
                        continue
                    bad.append(f'{caller.name}: no argument for `{x}`')
                elif 'GenerationBasis.' in norm(arg) and isinstance(arg, ast.Attribute):
                    continue
                elif isinstance(arg, ast.Name):
                    ok2, why2 = _normalised_at(m, caller, c, arg.id, _depth + 1)
                    if not ok2:
                        bad.append(f'{caller.name} passes `{arg.id}`: {why2}')
                else:
                    bad.append(f'{caller.name} passes `{norm(arg)}`')
            if not bad:
                return True, ''
            return False, f'`{x}` of the private helper {fn.name} is compared raw and ' + '; '.join(bad[:2])
    if x in params:
        # must have been rebound: `if isinstance(x, str): x = GenerationBasis(x.upper())` earlier at top level
        for st in fn.body:
            if st.lineno >= node.lineno:
                break
            if isinstance(st, ast.If) and norm(st.test) == f'isinstance({x}, str)' and any(norm(s) == f'{x} = GenerationBasis({x}.upper())' for s in st.body):
                return True, ''
        return False, (f'`{x}` is annotated Union[str, GenerationBasis] and is compared raw: a basis given as the string \'AIG\' never equals GenerationBasis.AIG, '
                       f'so the non-AIG branch is taken silently')
    # local: all its bindings must be normalisations of a basis parameter
    defs = []
    for n in ast.walk(fn):
        if isinstance(n, ast.Assign) and any(is_name(t, x) for t in n.targets):
            defs.append(n)
    if not defs:
        return False, f'`{x}` has no local definition'
    for d in defs:
        v = norm(d.value)
        par = m.parents[d]
        if v.startswith('GenerationBasis(') and v.endswith('.upper())'):
            if not (isinstance(par, ast.If) and norm(par.test).startswith('isinstance(') and norm(par.test).endswith(', str)') and d in par.body):
                return False, f'`{norm(d)}` is not guarded by isinstance(..., str)'
        elif v in params:
            if not (isinstance(par, ast.If) and norm(par.test).startswith('isinstance(') and d in par.orelse):
                return False, f'`{norm(d)}` copies the raw parameter outside the else-branch of the isinstance test'
        else:
            return False, f'`{norm(d)}` is not a normalisation'
    return True, ''


def run(ck: Checker):
    repo = ck.repo
    den = Denotations(repo)
    eff = Effects(repo)
    B = G.GadgetBench(repo, den)
    public = R.public_names(repo)
    ck.rule('C07.GADGET', 'straight-line adder gadgets folded over a recording circuit satisfy their arithmetic specification for every input value (half/full adders in both bases, Stockmeyer block, MDFA, simplified MDFA)')
    ck.rule('C07.BASIS-TS', 'typestate of `basis`: a Union[str, GenerationBasis] value is compared with enum members only after normalisation')
    ck.rule('C07.BASIS-REACH', 'gate kinds reachable on paths where the basis is AIG (XAIG) stay inside AIG (XAIG)')
    ck.rule('C07.ADD-ONLY', 'generators touch the host circuit only through add_gate/emplace_gate, read-only queries and the output interface; new labels come from freshness loops')
    ck.rule('C07.ARGS', 'no label-sequence argument is mutated in place')
    ck.rule('C07.ENDIAN', 'functions with big_endian reverse every operand number at entry and convert every returned number back on every return path (or delegate)')
    ck.rule('C07.PLACEHOLDER', 'lists pre-filled with the placeholder label are completely overwritten before they are returned (abstract execution over operand sizes, callee results abstracted)')
    gadget_rules(ck, B)
    ck.floor('C07.GADGET', 7)
    ck.rule('C07.FOLD', 'for-range templates instantiated for small widths, every operand value, both endiannesses, on a host circuit with gates of its own: the loop-only branch of the shifted adder (shift >= len(a)); add_sum_two_numbers = a + b and add_sum_two_numbers_with_shift = a + b * 2^shift with the while-loop bit counters replaced by their contract')
    fold_shift_branch(ck, B)
    from .. import arith_folds
    arith_folds.fold_adders(ck, 'C07.FOLD')
    ck.floor('C07.FOLD', 3)
    ck.rule('C07.NUM', 'the bit counters (add_sum_n_bits in both bases, add_sum_n_bits_easy, add_sum_pow2_m1) and the weighted-sum schedulers instantiated as they stand (work lists, sorted queues) on a host circuit with gates of its own: the result decodes to the number of True operands / levels pairwise distinct and the weighted sum preserved, for every operand value, both endiannesses, requested basis respected')
    from .. import num_folds
    num_folds.fold_bit_counters(ck, 'C07.NUM')
    ck.floor('C07.NUM', 5)
    # shape rules about the same loops (they state the clause for any number of operands, but know one way of writing the loops)
    with ck.soft('C07.NUM (bit counters and weighted sums instantiated as they stand)'):
        worklist_rule(ck)
    with ck.soft('C07.NUM (add_sum_pow2_m1 instantiated as it stands)'):
        transpose_rule(ck)
    # the two shape rules about the same clause (typestate of `basis`, reachable gate kinds) know one way of writing the dispatch
    with ck.soft('C07.BASIS (functions instantiated per basis spelling)'):
        n_ts = basis_rules(ck, [SUM], public)
        ck.need(n_ts >= 2, f'only {n_ts} basis comparisons found in summation.py (5 on the pinned tree)')
        ck.floor('C07.BASIS-REACH', 10)
    R.check_add_only(ck, 'C07.ADD-ONLY', [SUM, R.ARITH + '._utils'])
    R.check_fresh_labels(ck, 'C07.ADD-ONLY', [SUM])
    R.check_fresh_generated(ck, 'C07.ADD-ONLY', [SUM])
    ck.floor('C07.ADD-ONLY', 20)
    R.check_args(ck, eff, 'C07.ARGS', [SUM, R.ARITH + '._utils'])
    R.check_multiset(ck, 'C07.ARGS', [SUM, R.ARITH + '._utils'])
    ck.floor('C07.ARGS', 30)
    ck.rule('C07.ENDIAN-REL', 'endianness as a relation: for every public generator with a big_endian parameter the big-endian call on operands given most significant bit first returns the reversed result of the little-endian call (both instantiated on equal host circuits, every value of the operand bits)')
    from .. import num_folds as _nfe
    _compared = _nfe.fold_endian_rel(ck, 'C07.ENDIAN-REL', [SUM], public, ENDIAN_EXEMPT)
    ck.floor('C07.ENDIAN-REL', 3)
    # the shape rule (reverse at entry, convert every return) knows one way of writing it: soft where the relation was instantiated
    with ck.soft('C07.ENDIAN-REL (both endiannesses instantiated and compared)'):
        R.check_endian(ck, 'C07.ENDIAN', [SUM], public, ENDIAN_EXEMPT, names=_compared)
    R.check_endian(ck, 'C07.ENDIAN', [SUM], public, ENDIAN_EXEMPT, but=_compared)
    ck.rule('C07.BASIS', 'every public function of the summation module that takes `basis`, instantiated with the basis spelled as a string (upper / lower case) and as the enum member for a range of sizes: only gates of the requested basis are created, and the result is still right')
    num_folds.fold_basis(ck, 'C07.BASIS')
    ck.floor('C07.BASIS', 4)
    n = R.check_placeholders(ck, 'C07.PLACEHOLDER', [SUM])
    ck.need(n >= 1, f'only {n} placeholder-using functions of summation.py could be analysed (2 on the pinned tree)')
    ck.assume('level bookkeeping, distinct levels, the sum identity of composed circuits and the gate-count bounds are not decided')
    ck.assume('emplace_gate/add_gate refuse existing labels (C02.VALID), so only fresh gates are added and pre-existing gates keep their function')


def fold_shift_branch(ck: Checker, B):
    from ..interp import InterpRaise
    from .. import semantics
    m = ck.repo.mod(SUM)
    fn = m.func('add_sum_two_numbers_with_shift')

    def num(bits, be):
        bits = list(bits)
        if be:
            bits.reverse()
        return sum(int(b) << i for i, b in enumerate(bits))

    probs = []
    n_cases = 0
    for n in (1, 2):
        for mm in (1, 2):
            for shift in range(n, n + 4):
                for be in (False, True):
                    n_cases += 1
                    try:
                        c, names = B.host(n + mm)
                        res = B.run(SUM, 'add_sum_two_numbers_with_shift', c, shift, list(names[:n]), list(names[n:]), big_endian=be)
                    except InterpRaise as e:
                        probs.append(f'widths {n},{mm} shift {shift} big_endian={be}: raises {e.exc_name}')
                        continue
                    bad = [r for r in res if r not in c._gates]
                    if bad:
                        probs.append(f'widths {n},{mm} shift {shift}: result names missing gates {bad}')
                        continue
                    for vals in semantics.bools(n + mm):
                        a = dict(zip(names, vals))
                        A, Bv = num(vals[:n], be), num(vals[n:], be)
                        got = num([c.evaluate(r, a) for r in res], be)
                        if got != A + (Bv << shift) or len(res) != mm + shift:
                            probs.append(f'widths {n},{mm} shift {shift} big_endian={be}: {A} + {Bv}*2^{shift} gives {got} on {len(res)} bits')
                            break
    ck.check(not probs, 'C07.FOLD', m, fn, f'add_sum_two_numbers_with_shift with shift >= len(a): a + b * 2^shift ({n_cases} instances)', '; '.join(probs[:3]),
             construct='add_sum_two_numbers_with_shift large-shift branch')


def worklist_rule(ck: Checker, rule='C07.WORKLIST'):
    """Level-by-level summation keeps pending bits in sorted work lists guarded by a sentinel; a work list that
    receives new items inside the loop must take part in the loop condition, otherwise pending items are dropped."""
    ck.rule(rule, 'every sentinel-guarded work list that receives items inside the level loop occurs in the loop condition (pending carries are never abandoned)')
    m = ck.repo.mod(SUM)
    n = 0
    for q, fn in m.functions.items():
        if '.' in q:
            continue
        lists = {t.id for node in ast.walk(fn) if isinstance(node, ast.Assign) and isinstance(node.value, ast.Call) and call_name(node.value) == 'SortedList'
                 for t in node.targets if isinstance(t, ast.Name)}
        if not lists:
            continue
        for w in [x for x in fn.body if isinstance(x, ast.While)]:
            n += 1
            fed = {c.func.value.id for c in calls_in(w) if isinstance(c.func, ast.Attribute) and c.func.attr == 'add' and isinstance(c.func.value, ast.Name) and c.func.value.id in lists}
            in_test = {x.id for x in ast.walk(w.test) if isinstance(x, ast.Name)}
            missing = sorted(fed - in_test)
            ck.check(not missing, rule, m, w, f'{q}: the level loop runs while any fed work list still holds items',
                     f'work list(s) {missing} receive items inside the loop but the loop condition `{norm(w.test)}` ignores them: the loop can stop while carried bits are still pending and the top result bits are dropped',
                     construct=f'{q} level loop condition')
    ck.need(n >= 2, f'only {n} work-list loops found in summation.py (2 confirmed)')


def transpose_rule(ck: Checker, rule='C07.TRANSPOSE'):
    """add_sum_pow2_m1 sums blocks of different sizes (2^k - 1 bits give k result bits) and then regroups the block
    results by level; the regrouping must keep the longer blocks' high bits (confirmed instance, kept as a table entry)."""
    ck.rule(rule, 'block results of different lengths are regrouped by level without truncation (zip_longest, empty slots filtered)')
    m = ck.repo.mod(SUM)
    fn = m.func('add_sum_pow2_m1')
    regroup = [n for n in ast.walk(fn) if isinstance(n, ast.Call) and call_name(n) in ('zip', 'zip_longest') and len(n.args) == 1 and isinstance(n.args[0], ast.Starred) and norm(n.args[0].value) == 'out']
    ck.need(len(regroup) == 1, f'{m.rel}: regrouping of the block results in add_sum_pow2_m1 not found')
    ck.check(call_name(regroup[0]) == 'zip_longest', rule, m, regroup[0], 'add_sum_pow2_m1 regroups ragged block results with zip_longest',
             '`zip(*out)` stops at the shortest block: when a level is cut into blocks of different size the larger block\'s high carry is silently dropped (wrong sums / products for >= 8 equal-weight bits)',
             construct='add_sum_pow2_m1 regrouping of block results')
