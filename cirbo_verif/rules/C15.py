"""C15 -- evaluation under partial assignments is sound and monotone."""

from __future__ import annotations

import ast
import itertools

from ..core import Checker, call_name, norm, walk_no_nested
from ..tables import Denotations, TRI, U, _U, tri_name
from .. import semantics
from .C01 import apply_rules, CIRCUIT


def run(ck: Checker):
    repo = ck.repo
    den = Denotations(repo)
    max_n = 4 if ck.tier == 'quick' else 5
    ck.rule('C15.KLEENE', 'for every operator and every operand tuple over {False, True, Undefined} (arity <= 3, 4 thorough; this covers the fold composition): '
                          'a defined result equals the result under every completion of the undefined operands; all-defined operands give a defined result')
    ck.rule('C15.DEFAULT', 'both evaluators default every unassigned input to Undefined before evaluating, and gate values flow only through operators (C01.APPLY)')
    n_entries = 0
    for var, t in den.types.items():
        if t._operator is None:
            continue
        name = t._name
        opfn = den.op_func(t._operator)
        for n in semantics.arities(name, max_n):
            probs = []
            for xs in itertools.product(TRI, repeat=n):
                n_entries += 1
                got = den.eval_op(t._operator, xs)
                und = [i for i, x in enumerate(xs) if isinstance(x, _U)]
                if isinstance(got, str):
                    probs.append(f'{t._operator}({", ".join(tri_name(x) for x in xs)}) raises {got}')
                    continue
                if not und:
                    if not isinstance(got, bool):
                        probs.append(f'{t._operator}({", ".join(tri_name(x) for x in xs)}) = {got!r} on a total assignment')
                    continue
                if isinstance(got, _U):
                    continue
                if not isinstance(got, bool):
                    probs.append(f'{t._operator}({", ".join(tri_name(x) for x in xs)}) = {got!r}: not a gate state')
                    continue
                for comp in itertools.product((False, True), repeat=len(und)):
                    ys = list(xs)
                    for i, v in zip(und, comp):
                        ys[i] = v
                    full = den.eval_op(t._operator, tuple(ys))
                    if full is not got and full != got:
                        probs.append(
                            f'{t._operator}({", ".join(tri_name(x) for x in xs)}) = {tri_name(got)} but the completion '
                            f'({", ".join(tri_name(y) for y in ys)}) gives {tri_name(full) if not isinstance(full, str) else full}'
                        )
                        break
            ck.check(not probs, 'C15.KLEENE', den.ops, opfn, f'{t._operator}/{n}: defined results are stable under every completion',
                     '; '.join(probs[:3]), construct=f'{t._operator} three-valued /{n}')
    ck.notes['three_valued_entries_enumerated'] = n_entries
    ck.floor('C15.KLEENE', 34)

    m = repo.mod(CIRCUIT)
    for fname in ('Circuit.evaluate_full_circuit', 'Circuit.evaluate_circuit'):
        fn = m.func(fname)
        p = fn.args.args[1].arg
        good = False
        first_apply_line = min((n.lineno for n in ast.walk(fn) if isinstance(n, ast.Attribute) and n.attr == 'operator'), default=None)
        for st in fn.body:
            if isinstance(st, ast.For) and norm(st.iter) in ('self._inputs', 'self.inputs') and len(st.body) == 1:
                b = st.body[0]
                if isinstance(b, ast.Expr) and isinstance(b.value, ast.Call) and call_name(b.value) == 'setdefault' \
                        and len(b.value.args) == 2 and norm(b.value.args[0]) == norm(st.target) and norm(b.value.args[1]) == 'Undefined':
                    amap = norm(b.value.func.value)
                    good = first_apply_line is not None and st.lineno < first_apply_line
                    # the map is a copy of the caller's assignment
                    from ..core import single_def
                    d = single_def(fn, amap)
                    good = good and d is not None and norm(d) == f'dict({p})'
        ck.decide(True if good else None, 'C15.DEFAULT', m, fn, f'{fname}: every input absent from the assignment is Undefined before evaluation; the assignment is copied',
                  'no `for i in self._inputs: A.setdefault(i, Undefined)` on a copy `dict(assignment)` before the first operator application',
                  construct=f'{fname} defaulting loop', covered_by='C15.FOLD (absent inputs behave as Undefined ones; the caller\'s assignment is untouched)')
    ck.floor('C15.DEFAULT', 2)
    ck.rule('C15.FOLD', 'the evaluators folded on instances of the repository\'s Circuit class over a family of model circuits and every assignment over False/True/Undefined: a reported True/False holds under every completion, defining one more input never changes a defined result, total assignments leave no evaluated gate undefined, absent inputs are Undefined, the caller\'s assignment is untouched')
    from .. import eval_fold
    eval_fold.fold_evaluators(ck, 'C15.FOLD')
    ck.rule('C15.HIST', 'evaluate_full_circuit and evaluate_circuit folded at random points of seeded histories of public mutations: a total assignment leaves no evaluated gate undefined and gives the value the circuit computes then (shared machinery with C02.HIST)')
    from .. import history_fold
    history_fold.fold_histories(ck, 'C15.HIST', only=(), observers=('evaluate_full_circuit', 'evaluate_circuit'), n_hist=(120 if ck.tier == 'quick' else 1200))
    ck.floor('C15.HIST', 2)
    ck.floor('C15.FOLD', 6)
    # values flow only through operators
    ck.rule('C01.APPLY', 'shape of the evaluators (shared with C01)')
    with ck.soft('C15.FOLD / C15.HIST (evaluators folded over model circuits and inside histories)'):
        apply_rules(ck, 'C01.APPLY', covered_by='C15.FOLD (fold of the evaluators over model circuits)')
    ck.assume('traversal order/termination of the explicit-stack evaluator is not decided here (C01/C20 undecided clause)')
