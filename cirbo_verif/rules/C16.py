"""C16 -- the database codec never silently changes a circuit."""

from __future__ import annotations

import ast
import io
import itertools

from ..core import AnalysisError, Checker, always_raises, call_name, calls_in, deref, gate_const, norm, walk_no_nested, single_def
from ..guards import dominating_tests
from ..interp import Host, Instance, Interp, InterpRaise, RepoClass, RepoFunc
from ..tables import Denotations, GateTypeVal, gate_overrides
from .. import semantics

ENC = 'cirbo.circuits_db.circuits_encoding'
BIT = 'cirbo.circuits_db.bit_io'
BDI = 'cirbo.circuits_db.binary_dict_io'


class HostStream(Host):
    def __init__(self, data=b''):
        self._io = io.BytesIO(data)

    def read(self, n=-1):
        return self._io.read(n)

    def write(self, b):
        return self._io.write(b)

    def getvalue(self):
        return self._io.getvalue()


class _RecWriter(Host):
    """Recording stand-in for BitWriter (the bit packing itself is folded under C16.MIRROR)."""

    def __init__(self):
        self.words = []

    def write_number(self, number, bit_size):
        if number < 0 or number >= (1 << bit_size):
            raise InterpRaise('BitIOError')
        self.words.append((number, bit_size))

    def write_byte(self, number):
        self.write_number(number, 8)


class _RecReader(Host):
    def __init__(self, words):
        self.words = list(words)
        self.mismatch = None

    def read_number(self, bit_size):
        if not self.words:
            raise InterpRaise('BitIOError')
        n, w = self.words.pop(0)
        if w != bit_size and self.mismatch is None:
            self.mismatch = f'reads {bit_size} bits where {w} were written'
        return n

    def read_byte(self):
        return self.read_number(8)


def gate_round_trip(ck: Checker, m, it, types, ids, arity, R='C16.GATE-RT'):
    """_encode_gate followed by _decode_gate, folded for every type of the format and every order /
    repetition of operand identifiers: the decoded gate has the same type and reads the same gates in
    the same order."""
    from ..rewrites import FakeCircuit, FakeGate
    ck.rule(R, 'gate-level round trip: _encode_gate then _decode_gate folded for every type of the format and every operand identifier pattern (ascending, descending, repeated) on a recording bit stream: the decoded gate computes the same function of the same operand gates (operand order matters for the order-sensitive types), nothing left unread')
    it.overrides['cirbo.core.circuit.gate.Gate'] = FakeGate
    it._globals_cache.clear()
    # (the two helpers are private: the gate-level fold knows them by the parameter lists they have on the pinned tree; written
    # another way, the clause is left to the round trip of whole circuits, C16.RT, whose family has every type of the format with
    # ascending, descending and repeated operands)
    sig = lambda name: [a.arg for a in m.func(name).args.args] if name in m.functions else None  # noqa: E731
    if sig('_encode_gate') is None or sig('_decode_gate') is None or len(sig('_encode_gate')) != 4 or sig('_decode_gate')[1:] != ['word_size', 'gates', 'circuit']:
        ck.notes.setdefault('structural_rules_not_applicable', []).append(f'gate-level round trip: _encode_gate{sig("_encode_gate")} / _decode_gate{sig("_decode_gate")} are not the helpers the fold knows [left to C16.RT]')
        return 0
    eg = RepoFunc(it, m, m.func('_encode_gate'))
    dg = RepoFunc(it, m, m.func('_decode_gate'))
    n = 0
    for t in ids:
        a = arity[t]
        pats = {0: [()], 1: [(0,), (2,)], 2: [(0, 1), (1, 0), (2, 2), (2, 0), (1, 2)]}.get(a, [tuple(range(a)), tuple(reversed(range(a)))])
        # operand counts the format does not define for this type: refused with the codec error, or (constants)
        # still the same function after the round trip -- never a silently different gate
        cls = semantics.ORACLE[t][0]
        for k in (0, 1, 2, 3):
            legal = cls == semantics.ANY or (cls[0] == 'fixed' and k == cls[1]) or (cls[0] == 'atleast' and k >= cls[1])
            if k != a and legal:
                pats = pats + [tuple(range(k))]
        probs = []
        for pat in pats:
            n += 1
            labels = ['a', 'b', 'c']
            idents = {'a': 0, 'b': 1, 'c': 2}
            w = _RecWriter()
            it.steps = 0
            try:
                eg(w, FakeGate('g', types[t], tuple(labels[i] for i in pat)), dict(idents), 3)
            except InterpRaise as e:
                if not (len(pat) != a and e.exc_name == 'CircuitEncodingError'):
                    probs.append(f'operand ids {pat}: encoder raises {e.exc_name}')
                continue
            c = FakeCircuit(types['INPUT'])
            gates = {}
            for i in range(3):
                c.emplace_gate(f'gate_{i}', types['INPUT'])
                gates[i] = c._gates[f'gate_{i}']
            r = _RecReader(w.words)
            try:
                dg(r, 3, gates, c)
            except InterpRaise as e:
                probs.append(f'operand ids {pat}: decoder raises {e.exc_name} on the words {w.words}')
                continue
            new = [g for l, g in c._gates.items() if l not in ('gate_0', 'gate_1', 'gate_2')]
            got = (new[0].gate_type.var, tuple(int(o.split('_')[1]) for o in new[0].operands)) if len(new) == 1 else None
            def _val(name, xs):
                try:
                    return semantics.value(name, xs)
                except TypeError:
                    return ('illegal arity', name, len(xs))
            same = got is not None and all(_val(t, [v[i] for i in pat]) == _val(got[0], [v[i] for i in got[1]]) and not isinstance(_val(t, [v[i] for i in pat]), tuple) for v in semantics.bools(3))
            if not same or r.words or r.mismatch or getattr(gates.get(3), 'label', None) != (new[0].label if new else None):
                probs.append(f'{t} over gate ids {pat} is written as {w.words} and read back as {got}: not the same function of the same gates' + (f' ({r.mismatch})' if r.mismatch else '') + (f'; words left unread: {r.words}' if r.words else ''))
        ck.check(not probs, R, m, m.func('_encode_gate'), f'{t}: encode then decode gives a gate computing the same function of the same operand gates ({len(pats)} identifier patterns: ascending, descending, repeated)',
                 '; '.join(probs[:2]), construct=f'_encode_gate/_decode_gate round trip of {t}')
    ck.floor(R, 12)
    return n


def run(ck: Checker):
    ck.rule('C16.RT', 'encode_circuit then decode_circuit folded (bit writer and reader included) on instances of the repository\'s Circuit class over a family of model circuits: a codec error, or the same numbers of inputs, outputs and gates and the same truth table; circuits within the format are never refused')
    from .. import eval_fold
    eval_fold.fold_codec(ck, 'C16.RT')
    # everything structural below speaks where it recognises the code; the folds inside (marked hard) keep their verdicts
    with ck.soft('C16.RT / C16.GATE-RT / the bit- and dictionary-level folds'):
        _body(ck)


def _body(ck: Checker):
    repo = ck.repo
    den = Denotations(repo)
    m = repo.mod(ENC)
    ck.rule('C16.IDS', 'gate-type ids are injective, fit GATE_TYPE_BIT_SIZE bits, and the decoder table is the inverse of the encoder table')
    ck.rule('C16.ARITY', 'the number of operand words written per gate is the number the decoder reads: the encoder loop is dominated by a raise of CircuitEncodingError when len(operands) != _get_arity(type) (or bounded by _get_arity); _get_arity(t) is a legal arity of t\'s operator')
    ck.rule('C16.ORDER', 'identifiers are assigned operands-first (the decoder rejects forward references): top_sort(inverse=True) order or an assignment guarded by "all operands already numbered"')
    ck.rule('C16.WIDTH', 'every quantity written with word_size bits is bounded by an argument of the max(...) in _get_word_size')
    ck.rule('C16.MIRROR', 'encoder and decoder perform the same sequence of writes/reads with the same widths; BitWriter/BitReader folded over every bit alignment and length are mutual inverses and refuse oversized numbers; binary dict writer/reader folded on sample dictionaries are mutual inverses')
    ck.rule('C16.LEN', 'in write_binary_dict the object whose length is written is the object that is written')
    ck.rule('C16.EXACT', 'every stream.read of the dict reader is length-checked, all normal exits pass through _expect_eof; truncated and trailing data are rejected')

    ov = gate_overrides(den)
    types = {t.var: t for t in ov.values() if isinstance(t, GateTypeVal)}
    it = Interp(repo, overrides=ov)

    # ---- IDS ----
    ck.hard_on()
    d = m.assign('_gate_type_to_int')
    ck.need(isinstance(d, ast.Dict), f'{m.rel}: _gate_type_to_int is not a dict literal')
    bits = it.global_value(m, 'GATE_TYPE_BIT_SIZE')
    ids = {}
    for k, v in zip(d.keys, d.values):
        t = gate_const(repo, m, k)
        ck.need(t is not None and isinstance(v, ast.Constant) and isinstance(v.value, int), f'{m.rel}: entry `{norm(k)}: {norm(v)}` not understood')
        dup = [o for o, i in ids.items() if i == v.value]
        ck.check(not dup and 0 <= v.value < (1 << bits), 'C16.IDS', m, k, f'id of {t} is unique and fits {bits} bits',
                 f'id {v.value} ' + (f'is shared with {dup}' if dup else f'does not fit {bits} bits'), construct=f'_gate_type_to_int[{t}] = {v.value}')
        ids[t] = v.value
    inv = m.assign('_int_to_gate_type')
    inv_val = it.global_value(m, '_int_to_gate_type')
    ok = isinstance(inv_val, dict) and {k: v.var for k, v in inv_val.items()} == {i: t for t, i in ids.items()}
    ck.check(ok, 'C16.IDS', m, inv, 'the decoder table is exactly the inverse of the encoder table', f'_int_to_gate_type = {inv_val}', construct='_int_to_gate_type inverse')
    ck.floor('C16.IDS', 15)

    # ---- ARITY ----
    ga = RepoFunc(it, m, m.func('_get_arity'))
    arity = {}
    for t in ids:
        a = ga(types[t])
        arity[t] = a
        cls = semantics.ORACLE[t][0]
        legal = cls == semantics.ANY or (cls[0] == 'fixed' and a == cls[1]) or (cls[0] == 'atleast' and a >= cls[1])
        ck.check(legal, 'C16.ARITY', m, m.func('_get_arity'), f'the format\'s operand count of {t} ({a}) is a legal arity of its operator',
                 f'_get_arity({t}) = {a} but the operator takes {cls}', construct=f'_get_arity({t}) = {a}')
    gate_round_trip(ck, m, it, types, ids, arity)
    ck.hard_off()
    refuses_fold = not any(o.rule == 'C16.GATE-RT' and o.status == 'violation' for o in ck.obligations)
    eg = m.func('_encode_gate')
    gparam = eg.args.args[1].arg
    loops = [n for n in ast.walk(eg) if isinstance(n, ast.For) and f'{gparam}.operands' in norm(n.iter)]
    if len(loops) != 1:
        # another way of writing the operand words: the operand-count clause is decided by the fold above (C16.GATE-RT)
        loops = [eg]
    lp = loops[0]
    bounded = lp is not eg and norm(lp.iter) in (f'{gparam}.operands[:_get_arity({gparam}.gate_type)]',)
    guard = False
    for test, pol in (dominating_tests(m, eg, lp) if lp is not eg else []):
        if not pol and norm(test) in (f'len({gparam}.operands) != _get_arity({gparam}.gate_type)', f'_get_arity({gparam}.gate_type) != len({gparam}.operands)'):
            # the negated test dominates because the guarded block always leaves; it must leave by raising the codec error
            for s in eg.body:
                if isinstance(s, ast.If) and s.test is test and always_raises(s.body) and 'CircuitEncodingError' in norm(s.body[-1]):
                    guard = True
    if lp is eg:
        guard = refuses_fold
    ck.check(guard or bounded or lp is eg, 'C16.ARITY', m, lp, 'the encoder writes exactly as many operand words as the decoder will read (or refuses the gate with CircuitEncodingError)',
             'the operand loop writes len(operands) words but the decoder reads _get_arity(type): a gate with another operand count decodes to a silently different circuit',
             construct='_encode_gate operand loop')
    dg = m.func('_decode_gate')
    dl = [n for n in ast.walk(dg) if isinstance(n, ast.For)]
    ck.check(len(dl) == 1 and norm(dl[0].iter) == 'range(_get_arity(gate_type))', 'C16.ARITY', m, dl[0] if dl else dg, 'the decoder reads _get_arity(type) operand words',
             f'decoder loop `{norm(dl[0].iter) if dl else None}`', construct='_decode_gate operand loop')
    unsupported = [n for n in ast.walk(eg) if isinstance(n, ast.If) and norm(n.test) == 'gate_type_id is None' and always_raises(n.body)]
    ck.check(len(unsupported) == 1 and norm(single_def(eg, 'gate_type_id') or ast.Constant(0)) == f'_gate_type_to_int.get({gparam}.gate_type)', 'C16.ARITY', m, eg,
             'a gate type outside the format is refused with CircuitEncodingError', 'unsupported-type guard missing', construct='_encode_gate unsupported type guard')
    ck.floor('C16.ARITY', 17)

    # ---- ORDER ----
    en = m.func('_enumerate_gates')
    ok = False
    why = 'identifiers follow the storage order of the gate map, which does not guarantee operands before users'
    for n in ast.walk(en):
        if isinstance(n, ast.For) and 'top_sort(inverse=True)' in norm(n.iter):
            ok = True
    for n in ast.walk(en):
        if isinstance(n, ast.Assign) and isinstance(n.targets[0], ast.Subscript) and norm(n.value) == f'len({norm(n.targets[0].value)})':
            res = norm(n.targets[0].value)
            label = norm(n.targets[0].slice)
            tests = dominating_tests(m, en, n)
            for test, pol in tests:
                nm = None
                if isinstance(test, ast.UnaryOp) and isinstance(test.op, ast.Not) and isinstance(test.operand, ast.Name) and pol:
                    nm = test.operand.id
                elif isinstance(test, ast.Name) and not pol:
                    nm = test.id
                if nm:
                    # definition of the pending list inside the enclosing loop
                    defs = [s.value for s in ast.walk(en) if isinstance(s, ast.Assign) and norm(s.targets[0]) == nm]
                    for dv in defs:
                        if isinstance(dv, ast.ListComp) and len(dv.generators) == 1:
                            g = dv.generators[0]
                            if norm(g.iter).endswith(f'.get_gate({label}).operands') and [norm(i) for i in g.ifs] == [f'{norm(g.target)} not in {res}'] and norm(dv.elt) == norm(g.target):
                                ok = True
    # inputs first, in input order
    first = [s for s in en.body if isinstance(s, ast.For)]
    in_ok = bool(first) and norm(first[0].iter).endswith('.inputs') and any(norm(s) == f'result[{norm(first[0].target)}] = len(result)' for s in first[0].body)
    ck.check(ok and in_ok, 'C16.ORDER', m, en, 'inputs are numbered first in input order, then every gate after all of its operands', why if not ok else 'inputs are not numbered first in order', construct='_enumerate_gates order')
    # decoder rejects forward references
    ck.check('if arg_gate is None: raise CircuitEncodingError' in norm(dg).replace('\n', ' ').replace('    ', ''), 'C16.ORDER', m, dg, 'the decoder refuses a reference to a gate not decoded yet', 'forward-reference check missing', construct='_decode_gate forward reference check')

    # ---- WIDTH ----
    ws = m.func('_get_word_size')
    mx = [c for c in calls_in(ws) if norm(c.func) == 'max']
    ck.need(len(mx) == 1, f'{m.rel}: max(...) of _get_word_size not found')
    cparam = ws.args.args[0].arg
    margs = {norm(a).replace(cparam, 'C') for a in mx[0].args}
    ck.check(isinstance(m.parents[mx[0]], ast.Attribute) and m.parents[mx[0]].attr == 'bit_length', 'C16.WIDTH', m, ws, 'word size = bit length of the maximum', 'not max(...).bit_length()', construct='_get_word_size bit_length')
    writes = []
    for fn_name in ('_encode_circuit_parameters', '_encode_gate', '_encode_circuit_body'):
        f = m.func(fn_name)
        for c in calls_in(f, 'write_number'):
            if len(c.args) == 2 and norm(c.args[1]) == 'word_size':
                writes.append((f, c))
    min_arity = min(arity.values()) if arity else 0
    def origin(f, e, depth=0):
        """A written name that is a loop variable over a (sorted / copied) list of identifiers denotes one of them."""
        if depth > 4 or not isinstance(e, ast.Name):
            return e
        for lp_ in ast.walk(f):
            if isinstance(lp_, (ast.For, ast.comprehension)) and isinstance(lp_.target, ast.Name) and lp_.target.id == e.id:
                src = lp_.iter
                while True:
                    if isinstance(src, ast.Call) and norm(src.func) in ('sorted', 'list', 'tuple', 'reversed') and src.args:
                        src = src.args[0]
                    elif isinstance(src, ast.Name) and single_def(f, src.id) is not None:
                        src = single_def(f, src.id)
                    else:
                        break
                if isinstance(src, (ast.ListComp, ast.GeneratorExp)):
                    return origin(f, src.elt, depth + 1)
        d = single_def(f, e.id)
        return origin(f, d, depth + 1) if d is not None else e

    for f, c in writes:
        x = norm(origin(f, c.args[0]))
        cp = next((a.arg for a in f.args.args if a.arg == 'circuit'), 'circuit')
        xs = x.replace(cp, 'C')
        if xs in margs:
            ok, why = True, ''
        elif xs.startswith('gate_identifiers['):
            ok = 'C.size - 1' in margs or 'C.size' in margs
            why = 'gate identifiers range up to size - 1, which is not an argument of the maximum'
        elif xs == 'C.gates_number([gate.INPUT])':
            ok = ('C.size' in margs) or ('C.size - 1' in margs and min_arity >= 1 and guard)
            why = 'the number of non-input gates (size - inputs) can exceed every argument of the maximum'
        else:
            ok, why = False, f'quantity `{x}` is not covered by the maximum {sorted(margs)}'
        ck.check(ok, 'C16.WIDTH', m, c, f'`{x}` fits word_size bits', why, construct=f'{f.name}: write_number({x}, word_size)')
    ck.floor('C16.WIDTH', 5)
    if min_arity >= 1 and guard:
        ck.assume('every encodable non-input gate has >= 1 operand (enforced by the arity guard), so an acyclic circuit with a non-input gate has an input and size - inputs <= size - 1')

    # ---- MIRROR: encoder/decoder sequences ----
    def seq(fn_name, meth):
        f = m.func(fn_name)
        out = []
        for c in sorted(calls_in(f), key=lambda c: (c.lineno, c.col_offset)):
            if call_name(c) == meth:
                out.append(norm(c.args[-1]) if c.args else 'byte')
            elif call_name(c) == meth.replace('number', 'byte'):
                out.append('byte')
        return out

    pairs = [('_encode_header', '_decode_header'), ('_encode_circuit_parameters', '_decode_circuit_parameters')]
    for e, dname in pairs:
        a, b = seq(e, 'write_number'), seq(dname, 'read_number')
        ck.check(a == b and a, 'C16.MIRROR', m, m.func(dname), f'{e} and {dname} use the same sequence of widths', f'writes {a}, reads {b}', construct=f'{e} / {dname}')
    pe = [norm(c.args[0]) for c in calls_in(m.func('_encode_circuit_parameters'), 'write_number')]
    pd = m.func('_decode_circuit_parameters')
    rets = [n for n in ast.walk(pd) if isinstance(n, ast.Return)]
    dnames = [norm(s.targets[0]) for s in pd.body if isinstance(s, ast.Assign) and call_name(s.value) == 'read_number']
    ck.check(len(pe) == 3 and 'inputs' in pe[0] and 'outputs' in pe[1] and 'gates_number' in pe[2] and rets and norm(rets[0].value) == f'({", ".join(dnames)})'
             and dnames == ['inputs_count', 'outputs_count', 'intermediates_count'], 'C16.MIRROR', m, pd, 'parameters are written and read as (inputs, outputs, non-input gates)',
             f'written {pe}, read {dnames}', construct='circuit parameters order')
    a, b = seq('_encode_gate', 'write_number'), seq('_decode_gate', 'read_number')
    ck.check(a == ['GATE_TYPE_BIT_SIZE', 'word_size'] and b == a, 'C16.MIRROR', m, dg, 'a gate is its type id on GATE_TYPE_BIT_SIZE bits followed by operand ids on word_size bits', f'writes {a}, reads {b}', construct='_encode_gate / _decode_gate')
    eb, db = m.func('_encode_circuit_body'), m.func('_decode_circuit_body')
    e_loops = [norm(n.iter) for n in eb.body if isinstance(n, ast.For)]
    d_loops = [norm(n.iter) for n in db.body if isinstance(n, ast.For)]
    ck.check(e_loops == ['gate_identifiers.keys()', f'{eb.args.args[2].arg}.outputs'] and d_loops == ['range(inputs_count)', 'range(intermediates_count)', 'range(outputs_count)'],
             'C16.MIRROR', m, db, 'body = all gates in identifier order, then the outputs in output order', f'encoder loops {e_loops}, decoder loops {d_loops}', construct='_encode_circuit_body / _decode_circuit_body')
    src = norm(db)
    ck.check('circuit.mark_as_output(_generate_label(output_id))' in src and 'gate_ = Gate(_generate_label(i), gate.INPUT)' in src and 'gate_id = len(gates)' in norm(dg) and 'label = _generate_label(gate_id)' in norm(dg),
             'C16.MIRROR', m, db, 'decoded gates are labelled by their identifier, outputs refer to identifiers', 'labelling changed', construct='decoder labelling')
    ec, dc = m.func('encode_circuit'), m.func('decode_circuit')
    ck.check([call_name(c) for c in sorted(calls_in(ec), key=lambda c: c.lineno) if call_name(c).startswith('_encode')] == ['_encode_header', '_encode_circuit_parameters', '_encode_circuit_body']
             and [call_name(c) for c in sorted(calls_in(dc), key=lambda c: c.lineno) if call_name(c).startswith('_decode')] == ['_decode_header', '_decode_circuit_parameters', '_decode_circuit_body'],
             'C16.MIRROR', m, ec, 'header, parameters, body are written and read in that order', 'top-level order changed', construct='encode_circuit / decode_circuit')

    # ---- MIRROR: bit level, folded ----
    ck.hard_on()
    bm = repo.mod(BIT)
    W = RepoClass(bm, bm.cls('BitWriter'))
    Rd = RepoClass(bm, bm.cls('BitReader'))
    probs = []
    n_cases = 0
    for offset in range(8):
        for bl in (0, 1, 2, 3, 7, 8, 9, 13, 16, 17):
            for number in sorted({0, (1 << bl) - 1, ((1 << bl) - 1) // 3, 1 if bl else 0, (1 << (bl - 1)) if bl else 0}):
                n_cases += 1
                it.steps = 0
                try:
                    w = it.instantiate(W)
                    it.getattr(bm, None, w, 'write_number')(0b10110101 & ((1 << offset) - 1), offset)
                    it.getattr(bm, None, w, 'write_number')(number, bl)
                    it.getattr(bm, None, w, 'write_number')(5, 3)
                    data = it.getattr(bm, None, w, '__bytes__')()
                    r = it.instantiate(Rd, (data,))
                    a = it.getattr(bm, None, r, 'read_number')(offset)
                    b = it.getattr(bm, None, r, 'read_number')(bl)
                    c = it.getattr(bm, None, r, 'read_number')(3)
                    if (a, b, c) != (0b10110101 & ((1 << offset) - 1), number, 5) or len(data) != (offset + bl + 3 + 7) // 8:
                        probs.append(f'offset {offset}, {bl}-bit {number}: read back {(a, b, c)} from {len(data)} bytes')
                except InterpRaise as e:
                    probs.append(f'offset {offset}, {bl}-bit {number}: raises {e.exc_name}')
    ck.check(not probs, 'C16.MIRROR', bm, bm.func('BitWriter.write_number'), f'BitWriter/BitReader are mutual inverses at every bit alignment ({n_cases} alignment x length x value cases)',
             '; '.join(probs[:3]), construct='BitWriter.write_number / BitReader.read_number round trip')
    probs = []
    for bl in (0, 1, 3, 8):
        try:
            w = it.instantiate(W)
            it.getattr(bm, None, w, 'write_number')(1 << bl, bl)
            probs.append(f'{1 << bl} accepted on {bl} bits')
        except InterpRaise as e:
            if e.exc_name != 'BitIOError':
                probs.append(f'{bl} bits: raises {e.exc_name}')
    ck.check(not probs, 'C16.MIRROR', bm, bm.func('BitWriter.write_number'), 'a number that does not fit is refused with BitIOError', '; '.join(probs), construct='BitWriter.write_number overflow')
    try:
        r = it.instantiate(Rd, (b'\x01',))
        it.getattr(bm, None, r, 'read_number')(9)
        ck.bad('C16.MIRROR', bm, bm.func('BitReader.read'), 'reading past the end is refused', 'no error', construct='BitReader.read past end')
    except InterpRaise as e:
        ck.check(e.exc_name == 'BitIOError', 'C16.MIRROR', bm, bm.func('BitReader.read'), 'reading past the end is refused with BitIOError', f'raises {e.exc_name}', construct='BitReader.read past end')

    # ---- dict level, folded ----
    dm = repo.mod(BDI)
    wr = RepoFunc(it, dm, dm.func('write_binary_dict'))
    rd = RepoFunc(it, dm, dm.func('read_binary_dict'))
    samples = [{}, {'k': b'v'}, {'0110': b'\x00\x01\xff', '': b'', 'key2': b'x' * 300}, {'ключ': b'ab', 'kéy': b'\x00'}, {'a' * 200: b''}]
    # lengths around the middle and at the top of what the length fields can hold ("for all values within their size limits")
    for cname, mk in (('DICT_KEY_BYTE_SIZE', lambda L: {'a' * L: b'v'}), ('DICT_VALUE_BYTE_SIZE', lambda L: {'k': b'x' * L})):
        W = it.global_value(dm, cname)
        if isinstance(W, int) and 1 <= W <= 3:
            for L in ((1 << (8 * W - 1)) - 1, 1 << (8 * W - 1), (1 << (8 * W)) - 1):
                samples.append(mk(L))
    probs = []
    blobs = []
    for s in samples:
        st = HostStream()
        try:
            wr(dict(s), st)
            blob = st.getvalue()
            blobs.append(blob)
            back = rd(HostStream(blob))
            if back != s:
                probs.append(f'{[k_[:12] + ("..." if len(k_) > 12 else "") for k_ in list(s)[:2]]} (key/value lengths {[(len(k_.encode()), len(v_)) for k_, v_ in list(s.items())[:2]]}) read back differently')
        except InterpRaise as e:
            probs.append(f'a dictionary with key/value lengths {[(len(k_.encode()), len(v_)) for k_, v_ in list(s.items())[:2]]}: raises {e.exc_name}')
    ck.check(not probs, 'C16.MIRROR', dm, dm.func('write_binary_dict'), 'binary dict writer and reader are mutual inverses (incl. empty and non-ASCII keys)', '; '.join(probs[:3]), construct='write_binary_dict / read_binary_dict round trip')
    probs = []
    for blob in blobs:
        for bad, what in ((blob[:-1], 'truncated'), (blob + b'\x00', 'trailing byte')):
            if what == 'truncated' and not blob:
                continue
            try:
                rd(HostStream(bad))
                probs.append(f'{what} data of {len(blob)} bytes accepted')
            except InterpRaise as e:
                if e.exc_name != 'BinaryDictIOError':
                    probs.append(f'{what}: raises {e.exc_name}')
    ck.check(not probs, 'C16.EXACT', dm, dm.func('read_binary_dict'), 'truncated and trailing data are refused with BinaryDictIOError', '; '.join(probs[:3]), construct='read_binary_dict truncated / trailing')
    ck.hard_off()
    # size constants mirrored
    def sizes(f, helper):
        return [norm(c.args[-1]) for c in sorted(calls_in(f, helper), key=lambda c: c.lineno)]
    ck.check(sizes(dm.func('write_binary_dict'), '_write_unsigned_number') == sizes(dm.func('read_binary_dict'), '_read_unsigned_number') == ['DICT_SIZE_BYTE_SIZE', 'DICT_KEY_BYTE_SIZE', 'DICT_VALUE_BYTE_SIZE'],
             'C16.MIRROR', dm, dm.func('read_binary_dict'), 'writer and reader use the same size constants in the same order', 'size constants differ', construct='binary dict size constants')
    ck.floor('C16.MIRROR', 11)

    # ---- LEN ----
    wf = dm.func('write_binary_dict')
    body = [s for n in ast.walk(wf) if isinstance(n, ast.For) for s in n.body]
    stmts = [s for s in body if isinstance(s, ast.Expr) and isinstance(s.value, ast.Call)]
    n_pairs = 0
    for a, b in zip(stmts, stmts[1:]):
        if call_name(a.value) == '_write_unsigned_number' and call_name(b.value) == 'write':
            n_pairs += 1
            lenarg = a.value.args[1]
            written = b.value.args[0]
            ok = isinstance(lenarg, ast.Call) and norm(lenarg.func) == 'len' and norm(deref(wf, lenarg.args[0])) == norm(deref(wf, written))
            ck.check(ok, 'C16.LEN', dm, a, 'the length written is the length of the bytes written next', f'writes len of `{norm(lenarg)}` but then writes `{norm(written)}`',
                     construct=f'write_binary_dict: len({norm(lenarg.args[0]) if isinstance(lenarg, ast.Call) and lenarg.args else norm(lenarg)}) then write')
    ck.need(n_pairs == 2, f'{dm.rel}: expected two length/payload pairs in write_binary_dict, found {n_pairs}')

    # ---- EXACT (structural part) ----
    reads = []
    for q, f in dm.functions.items():
        for c in calls_in(f, 'read'):
            if isinstance(c.func, ast.Attribute) and norm(c.func.value) == 'stream':
                reads.append((q, c))
    for q, c in reads:
        ck.check(q in ('_read_exact_number_of_bytes', '_expect_eof'), 'C16.EXACT', dm, c, 'raw stream.read only inside the length-checked helpers', f'unchecked read in {q}', construct=f'{q}: {norm(c)}')
    rf = dm.func('read_binary_dict')
    rets = [n for n in walk_no_nested(rf) if isinstance(n, ast.Return)]
    ck.check(len(rets) == 1 and rf.body[-1] is rets[0] and norm(rf.body[-2]) == '_expect_eof(stream)', 'C16.EXACT', dm, rf, 'the only normal exit follows _expect_eof(stream)', 'an exit bypasses the end-of-file check', construct='read_binary_dict exit')
    ck.floor('C16.EXACT', 4)
    ck.assume('truth-table preservation of decode(encode(c)) follows from these rules by a paper argument, not mechanically')
