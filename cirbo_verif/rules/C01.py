"""C01 -- evaluation equals the denotational semantics of the gate network."""

from __future__ import annotations

import ast
import itertools

from ..core import (
    AnalysisError, Checker, call_name, calls_in, deref, gate_const, is_name, norm, GATE_NAMES,
    walk_no_nested, assignments_in,
)
from ..interp import Interp, RepoEnum
from ..tables import Denotations, TRI, U, tri_name
from .. import semantics, cnf_templates as ct, pattern_ops
from .C14 import check_rewrites

CIRCUIT = 'cirbo.core.circuit.circuit'
SEARCH = 'cirbo.synthesis.circuit_search'
UTILS = 'cirbo.synthesis.generation.arithmetics._utils'


def sem_op(ck: Checker, den: Denotations, rule='C01.SEM-OP', max_nary=4):
    """Two-valued restriction of every registered operator equals the oracle on every legal arity."""
    for var, t in den.types.items():
        if t._operator is None:
            continue
        name = t._name
        if name not in semantics.ORACLE:
            ck.bad(rule, den.gate, den.reg_nodes[var], f'{name} is a known gate type', 'registered type name unknown to the oracle')
            continue
        opfn = den.op_func(t._operator)
        for n in semantics.arities(name, max_nary):
            probs = []
            for xs in semantics.bools(n):
                got = den.eval_op(t._operator, xs)
                want = semantics.value(name, xs)
                if got is not want and not (isinstance(got, bool) and got == want):
                    probs.append(f'{t._operator}{tuple(int(x) for x in xs)} = {got!r}, {name} requires {int(want)}')
            ck.check(not probs, rule, den.ops, opfn, f'{t._operator} on {n} operands computes {name}',
                     '; '.join(probs[:3]), construct=f'{t._operator} as {name}/{n}')


def sem_reg(ck: Checker, den: Denotations, rule='C01.SEM-REG'):
    names = {t._name for t in den.types.values()}
    missing = [n for n in GATE_NAMES if n not in names]
    ck.check(not missing, rule, den.gate, den.gate.tree, 'all 19 gate types are registered',
             f'gate types missing from gate.py: {missing}', construct='GateType registrations')
    for var, t in den.types.items():
        node = den.reg_nodes[var]
        cons = f'{var} = GateType({t._name!r}, {t._operator}, {t._is_symmetric})'
        ck.check(var == t._name, rule, den.gate, node, f'constant {var} carries its own name',
                 f'constant {var} is registered under the name {t._name!r} (name-keyed tables would confuse the two)', construct=cons)
        if t._operator is None:
            ck.check(t._name == 'INPUT', rule, den.gate, node, 'only INPUT has no operator', f'{var} has no operator', construct=cons + ' operator')
            continue
        if t._is_symmetric and t._name in semantics.ORACLE:
            probs = []
            for n in semantics.arities(t._name, 3):
                for xs in semantics.bools(n):
                    base = den.eval_op(t._operator, xs)
                    for perm in itertools.permutations(xs):
                        if den.eval_op(t._operator, perm) != base:
                            probs.append(f'{t._operator}{tuple(int(x) for x in xs)} != {t._operator}{tuple(int(x) for x in perm)}')
                            break
            ck.check(not probs, rule, den.gate, node, f'{var} is flagged symmetric only if its operator is',
                     'flagged is_symmetric=True but ' + '; '.join(probs[:2]) + ' (operand-sorting signatures would merge different gates)',
                     construct=cons + ' symmetric flag')
        else:
            ck.ok(rule, den.gate, node, f'{var} not flagged symmetric', construct=cons + ' symmetric flag')


def _enum_members(repo, mod, clsname):
    it = Interp(repo)
    v = it.global_value(mod, clsname)
    if not isinstance(v, RepoEnum):
        raise AnalysisError(f'{mod.rel}: {clsname} is not an Enum')
    return v, it


def sem_sib_codes(ck: Checker, den: Denotations, rule='C01.SEM-SIB'):
    repo = ck.repo
    op_to_type = {t._operator: t._name for t in den.types.values() if t._operator}
    # (a) Operation enum: member name = operator function name, value = truth-table code
    sm = repo.mod(SEARCH)
    opn, _ = _enum_members(repo, sm, 'Operation')
    cls = sm.cls('Operation')
    member_nodes = {st.targets[0].id: st for st in cls.body if isinstance(st, ast.Assign) and isinstance(st.targets[0], ast.Name)}
    seen_codes = {}
    for mname, m in opn.members.items():
        node = member_nodes[mname]
        cons = f'Operation.{mname}'
        if mname not in op_to_type:
            ck.bad(rule, sm, node, f'{cons} names an operator of operators.py', 'member name is not the name of a registered operator', construct=cons)
            continue
        tname = op_to_type[mname]
        want = semantics.binary_code(tname)
        ck.check(m.value == want, rule, sm, node, f'{cons} carries the truth-table code of {tname}',
                 f'code {m.value!r} but {tname} is {want!r} (f(0,0)f(0,1)f(1,0)f(1,1))', construct=cons)
        if m.value in seen_codes:
            ck.bad(rule, sm, node, 'codes are distinct', f'code {m.value} also used by {seen_codes[m.value]}', construct=cons + ' distinct')
        seen_codes[m.value] = mname
    ck.check(len(opn.members) == 16, rule, sm, cls, 'Operation lists all 16 binary functions', f'{len(opn.members)} members', construct='class Operation')
    # (b) _tt_to_gate_type
    d = sm.assign('_tt_to_gate_type')
    ck.need(isinstance(d, ast.Dict), f'{sm.rel}: _tt_to_gate_type is not a dict literal')
    keys = set()
    for k, v in zip(d.keys, d.values):
        t = gate_const(repo, sm, v)
        ck.need(t is not None and isinstance(k, ast.Tuple) and all(isinstance(e, ast.Constant) for e in k.elts),
                f'{sm.rel}: entry `{norm(k)}: {norm(v)}` of _tt_to_gate_type not understood')
        code = ''.join('1' if e.value else '0' for e in k.elts)
        keys.add(code)
        want = semantics.binary_code(t) if semantics.ORACLE.get(t, (semantics.FIX1,))[0] != semantics.FIX1 else None
        ck.check(code == want, rule, sm, k, f'decoded gate type for table {code} computes that table',
                 f'table {code} decodes to {t}, whose table is {want}', construct=f'_tt_to_gate_type[{code}] = {t}')
    ck.check(len(keys) == 16, rule, sm, d, '_tt_to_gate_type has all 16 tables as keys', f'{len(keys)} distinct keys', construct='_tt_to_gate_type keys')
    # (c) binary_tt_to_type
    um = repo.mod(UTILS)
    d = um.assign('binary_tt_to_type')
    ck.need(isinstance(d, ast.Dict), f'{um.rel}: binary_tt_to_type is not a dict literal')
    keys = set()
    for k, v in zip(d.keys, d.values):
        t = gate_const(repo, um, v)
        ck.need(t is not None and isinstance(k, ast.Constant) and isinstance(k.value, str), f'{um.rel}: entry `{norm(k)}` of binary_tt_to_type not understood')
        keys.add(k.value)
        want = semantics.binary_code(t) if semantics.ORACLE.get(t, (semantics.FIX1,))[0] != semantics.FIX1 else None
        ck.check(k.value == want, rule, um, k, f'gate type for arithmetic code {k.value} computes that table',
                 f'code {k.value} maps to {t}, whose table is {want}', construct=f'binary_tt_to_type[{k.value}] = {t}')
    ck.check(len(keys) == 16, rule, um, d, 'binary_tt_to_type has all 16 codes', f'{len(keys)} distinct keys', construct='binary_tt_to_type keys')
    # add_gate_from_tt: the gate it adds computes the function its code spells, of (left, right) in that order -- folded for all
    # 16 codes on a model circuit (distinct operands and the same operand twice); how the call is written does not matter
    from ..gadgets import GadgetBench
    from ..interp import InterpRaise
    f = um.func('add_gate_from_tt')
    B = GadgetBench(repo, den)
    probs = []
    for code in [''.join(bits) for bits in itertools.product('01', repeat=4)]:
        for same in (False, True):
            c, names = B.host(2)
            left, right = names[0], (names[0] if same else names[1])
            try:
                lab = B.run(UTILS, 'add_gate_from_tt', c, left, right, code)
            except InterpRaise as e:
                probs.append(f'add_gate_from_tt(c, {left}, {right}, {code!r}) raises {e.exc_name}')
                continue
            if lab not in c._gates:
                probs.append(f'add_gate_from_tt(c, {left}, {right}, {code!r}) returns {lab!r}, which names no gate')
                continue
            for i, (a, b) in enumerate(itertools.product((False, True), repeat=2)):
                if same and a != b:
                    continue
                got = c.evaluate(lab, {names[0]: a, names[1]: b})
                if bool(got) != (code[i] == '1'):
                    probs.append(f'the gate added for code {code} over ({left}, {right}) gives {int(bool(got))} on ({int(a)}, {int(b)})')
                    break
    ck.check(not probs, rule, um, f, 'add_gate_from_tt adds, for each of the 16 codes, a gate computing that table of (left, right) in that order (operands distinct and identical)',
             '; '.join(probs[:3]), construct='add_gate_from_tt over all codes')

def apply_rules(ck: Checker, rule='C01.APPLY', covered_by='C01.EVAL (fold of the evaluators over model circuits)'):
    """Shape of the evaluators in circuit.py.  These rules state the structure for every circuit, but they only know one
    way of writing it: where the shape is not the known one the instance is handed to the fold (`covered_by`), which decides
    the behaviour of whatever is written there; a recognised shape with a wrong detail is still reported by the fold."""
    def chk(good, rule_, mod_, node_, what, msg, construct=None):
        return ck.decide(True if good else None, rule_, mod_, node_, what, msg, construct=construct, covered_by=covered_by)
    repo = ck.repo
    m = repo.mod(CIRCUIT)

    def operator_applications(fn):
        out = []
        for node in ast.walk(fn):
            if isinstance(node, ast.Call) and isinstance(node.func, ast.Attribute) and node.func.attr == 'operator':
                out.append(node)
        return out

    for fname, order_src in (('Circuit.evaluate_full_circuit', 'topsort'), ('Circuit.evaluate_circuit', 'stack')):
        fn = m.func(fname)
        apps = operator_applications(fn)
        if not apps:
            ck.skip(rule, m, fn, f'{fname}: value of a gate = its operator applied to the values of its operands in order', covered_by, construct=f'{fname} operator application')
        for app in apps:
            st = m.enclosing_stmt(app)
            g = app.func.value
            good = False
            why = 'not of the form A[g.label] = g.operator(*(A[op] for op in g.operands))'
            if isinstance(st, ast.Assign) and st.value is app and len(st.targets) == 1 and isinstance(st.targets[0], ast.Subscript):
                tgt = st.targets[0]
                amap = norm(tgt.value)
                if norm(tgt.slice) == f'{norm(g)}.label' and len(app.args) == 1 and isinstance(app.args[0], ast.Starred) and not app.keywords:
                    gen = app.args[0].value
                    if isinstance(gen, (ast.GeneratorExp, ast.ListComp)) and len(gen.generators) == 1:
                        ge = gen.generators[0]
                        if not ge.ifs and norm(ge.iter) == f'{norm(g)}.operands' and isinstance(ge.target, ast.Name) \
                                and norm(gen.elt) == f'{amap}[{ge.target.id}]':
                            good = True
                        else:
                            why = f'operand values come from `{norm(gen)}`: not every operand of the gate, in operand order, from the one assignment map'
            chk(good, rule, m, st, f'{fname}: value of a gate = its operator applied to the values of its operands in order',
                     why, construct=f'{fname} operator application')
        # the caller's assignment is copied: values computed by one call never leak into the next
        amap_def = None
        for node in ast.walk(fn):
            if isinstance(node, (ast.Assign, ast.AnnAssign)) and norm(node.targets[0] if isinstance(node, ast.Assign) else node.target) == 'assignment_dict':
                amap_def = node
        p_assign = fn.args.args[1].arg
        chk(amap_def is not None and norm(amap_def.value) in (f'dict({p_assign})', f'{p_assign}.copy()', f'copy.copy({p_assign})'), rule, m, amap_def or fn,
                 f'{fname}: gate values are written into a private copy of the assignment',
                 f'`{norm(amap_def) if amap_def is not None else None}`: the caller\'s dictionary is used as the work map, so values of inner gates from an earlier call are trusted by the next one',
                 construct=f'{fname} private assignment map')
    for fname in ('Circuit.evaluate', 'Circuit.evaluate_at'):
        fn = m.func(fname)
        p = fn.args.args[1].arg
        loops = [n for n in ast.walk(fn) if isinstance(n, ast.For)]
        good = False
        for lp in loops:
            if norm(lp.iter) in ('enumerate(self._inputs)', 'enumerate(self.inputs)') and isinstance(lp.target, ast.Tuple) and len(lp.body) == 1:
                i, lab = (norm(e) for e in lp.target.elts)
                b = lp.body[0]
                if isinstance(b, ast.Assign) and isinstance(b.targets[0], ast.Subscript) and norm(b.targets[0].slice) == lab and norm(b.value) == f'{p}[{i}]':
                    good = True
        chk(good, rule, m, fn, f'{fname}: the i-th value is bound to the i-th input label',
                 'no loop `for i, label in enumerate(self._inputs): A[label] = inputs[i]`', construct=f'{fname} input binding')
    fn = m.func('Circuit.evaluate')
    rets = [n for n in ast.walk(fn) if isinstance(n, ast.Return)]
    good = len(rets) == 1 and any(
        isinstance(n, ast.ListComp) and len(n.generators) == 1 and norm(n.generators[0].iter) in ('self._outputs', 'self.outputs')
        and not n.generators[0].ifs and isinstance(n.elt, ast.Subscript) and norm(n.elt.slice) == norm(n.generators[0].target)
        for n in ast.walk(rets[0])
    )
    chk(good, rule, m, rets[0] if rets else fn, 'evaluate returns one value per output, in output order (duplicates kept)',
             'result is not `[answer[o] for o in self._outputs]`', construct='Circuit.evaluate result')
    delegs = [c for c in calls_in(fn) if call_name(c) in ('evaluate_circuit_outputs', 'evaluate_circuit')]
    chk(len(delegs) == 1, rule, m, fn, 'evaluate delegates to the demand-driven evaluator', 'no delegation to evaluate_circuit(_outputs)', construct='Circuit.evaluate delegation')
    fn = m.func('Circuit.evaluate_circuit_outputs')
    delegs = [c for c in calls_in(fn, 'evaluate_circuit')]
    rets = [n for n in ast.walk(fn) if isinstance(n, ast.Return)]
    good = len(delegs) == 1 and len(delegs[0].args) == 1 and not delegs[0].keywords and len(rets) == 1 and isinstance(rets[0].value, ast.DictComp) \
        and norm(rets[0].value.generators[0].iter) in ('self._outputs', 'self.outputs') and not rets[0].value.generators[0].ifs
    chk(good, rule, m, fn, 'evaluate_circuit_outputs = evaluate_circuit restricted to the outputs',
             'shape changed', construct='Circuit.evaluate_circuit_outputs body')
    fn = m.func('Circuit.evaluate_at')
    delegs = [c for c in calls_in(fn, 'evaluate_circuit')]
    good = False
    if len(delegs) == 1:
        c = delegs[0]
        kw = {k.arg: k.value for k in c.keywords}
        lab = deref(fn, ast.Name('label_output')) if 'outputs' in kw else None
        outs = kw.get('outputs')
        if isinstance(outs, ast.List) and len(outs.elts) == 1:
            lab_expr = deref(fn, outs.elts[0])
            oi = fn.args.args[2].arg
            sub = m.parents.get(c)
            good = norm(lab_expr) == f'self.output_at_index({oi})' and isinstance(sub, ast.Subscript) and norm(sub.slice) == norm(outs.elts[0])
    chk(good, rule, m, fn, 'evaluate_at evaluates exactly the requested output and returns its value',
             'not of the form evaluate_circuit(A, outputs=[self.output_at_index(i)])[that label]', construct='Circuit.evaluate_at delegation')
    # demand-driven evaluator: explicit stack discipline
    fn = m.func('Circuit.evaluate_circuit')
    wl = [n for n in fn.body if isinstance(n, ast.While)]
    good = False
    why = 'stack loop not found'
    if len(wl) == 1:
        w = wl[0]
        q = norm(w.test)
        b = w.body
        if len(b) == 3 and isinstance(b[0], ast.Assign) and norm(b[0].value) == f'self.get_gate({q}[-1])' and isinstance(b[1], ast.For) and isinstance(b[2], ast.If):
            g = norm(b[0].targets[0])
            lp, cond = b[1], b[2]
            op = norm(lp.target)
            push_ok = norm(lp.iter) == f'{g}.operands' and len(lp.body) == 1 and isinstance(lp.body[0], ast.If) and not lp.body[0].orelse \
                and norm(lp.body[0].test).startswith(f'{op} not in ') and [norm(x) for x in lp.body[0].body] == [f'{q}.append({op})']
            amap = norm(lp.body[0].test).split(' not in ')[-1] if push_ok else None
            eval_ok = norm(cond.test) == f'{g}.label == {q}[-1]' and not cond.orelse and len(cond.body) == 2 and norm(cond.body[1]) == f'{q}.pop()' \
                and isinstance(cond.body[0], ast.Assign) and norm(cond.body[0].targets[0]) == f'{amap}[{g}.label]'
            good = push_ok and eval_ok
            why = f'push unevaluated operands: {push_ok}; evaluate-and-pop only when nothing was pushed: {eval_ok}'
    chk(good, rule, m, wl[0] if wl else fn, 'evaluate_circuit: a gate is evaluated and popped only when the top of the stack is still that gate, i.e. every operand already has a value; otherwise its unevaluated operands are pushed',
             why, construct='Circuit.evaluate_circuit stack loop')
    seeds = [n for n in fn.body if isinstance(n, ast.For) and norm(n.iter) == '_outputs']
    ok = len(seeds) == 1 and norm(fn.body[fn.body.index(seeds[0]) - 1]) == '_outputs = self._outputs if outputs is None else outputs'
    if ok:
        o = norm(seeds[0].target)
        ok = len(seeds[0].body) == 1 and isinstance(seeds[0].body[0], ast.If) and norm(seeds[0].body[0].test) in (f'{o} not in self._inputs', f'{o} not in assignment_dict') \
            and [norm(x) for x in seeds[0].body[0].body] == [f'queue_.append({o})']
    chk(ok, rule, m, seeds[0] if seeds else fn, 'evaluate_circuit starts from the requested outputs (all outputs by default), skipping those that are inputs',
             'seeding of the stack changed', construct='Circuit.evaluate_circuit seeding')

    # no exit bypasses the evaluation loop (must-pass-through): an early return would hand out unevaluated gates
    from ..core import walk_no_nested
    for q, is_loop in (('Circuit.evaluate_circuit', lambda n: isinstance(n, ast.While)), ('Circuit.evaluate_full_circuit', lambda n: isinstance(n, ast.For) and 'top_sort' in norm(n.iter))):
        f = m.func(q)
        loops = [n for n in f.body if is_loop(n)]
        rets = [n for n in walk_no_nested(f) if isinstance(n, ast.Return)]
        early = [r for r in rets if not loops or r.lineno < loops[-1].end_lineno]
        # an early exit decided by the circuit's own structure alone (e.g. "no gates") is not this rule's business;
        # one that depends on the assignment / requested outputs (or on nothing) skips work the caller asked for
        from ..guards import dominating_tests
        params = {a.arg for a in f.args.args + f.args.kwonlyargs} - {'self'}
        early = [r for r in early if not dominating_tests(m, f, r) or any(isinstance(x, ast.Name) and x.id in params for t, _ in dominating_tests(m, f, r) for x in ast.walk(t))]
        chk(loops and rets and not early, rule, m, early[0] if early else f, f'{q.split(".")[1]}: every exit lies behind the evaluation loop',
                 (f'`{norm(m.enclosing_stmt(early[0]))[:120]}` returns before the gates were evaluated: constants and zero-input circuits come back Undefined under a total assignment' if early else 'evaluation loop or return not found'),
                 construct=f'{q} exits behind the evaluation loop')

    # enumeration order in every whole-function query of Circuit
    n_enum = 0
    cls = m.cls('Circuit')
    for node in ast.walk(cls):
        if isinstance(node, ast.Call) and norm(node.func) == 'itertools.product':
            n_enum += 1
            first = node.args[0] if node.args else None
            good = isinstance(first, ast.Tuple) and [norm(e) for e in first.elts] == ['False', 'True'] and len(node.args) == 1 \
                and [k.arg for k in node.keywords] == ['repeat']
            chk(good, rule, m, node, 'assignments are enumerated as product((False, True), repeat=...) (truth-table order)',
                     f'enumeration `{norm(node)}` is not in truth-table order',
                     construct=f'{m.qualname_of(node)}: {norm(node)}')
    ck.need(n_enum >= 8, f'{m.rel}: only {n_enum} product enumerations found in Circuit (expected >= 8)')
    # get_truth_table: rows = outputs, columns = assignments in order
    fn = m.func('Circuit.get_truth_table')
    src = norm(fn.body[-1])
    good = 'zip(*(self.evaluate(list(x)) for x in itertools.product((False, True), repeat=self.input_size)))' in src
    chk(good, rule, m, fn.body[-1], 'truth table = transpose of evaluate over all assignments in order', 'shape changed', construct='Circuit.get_truth_table body')
    fn = m.func('Circuit.get_gates_truth_table')
    src = norm(fn)
    good = 'zip(self.inputs, _input_values)' in src.replace('self._inputs', 'self.inputs') and 'self.evaluate_full_circuit(_input_assignment)' in src
    chk(good, rule, m, fn, 'per-gate truth tables come from the topological evaluator with inputs bound in order', 'shape changed', construct='Circuit.get_gates_truth_table body')


def run(ck: Checker):
    repo = ck.repo
    den = Denotations(repo)
    max_nary = 4 if ck.tier == 'quick' else 6
    ck.rule('C01.SEM-OP', 'the two-valued restriction of every operator (folded by the mini-evaluator from operators.py) equals the oracle on every operand tuple of every legal arity')
    ck.rule('C01.SEM-REG', 'each GateType constant carries its own name and an operator with the oracle function of that name; is_symmetric only on symmetric operators; 19 types')
    ck.rule('C01.SEM-SIB', 'sibling interpreters (Operation codes, _tt_to_gate_type, binary_tt_to_type, pattern simulator, Tseytin templates, bench rewrites) denote the same function')
    ck.rule('C01.APPLY', 'evaluators apply g.operator to the values of g.operands in order from the one assignment map; inputs bound by position; enumeration in truth-table order')
    sem_op(ck, den, max_nary=max_nary)
    ck.floor('C01.SEM-OP', 30)
    sem_reg(ck, den)
    ck.floor('C01.SEM-REG', 38)
    sem_sib_codes(ck, den)
    # pattern simulator
    pattern_ops.check(ck, 'C01.SEM-SIB')
    # Tseytin
    mod, fn, dnode, table = ct.find_operations(ck)
    for t, (hmod, hname, vnode, knode) in table.items():
        if t == 'INPUT':
            continue
        for n in semantics.arities(t, 3):
            cnf = ct.clauses_of(repo, hmod, hname, n, call=table.calls[t])
            cons = f'{hname} for {t} arity {n}'
            if isinstance(cnf, str):
                ck.bad('C01.SEM-SIB', hmod, table.nodes[t], f'CNF template of {t}/{n}', f'handler rejects a legal arity ({cnf})', construct=cons)
                continue
            probs = ct.check_template(t, n, cnf)
            ck.check(not probs, 'C01.SEM-SIB', hmod, table.nodes[t], f'CNF template of {t}/{n} denotes {t}', '; '.join(probs[:2]), construct=cons)
    ct.check_repeats(ck, table, 'C01.SEM-SIB')
    # bench rewrites (function only; index/blocks are C14's)
    check_rewrites(ck, den, 'C01')
    # in C01 mode check_rewrites records only failures under C01.TPL; count the converters as instances
    from .. import rewrites as rw
    _, _, conv = rw.find_convertors(ck)
    for t, (hmod, hname, knode, vnode) in conv.items():
        if not any(o.rule == 'C01.TPL' and f' on {t}(' in (o.loc.construct or '') for o in ck.obligations):
            ck.ok('C01.SEM-SIB', hmod, conv.nodes[t], f'bench rewrite of {t} denotes {t}', construct=f'{hname} denotes {t}')
    ck.floor('C01.SEM-SIB', 100)
    ck.rule('C01.EVAL', 'the evaluators (evaluate_full_circuit, the explicit-stack evaluate_circuit, evaluate_circuit_outputs, evaluate, evaluate_at, get_truth_table) folded on instances of the repository\'s Circuit class over a family of model circuits (stored operands-first and users-first) and every assignment over False/True/Undefined: denotation under total assignments, soundness and monotonicity under partial ones, positional input binding, private work map')
    from .. import eval_fold
    eval_fold.fold_evaluators(ck, 'C01.EVAL')
    # the same entry points after histories of public mutations (an answer remembered from an earlier state would show here)
    ck.rule('C01.HIST', 'get_truth_table, evaluate_full_circuit and evaluate_circuit folded at random points of seeded histories of public mutations on instances of the repository\'s Circuit class: they answer for the circuit as it is then (shared machinery with C02.HIST)')
    from .. import history_fold
    history_fold.fold_histories(ck, 'C01.HIST', only=(), observers=('get_truth_table', 'evaluate_full_circuit', 'evaluate_circuit'), n_hist=(120 if ck.tier == 'quick' else 1200))
    ck.floor('C01.HIST', 3)
    ck.floor('C01.EVAL', 6)
    with ck.soft('C01.EVAL / C01.HIST (evaluators and truth tables folded over model circuits and inside histories)'):
        apply_rules(ck)
        ck.floor('C01.APPLY', 18)
    # the topological evaluator and per-gate truth tables walk the users index: gates with repeated operands must be indexed once per occurrence
    ck.rule('C01.IDX', 'adding a gate registers it as a user of each operand once per occurrence (top_sort counts operands with multiplicity; shared with C02.IDX)')
    from .C02 import fold_primitives
    fold_primitives(ck, den, R='C01.IDX', which=('emplace',))
    # synthesis truth-table codes as used by the basis restriction of the SAT encoding
    from . import C06 as _c06
    F = _c06.Finder(repo, den)
    opn = F.interp.global_value(F.mod, 'Operation')
    code = {k: v.value for k, v in opn.members.items()}
    _c06.check_instance(ck, F, [[False, False, True, False]], 1, [opn.members['and_'], opn.members['gt_']], {code['and_'], code['gt_']}, 'C01.SEM-SIB',
                        'synthesis codes: encoding n=2 gates=1 basis=[and_, gt_] model=0010')
