"""C04 -- SAT-based subcircuit minimisation (structural clauses in a file no test can import here)."""

from __future__ import annotations

import ast

from ..core import AnalysisError, Checker, always_raises, call_name, calls_in, deref, is_name, norm, single_def, walk_no_nested, assignments_in
from ..effects import Effects
from ..guards import dominating_tests
from .. import pattern_ops
from ..tables import Denotations
from .C02 import check_sites

SUBC = 'cirbo.minimization.subcircuit'


def run(ck: Checker):
    repo = ck.repo
    m = repo.mod(SUBC)
    fn = m.func('minimize_subcircuits')
    ck.rule('C04.SEM', 'the bit-parallel pattern simulator denotes the oracle function for every gate-type name and arity it accepts and rejects the rest with UnsupportedOperationError')
    ck.rule('C04.POL', 'polarity discipline: a label read from outputs_negation_mapping denotes the complement of the output; it may only key the search for a NOT user or feed a new NOT, never replace the output directly')
    ck.rule('C04.KEYDOM', 'a label looked up in output_labels_mapping is guaranteed to be one of its keys (the filtered outputs)')
    ck.rule('C04.IDX', 'hand-written re-pointing of users keeps the users index exact')
    ck.rule('C04.SNAP', 'the validation snapshot is a deep copy taken before the first mutation; validation compares the result with it and raises FailedValidationError iff the miter is satisfiable')
    ck.rule('C04.SIZE', 'a replacement is searched with strictly fewer gates than the cone has, in the requested basis, over the don\'t-care model of exactly the non-trivial outputs')

    supported = pattern_ops.check(ck, 'C04.SEM')
    ck.floor('C04.SEM', 18)
    ck.notes['pattern_simulator_supports'] = supported

    ck.rule('C04.FOLD', 'minimize_subcircuits folded end to end on model circuits (cone extraction, don\'t-care analysis, renaming, splice through replace_subcircuit, cycle check are the repository\'s code; the cut enumerator is replaced by every k-feasible cut, the synthesiser by an exhaustive search over <= 2 gates or by one that finds nothing): same inputs in order, same number of outputs, same truth table, not more non-trivial gates, no internal error on circuits without functionally equivalent gates')
    from .. import minimize_fold
    minimize_fold.fold_minimize(ck, 'C04.FOLD')
    ck.floor('C04.FOLD', 8)
    # structural rules about the main loop: they speak where they recognise the code; its behaviour is decided by the fold above
    with ck.soft('C04.FOLD (minimize_subcircuits folded end to end)'):
        # ---- POL ----
        neg_name = 'outputs_negation_mapping'
        pos_name = 'outputs_mapping'
        tainted = {}
        for node in ast.walk(fn):
            tgt = None
            if isinstance(node, ast.Assign) and len(node.targets) == 1 and isinstance(node.targets[0], ast.Name):
                tgt = node.targets[0]
            elif isinstance(node, ast.AnnAssign) and isinstance(node.target, ast.Name) and node.value is not None:
                tgt = node.target
            if tgt is not None:
                v = node.value
                srcs = [v.body, v.orelse] if isinstance(v, ast.IfExp) else [v]
                if any(isinstance(s, ast.Subscript) and is_name(s.value, neg_name) for s in srcs):
                    tainted[tgt.id] = node
        ck.need(len(tainted) >= 2, f'{m.rel}: reads of {neg_name} not found (shape changed)')
        n_uses = 0
        for name, defnode in tainted.items():
            scope = m.parents[defnode]
            loop = scope
            while not isinstance(loop, (ast.For, ast.FunctionDef)):
                loop = m.parents[loop]
            bad_uses = []
            for node in ast.walk(loop):
                if isinstance(node, ast.Name) and node.id == name and isinstance(node.ctx, ast.Load) and node.lineno >= defnode.lineno:
                    par = m.parents[node]
                    n_uses += 1
                    use = norm(m.enclosing_stmt(node))[:90]
                    if isinstance(par, ast.Subscript) and par.slice is node and norm(par.value) in ('output_labels_mapping', 'node_states'):
                        continue  # key of the search for the NOT user / bookkeeping
                    if isinstance(par, ast.Tuple) and isinstance(m.parents.get(par), ast.Call) and call_name(m.parents[par]) in ('emplace_gate', 'Gate') and 'NOT' in norm(m.parents[par]):
                        continue  # operand of a newly created NOT
                    if isinstance(par, ast.IfExp) and par.body is node:
                        bad_uses.append(f'line {node.lineno}: replacement operand/output in `{use}`')
                    elif isinstance(par, ast.Subscript) and norm(par.value).endswith('_gate_to_users'):
                        bad_uses.append(f'line {node.lineno}: registered as the gate that now has the users')
                    else:
                        bad_uses.append(f'line {node.lineno}: `{use}`')
            ck.check(not bad_uses, 'C04.POL', m, defnode, f'`{name}` (label of the gate computing the COMPLEMENT of the output) is used only to find or build a NOT',
                     'the complement is used in place of the output itself, so the output is replaced by its negation (truth table inverted): ' + '; '.join(bad_uses[:4]),
                     construct=f'minimize_subcircuits: polarity of {name}')
        ck.need(n_uses >= 3, f'{m.rel}: only {n_uses} uses of negation-mapped labels found')

        # ---- OUTS: the trivial branch rewrites every occurrence of a replaced output, in place
        ck.rule('C04.OUTS', 'when a cone output is replaced by an equivalent gate, every occurrence of it in the circuit outputs is rewritten in order before the gate is removed')
        outs_writes = [n for n in ast.walk(fn) if isinstance(n, ast.Assign) and norm(n.targets[0]) == 'circuit._outputs']
        ok = False
        if len(outs_writes) == 1:
            v = outs_writes[0].value
            if isinstance(v, ast.ListComp) and len(v.generators) == 1 and not v.generators[0].ifs and norm(v.generators[0].iter) in ('circuit._outputs', 'circuit.outputs') \
                    and isinstance(v.elt, ast.IfExp) and norm(v.elt.test) == f'{norm(v.generators[0].target)} == output' and norm(v.elt.orelse) == norm(v.generators[0].target):
                st, suite = outs_writes[0], None
                par = m.parents[st]
                suite = par.body if isinstance(par, ast.For) else []
                rm = [s_ for s_ in suite if norm(s_) == 'circuit.remove_gate(output)']
                ok = bool(rm) and rm[0].lineno > st.lineno
        other_writes = [c for c in calls_in(fn) if isinstance(c.func, ast.Attribute) and norm(c.func.value) in ('circuit._outputs', 'circuit.outputs') and c.func.attr in ('remove', 'pop', 'insert', 'append')]
        subs = [n for n in ast.walk(fn) if isinstance(n, ast.Assign) and isinstance(n.targets[0], ast.Subscript) and norm(n.targets[0].value) in ('circuit._outputs', 'circuit.outputs')]
        ck.check(ok and not other_writes and not subs, 'C04.OUTS', m, outs_writes[0] if outs_writes else fn,
                 'all occurrences of the replaced output are rewritten (order and multiplicity of the outputs kept) before remove_gate drops the label',
                 'the outputs are not rewritten by an element-wise comprehension over all of circuit._outputs before remove_gate(output): occurrences that are not rewritten are silently dropped by remove_gate',
                 construct='minimize_subcircuits: outputs rewrite in the trivial branch')

        # ---- KEYDOM ----
        # keys put into output_labels_mapping
        key_sources = []
        lookups = []
        for node in ast.walk(fn):
            if isinstance(node, ast.Assign) and isinstance(node.targets[0], ast.Subscript) and is_name(node.targets[0].value, 'output_labels_mapping'):
                key_sources.append(node)
            if isinstance(node, ast.Subscript) and is_name(node.value, 'output_labels_mapping') and isinstance(node.ctx, ast.Load):
                lookups.append(node)
        seeded_with_inputs = any(isinstance(n, ast.For) and norm(n.iter) == 'inputs' and any('found_patterns[' in norm(s) and isinstance(s, ast.Assign) for s in n.body) for n in ast.walk(fn))
        ck.need(lookups and key_sources, f'{m.rel}: output_labels_mapping accesses not found')
        for lk in lookups:
            key = lk.slice
            d = None
            if isinstance(key, ast.Name):
                defs = [n for n in ast.walk(fn) if isinstance(n, (ast.Assign, ast.AnnAssign)) and is_name(n.targets[0] if isinstance(n, ast.Assign) else n.target, key.id)]
                d = defs[-1].value if defs else None
            from_neg = d is not None and isinstance(d, ast.Subscript) and is_name(d.value, neg_name)
            guarded = any(pol and norm(t) in (f'{norm(key)} in output_labels_mapping',) for t, pol in dominating_tests(m, fn, lk))
            ok = (not from_neg) or guarded or (not seeded_with_inputs)
            ck.check(ok, 'C04.KEYDOM', m, m.enclosing_stmt(lk), 'the looked-up label is a key of output_labels_mapping',
                     f'`{norm(key)}` comes from {neg_name}, whose values are drawn from found_patterns; found_patterns is seeded with the cone INPUTS, but output_labels_mapping only has the filtered outputs as keys: '
                     f'an output that is the negation of a cone input raises KeyError after a successful search', construct=f'minimize_subcircuits: output_labels_mapping[{norm(key)}]')

        # ---- IDX ----
        check_sites(ck, R='C04.IDX', only_subcircuit=True)
        ck.floor('C04.IDX', 2)

        # ---- SNAP ----
        snap = [n for n in fn.body if isinstance(n, (ast.Assign, ast.AnnAssign)) and norm(n.value) == f'copy.deepcopy({fn.args.args[0].arg})']
        eff = Effects(repo)
        first_mut = None
        cparam = fn.args.args[0].arg
        for st in fn.body:
            for node in ast.walk(st):
                if isinstance(node, ast.Call):
                    for fi in eff._resolve_call(m, node, None):
                        for p in fi.params:
                            if p in fi.mutated:
                                a = eff._arg_for(node, fi, p, method_call=isinstance(node.func, ast.Attribute) and fi.cls is not None)
                                if a is not None and norm(a) == cparam:
                                    first_mut = first_mut or st.lineno
                    if isinstance(node.func, ast.Attribute) and norm(node.func.value) == cparam and node.func.attr in eff.mutators('cirbo.core.circuit.circuit', 'Circuit'):
                        first_mut = first_mut or st.lineno
                if isinstance(node, (ast.Assign, ast.AugAssign)):
                    for t in (node.targets if isinstance(node, ast.Assign) else [node.target]):
                        if isinstance(t, (ast.Attribute, ast.Subscript)) and norm(t).startswith(cparam + '.'):
                            first_mut = first_mut or st.lineno
            if first_mut:
                break
        ck.check(len(snap) == 1 and (first_mut is None or snap[0].lineno < first_mut), 'C04.SNAP', m, snap[0] if snap else fn,
                 'the reference for validation is a deep copy taken before anything can modify the argument',
                 f'snapshot at line {snap[0].lineno if snap else None}, first possible mutation at line {first_mut}', construct='minimize_subcircuits: initial_circuit snapshot')
        val = [n for n in fn.body if isinstance(n, ast.If) and norm(n.test) == 'enable_validation']
        ok = False
        if len(val) == 1:
            b = val[0].body
            snapvar = norm(snap[0].targets[0] if isinstance(snap[0], ast.Assign) else snap[0].target) if snap else None
            ok = len(b) >= 2 and norm(b[0]) == f'miter_circuit = build_miter({cparam}, {snapvar})' and isinstance(b[1], ast.If) \
                and norm(b[1].test) == 'is_circuit_satisfiable(miter_circuit).answer' and always_raises(b[1].body) and 'FailedValidationError' in norm(b[1].body[-1]) and not b[1].orelse
        ck.check(ok, 'C04.SNAP', m, val[0] if val else fn, 'validation raises FailedValidationError exactly when the miter of result and snapshot is satisfiable', 'validation branch changed', construct='minimize_subcircuits: validation branch')
        rets = [n for n in walk_no_nested(fn) if isinstance(n, ast.Return)]
        ck.check(len(rets) == 1 and norm(rets[0].value) == cparam and fn.body[-1] is rets[0], 'C04.SNAP', m, rets[0] if rets else fn, 'the (possibly replaced) circuit is returned after validation', 'return changed', construct='minimize_subcircuits: return')

        # ---- SIZE ----
        finder = [c for c in calls_in(fn) if call_name(c) == 'CircuitFinderSat']
        ok = False
        if len(finder) == 1:
            c = finder[0]
            kw = {k.arg: norm(k.value) for k in c.keywords}
            ok = len(c.args) >= 2 and norm(c.args[0]) == 'TruthTableModel(outputs_tt)' and norm(c.args[1]) == 'size - 1' and kw.get('basis') == '_basis' \
                and norm(single_def(fn, '_basis') or ast.Constant(0)) == 'resolve_basis(basis)'
            sz = [n for n in ast.walk(fn) if isinstance(n, (ast.Assign, ast.AnnAssign)) and is_name(n.targets[0] if isinstance(n, ast.Assign) else n.target, 'size')]
            ok = ok and len(sz) == 1 and norm(sz[0].value) == 'subcircuit.size'
        ck.check(ok, 'C04.SIZE', m, finder[0] if finder else fn, 'the replacement is searched with size - 1 gates in the resolved basis', 'search call changed', construct='minimize_subcircuits: CircuitFinderSat call')
        ott = [n for n in ast.walk(fn) if isinstance(n, (ast.Assign, ast.AnnAssign)) and is_name(n.targets[0] if isinstance(n, ast.Assign) else n.target, 'outputs_tt')]
        ok = len(ott) == 1 and isinstance(ott[0].value, ast.ListComp) and norm(ott[0].value.generators[0].iter) == 'enumerate(subcircuit.evaluate_truth_table_with_dont_cares())' \
            and [norm(i) for i in ott[0].value.generators[0].ifs] == ['subcircuit.outputs[i] in filtered_outputs']
        ck.check(ok, 'C04.SIZE', m, ott[0] if ott else fn, 'the model lists, in order, exactly the rows of the non-trivial outputs', 'model construction changed', construct='minimize_subcircuits: outputs_tt')
        skip = [n for n in ast.walk(fn) if isinstance(n, ast.If) and norm(n.test) == 'size > max_subcircuit_size' and isinstance(n.body[-1], ast.Continue)]
        ck.check(len(skip) == 1, 'C04.SIZE', m, skip[0] if skip else fn, 'cones above the size limit are skipped', 'size limit check missing', construct='minimize_subcircuits: size limit')
        handlers = [h for n in ast.walk(fn) if isinstance(n, ast.Try) and any(call_name(c) == 'find_circuit' for c in calls_in(ast.Module(body=n.body, type_ignores=[]))) for h in n.handlers]
        ck.check({norm(h.type) for h in handlers} == {'NoSolutionError', 'SolverTimeOutError'} and all(isinstance(h.body[-1], ast.Continue) for h in handlers), 'C04.SIZE', m, fn,
                 'no solution / time-out leave the circuit unchanged', 'exception handling changed', construct='minimize_subcircuits: search failures')
        ck.floor('C04.SIZE', 4)

    ck.rule('C04.CONE', 'cone extraction folded over model circuits with an oracle cut family: leaf patterns, closed cones in topological order, size = gates other than NOT (the search budget), outputs = gates read from outside or circuit outputs, patterns = functions of the leaves, and the don\'t-care rows of evaluate_truth_table_with_dont_cares aligned with the pattern bits')
    from .. import subc_fold
    if subc_fold.fold_cones(ck, 'C04.CONE') is not False:
        ck.floor('C04.CONE', 3)
    # the synthesiser the splice relies on: the k-th output of the synthesised circuit must compute the k-th row of the model, and
    # there must be exactly one output gate per row (the splice pairs cone outputs with synthesised outputs by position).  The fold
    # above replaces CircuitFinderSat by an oracle, so its encoding and decoder are decided here by the rules of C06 (shared).
    from . import C06 as _c06
    _c06.run(ck)
    ck.rule('C19.SUBC', 'replace_subcircuit, which splices the resynthesised cone, keeps outputs (order, multiplicity) and external users (shared with C19)')
    from .C19 import subc_rules
    from .. import history_fold
    history_fold.fold_replace_cases(ck, 'C19.SUBC')
    with ck.soft('C04.FOLD / C19.SUBC (replace_subcircuit folded)'):
        subc_rules(ck)
    ck.assume('NOT DECIDED beyond the folded family: truth-table equality and size non-increase for circuits larger than the model circuits, the real cut enumerator (mockturtle) and the SAT-based synthesiser')
    ck.assume('cirbo/minimization/subcircuit.py cannot be imported in this sandbox (mockturtle_wrapper, pysat missing): no test exercises it')
