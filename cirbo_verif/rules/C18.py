"""C18 -- passes achieve their stated effect; pipelines equal sequencing (structural clauses)."""

from __future__ import annotations

import ast

from ..core import Checker, call_name, calls_in, deref, is_name, is_self_attr, norm, walk_no_nested
from .C03 import SIMPL, TRANSFORMER, transformer_classes, _new_circuit_var


def _yields(fn):
    return [n for n in ast.walk(fn) if isinstance(n, (ast.Yield, ast.YieldFrom))]


def run(ck: Checker):
    repo = ck.repo
    t = repo.mod(TRANSFORMER)
    ck.rule('C18.LIN', 'as_distinct yields pre-transformers, self, post-transformers in that order; compositions linearise their children in list order; '
                       '| puts the left operand first; apply_transformers is a left fold of _transform from the argument; transform/cleanup delegate to it')
    ck.rule('C18.IDEM', 'the reduction `is_idempotent and cur == prev` is sound: every field read by the _transform of an idempotent class is compared in its __eq__; compositions never compare equal')
    ck.rule('C18.POST', 'each merging pass declares RemoveRedundantGates() as post-transformer')
    ck.rule('C18.RRG', 'RemoveRedundantGates starts the DFS from circuit.outputs, emits in the exit hook only, re-adds missing inputs iff input removal was not requested')

    # ---- LIN ----
    R = 'C18.LIN'
    ad = t.func('Transformer.as_distinct')
    ys = sorted(_yields(ad), key=lambda n: (n.lineno, n.col_offset))
    seq = []
    for y in ys:
        v = norm(y.value)
        if isinstance(y, ast.YieldFrom) and v == 'self.linearize_transformers(self._pre_transformers)':
            seq.append('pre')
        elif isinstance(y, ast.Yield) and v == 'self':
            seq.append('self')
        elif isinstance(y, ast.YieldFrom) and v == 'self.linearize_transformers(self._post_transformers)':
            seq.append('post')
        else:
            seq.append('?' + v)
    ck.check(seq == ['pre', 'self', 'post'], R, t, ad, 'as_distinct yields pre-transformers, then self, then post-transformers',
             f'yield order is {seq}', construct='Transformer.as_distinct yield order')
    # self is yielded unconditionally
    ys_self = [y for y in ys if isinstance(y, ast.Yield)]
    ck.check(len(ys_self) == 1 and t.parents[t.enclosing_stmt(ys_self[0])] is ad, R, t, ad, 'self is yielded exactly once, unconditionally',
             'yield self is conditional or repeated', construct='Transformer.as_distinct yields self')
    lt = t.func('Transformer.linearize_transformers')
    loops = [n for n in ast.walk(lt) if isinstance(n, ast.For)]
    ok = len(loops) == 1 and norm(loops[0].iter) == lt.args.args[0].arg and len(loops[0].body) == 1 and \
        norm(loops[0].body[0]) == f'yield from {norm(loops[0].target)}.as_distinct(imply_deps=True)'
    ck.check(ok, R, t, lt, 'linearize_transformers flattens its argument in order, with dependencies', 'shape changed', construct='linearize_transformers body')
    cad = t.func('TransformerComposition.as_distinct')
    ys = _yields(cad)
    ck.check(len(ys) == 1 and isinstance(ys[0], ast.YieldFrom) and norm(ys[0].value) == 'Transformer.linearize_transformers(self._transformers)', R, t, cad,
             'a composition linearises its children in list order', f'yields `{[norm(y) for y in ys]}`', construct='TransformerComposition.as_distinct')
    ci = t.func('TransformerComposition.__init__')
    st = [n for n in ast.walk(ci) if isinstance(n, ast.Assign) and norm(n.targets[0]) == 'self._transformers']
    ck.check(len(st) == 1 and norm(st[0].value) in (f'list({ci.args.args[1].arg})', f'tuple({ci.args.args[1].arg})', f'[*{ci.args.args[1].arg}]'), R, t, ci,
             'a composition stores its children in the given order', f'stores `{norm(st[0].value) if st else None}`', construct='TransformerComposition.__init__')
    for name, left_first in (('Transformer.__or__', True), ('Transformer.__ror__', False)):
        fn = t.func(name)
        o = fn.args.args[1].arg
        rets = [n for n in ast.walk(fn) if isinstance(n, ast.Return) and isinstance(n.value, ast.Call) and call_name(n.value) == 'TransformerComposition']
        want = {
            True: {f'list(self.as_distinct()) + {o}.transformers', f'list(self.as_distinct()) + [{o}]'},
            False: {f'{o}.transformers + list(self.as_distinct())', f'[{o}] + list(self.as_distinct())'},
        }[left_first]
        got = {norm(r.value.args[0]) for r in rets if r.value.args}
        ck.check(got == want, R, t, fn, f'{name} keeps the textual order of the pipe (left operand first)', f'builds {sorted(got)}', construct=f'{name} operand order')
    ap = t.func('Transformer.apply_transformers')
    red = [c for c in calls_in(ap) if norm(c.func) == 'functools.reduce']
    ok = False
    if len(red) == 1 and len(red[0].args) == 3:
        lam, seq_, init = red[0].args
        ok = isinstance(lam, ast.Lambda) and len(lam.args.args) == 2 and norm(lam.body) == f'{lam.args.args[1].arg}._transform({lam.args.args[0].arg})' \
            and norm(init) == ap.args.args[0].arg and isinstance(seq_, ast.Call) and norm(seq_.func) == 'Transformer.linearize_reduce_transformers'
        rets = [n for n in walk_no_nested(ap) if isinstance(n, ast.Return)]
        ok = ok and len(rets) == 1 and rets[0].value is red[0]
    ck.check(ok, R, t, ap, 'apply_transformers is the left fold of _transform over the linearised list, starting from the argument',
             'not functools.reduce(lambda c, t: t._transform(c), linearize_reduce_transformers(...), circuit)', construct='apply_transformers fold')
    # a composition passed directly is wrapped, a list is used as is
    src = norm(ap)
    ck.check('if isinstance(transformers, TransformerComposition): _transformers = [transformers] else: _transformers = transformers' in src.replace('\n', ' '),
             R, t, ap, 'a single composition and a list of transformers are both accepted unchanged', 'argument normalisation changed', construct='apply_transformers argument normalisation')
    tr = t.func('Transformer.transform')
    rets = [n for n in ast.walk(tr) if isinstance(n, ast.Return)]
    ck.check(len(rets) == 1 and norm(rets[0].value) == f'self.apply_transformers({tr.args.args[1].arg}, [self])', R, t, tr,
             'transform(c) = apply_transformers(c, [self])', f'returns `{norm(rets[0].value) if rets else None}`', construct='Transformer.transform')
    ct = t.func('TransformerComposition._transform')
    rets = [n for n in ast.walk(ct) if isinstance(n, ast.Return)]
    ck.check(len(rets) == 1 and norm(rets[0].value) == f'Transformer.apply_transformers({ct.args.args[1].arg}, self)', R, t, ct,
             'a composition transforms by applying its linearised children', f'returns `{norm(rets[0].value) if rets else None}`', construct='TransformerComposition._transform')
    cl = repo.mod(f'{SIMPL}.cleanup')
    cf = cl.func('cleanup')

    def pnorm(e):
        """`Pass()`; arguments spelled out with their default value do not change the pass."""
        if isinstance(e, ast.Call) and isinstance(e.func, ast.Name) and not e.args:
            res = repo.resolve_expr(cl, e.func)
            if res and res[2] == 'class':
                init = res[0].functions.get(f'{res[1]}.__init__')
                dflt = {}
                if init is not None:
                    pos = init.args.args[1:]
                    for a_, d_ in zip(pos[len(pos) - len(init.args.defaults):], init.args.defaults):
                        dflt[a_.arg] = d_
                    for a_, d_ in zip(init.args.kwonlyargs, init.args.kw_defaults):
                        if d_ is not None:
                            dflt[a_.arg] = d_
                if all(k.arg in dflt and isinstance(k.value, ast.Constant) and isinstance(dflt[k.arg], ast.Constant) and k.value.value == dflt[k.arg].value for k in e.keywords):
                    return f'{e.func.id}()'
        return norm(e)
    lst = deref(cf, ast.Name('_strategies'))
    base_ok = isinstance(lst, ast.List) and [pnorm(e) for e in lst.elts] == ['RemoveRedundantGates()', 'MergeUnaryOperators()', 'MergeDuplicateGates()']
    if not base_ok:
        # _strategies has two bindings (the += under use_heavy); look at the first
        from ..core import assignments_in
        defs = assignments_in(cf, '_strategies')
        firsts = [v for k, v, s in defs if k == 'assign']
        base_ok = len(firsts) == 1 and isinstance(firsts[0], ast.List) and [pnorm(e) for e in firsts[0].elts] == ['RemoveRedundantGates()', 'MergeUnaryOperators()', 'MergeDuplicateGates()']
        augs = [(v, s) for k, v, s in defs if k == 'aug']
        heavy_ok = len(augs) == 1 and isinstance(augs[0][0], ast.List) and [pnorm(e) for e in augs[0][0].elts] == ['MergeEquivalentGates()'] and isinstance(cl.parents[augs[0][1]], ast.If) and norm(cl.parents[augs[0][1]].test) == 'use_heavy'
    else:
        heavy_ok = False
    rets = [n for n in ast.walk(cf) if isinstance(n, ast.Return)]
    ck.check(base_ok and heavy_ok and len(rets) == 1 and norm(rets[0].value) == 'Transformer.apply_transformers(circuit, _strategies)', R, cl, cf,
             'cleanup = apply_transformers over [RRG, MUO, MDG] (+ MEG when heavy)', 'cleanup pipeline changed shape', construct='cleanup pipeline')
    ck.floor(R, 11)

    idem_rules(ck)

    # ---- POST ----
    R = 'C18.POST'
    for modn, cname in ((f'{SIMPL}.merge_unary_operators', 'MergeUnaryOperators'), (f'{SIMPL}.merge_duplicate_gates', 'MergeDuplicateGates'),
                        (f'{SIMPL}.merge_equivalent_gates', 'MergeEquivalentGates')):
        m = repo.mod(modn)
        init = m.func(f'{cname}.__init__')
        sup = [c for c in calls_in(init) if norm(c.func) == 'super().__init__']
        ok = False
        if len(sup) == 1:
            kw = {k.arg: k.value for k in sup[0].keywords}
            post = kw.get('post_transformers', sup[0].args[1] if len(sup[0].args) > 1 else None)
            ok = post is not None and isinstance(post, (ast.Tuple, ast.List)) and [norm(e) for e in post.elts] == ['RemoveRedundantGates()']
        ck.check(ok, R, m, init, f'{cname} is followed by RemoveRedundantGates()', 'post_transformers is not (RemoveRedundantGates(),)', construct=f'{cname}.__init__ post_transformers')
    ck.floor(R, 3)

    # ---- RRG ----
    R = 'C18.RRG'
    m = repo.mod(f'{SIMPL}.remove_redundant_gates')
    fn = m.func('RemoveRedundantGates._transform')
    c = fn.args.args[1].arg
    new = _new_circuit_var(fn)
    dfs = [x for x in calls_in(fn, 'dfs') if norm(x.func.value) == c]
    ok = False
    hook = None
    if len(dfs) == 1:
        kw = {k.arg: k.value for k in dfs[0].keywords}
        start = dfs[0].args[0] if dfs[0].args else kw.get('start_gates')
        ok = start is not None and norm(start) == f'{c}.outputs' and set(kw) - {'start_gates'} == {'on_exit_hook'} and not kw.get('inverse')
        hook = kw.get('on_exit_hook')
    ck.check(ok, R, m, dfs[0] if dfs else fn, 'the rebuild traverses from circuit.outputs towards the inputs and emits only in the exit hook',
             f'dfs call is `{norm(dfs[0])[:140] if dfs else None}`', construct='RemoveRedundantGates dfs call')
    emits = [x for x in calls_in(fn, 'emplace_gate')]
    ck.check(len(emits) == 1 and hook is not None and m.enclosing_function(emits[0]).name == norm(hook), R, m, fn,
             'gates are emitted exactly in the exit hook (once per reached gate)', 'emplace_gate is not (only) in the on_exit hook', construct='RemoveRedundantGates emission site')
    # traversal result is consumed
    ck.check(len(dfs) == 1 and isinstance(m.parents.get(dfs[0]), ast.Call) and norm(m.parents[dfs[0]].func) == 'more_itertools.consume', R, m, fn,
             'the lazy traversal is consumed', 'dfs(...) iterator is not consumed', construct='RemoveRedundantGates consume')
    ck.floor(R, 3)
    ck.assume('post-conditions of the merging passes (no duplicate signature / equal truth table / double negation) are not decided')


def idem_rules(ck: Checker, R='C18.IDEM'):
    repo = ck.repo
    t = repo.mod(TRANSFORMER)
    lr = t.func('Transformer.linearize_reduce_transformers')
    ifs = [n for n in ast.walk(lr) if isinstance(n, ast.If)]
    loops = [n for n in ast.walk(lr) if isinstance(n, ast.For)]
    ok = len(ifs) == 1 and len(loops) == 1
    if ok:
        cur = norm(loops[0].target)
        ok = norm(ifs[0].test) in (f'{cur}.is_idempotent and {cur} == _prev',) and len(ifs[0].body) == 1 and isinstance(ifs[0].body[0], ast.Continue)
        rest = [norm(s) for s in loops[0].body if s is not ifs[0] and not isinstance(s, ast.Expr) or isinstance(getattr(s, 'value', None), ast.Yield)]
        ok = ok and rest == [f'yield {cur}', f'_prev = {cur}'] and norm(loops[0].iter) == f'Transformer.linearize_transformers({lr.args.args[0].arg})'
    ck.check(ok, R, t, lr, 'a transformer is skipped only if it is idempotent and equal to the one applied immediately before; every other one is yielded in order',
             'reduction loop changed shape', construct='linearize_reduce_transformers loop')
    ceq = t.func('TransformerComposition.__eq__')
    rets = [n for n in ast.walk(ceq) if isinstance(n, ast.Return)]
    ck.check(all(norm(r.value) in ('NotImplemented', 'False') for r in rets) and any(norm(r.value) == 'False' for r in rets), R, t, ceq,
             'compositions never compare equal (no reduction across compositions)', 'TransformerComposition.__eq__ can return True', construct='TransformerComposition.__eq__')
    n_idem = 0
    for m, cname, fn in transformer_classes(repo):
        cnode = m.cls(cname)
        flag = None
        for st in cnode.body:
            if isinstance(st, (ast.Assign, ast.AnnAssign)):
                tg = st.targets[0] if isinstance(st, ast.Assign) else st.target
                if is_name(tg, '__idempotent__'):
                    flag = st.value
        if flag is None or not (isinstance(flag, ast.Constant) and flag.value is True):
            continue
        n_idem += 1
        reads = sorted({n.attr for n in ast.walk(fn) if is_self_attr(n) and n.attr.startswith('_') and not n.attr.startswith('__')})
        eq = m.functions.get(f'{cname}.__eq__')
        compared = set()
        if eq is not None:
            o = eq.args.args[1].arg
            for n in ast.walk(eq):
                if isinstance(n, ast.Compare) and len(n.ops) == 1 and isinstance(n.ops[0], ast.Eq) and is_self_attr(n.left) and norm(n.comparators[0]) == f'{o}.{n.left.attr}':
                    compared.add(n.left.attr)
        missing = [r for r in reads if r not in compared]
        ck.check(not missing, R, m, eq or cnode, f'{cname} (idempotent): instances that compare equal behave alike',
                 f'_transform reads {missing} which __eq__ does not compare: differently configured instances are treated as one and the second is skipped',
                 construct=f'{cname}.__eq__ covers fields read by _transform')
        # idempotent by construction: only RemoveRedundantGates is confirmed
        ck.check(cname == 'RemoveRedundantGates', R, m, cnode, f'{cname} is confirmed idempotent (C18.RRG)', 'class flagged __idempotent__ = True has no idempotence argument on file',
                 construct=f'{cname}.__idempotent__ = True')
    ck.need(n_idem >= 1, 'no idempotent transformer found (RemoveRedundantGates expected)')
    ck.floor(R, 4)



# ---------------------------------------------------------------------------
# C18.UNARY: MergeUnaryOperators folded over every chain of unary gates (oracle traversals)


class _ChainCircuit:
    pass


def unary_chain_fold(ck: Checker, rule='C18.UNARY'):
    import itertools
    from ..interp import Host, Interp, InterpRaise, RepoFunc, RepoClass, Instance
    from ..rewrites import FakeCircuit, FakeGate
    from ..tables import Denotations, GateTypeVal, gate_overrides
    from .. import semantics
    repo = ck.repo
    den = Denotations(repo)
    ov = gate_overrides(den)
    types = {t.var: t for t in ov.values() if isinstance(t, GateTypeVal)}

    class Model(FakeCircuit):
        """Argument circuit with oracle traversals (C20 is assumed for the traversal itself)."""

        def top_sort(self, *, inverse=False):
            order = []
            done = set()

            def visit(l):
                if l in done:
                    return
                for o in self._gates[l].operands:
                    visit(o)
                done.add(l)
                order.append(self._gates[l])
            for l in self._gates:
                visit(l)
            return order if inverse else list(reversed(order))

        def dfs(self, start_gates=None, *, inverse=False, on_enter_hook=None, on_discover_hook=None, on_exit_hook=None, unvisited_hook=None,
                on_traversal_end_hook=None, topsort_unvisited=False):
            states = {}
            seen = []

            def visit(l):
                if l in states:
                    return
                states[l] = 'ENTERED'
                for o in self._gates[l].operands:
                    visit(o)
                states[l] = 'VISITED'
                seen.append(l)
                if on_exit_hook:
                    on_exit_hook(self._gates[l], states)
            for l in (start_gates if start_gates is not None else self._outputs):
                visit(l)
            if unvisited_hook:
                for g in self.top_sort(inverse=True):
                    if g.label not in states:
                        unvisited_hook(g, states)
            return iter(seen)

    ov['cirbo.core.circuit.circuit.Circuit'] = lambda: FakeCircuit(types['INPUT'])
    it = Interp(repo, overrides=ov, max_steps=2_000_000)
    mm = repo.mod(f'{SIMPL}.merge_unary_operators')
    fn = mm.func('MergeUnaryOperators._transform')
    cls = RepoClass(mm, mm.cls('MergeUnaryOperators'))
    try:
        inst = it.instantiate(cls)
    except (InterpRaise, Exception):
        inst = Instance(cls)

    NEG = ['NOT', 'LNOT', 'RNOT']
    BUF = ['IFF', 'LIFF', 'RIFF']

    def build(kinds, variant):
        c = Model(types['INPUT'])
        c.emplace_gate('x', types['INPUT'])
        c.emplace_gate('y', types['INPUT'])
        prev = 'x'
        chain = []
        for i, k in enumerate(kinds):
            fam = NEG if k == 'n' else BUF
            t = fam[(i + variant) % 3]
            ops = (prev,) if t in ('NOT', 'IFF') else ((prev, 'y') if t[0] == 'L' else ('y', prev))
            lab = f'u{i}'
            c.emplace_gate(lab, types[t], ops)
            chain.append(lab)
            prev = lab
        # a binary consumer on every chain position, plus the chain end as output
        outs = []
        for i, lab in enumerate(chain):
            c.emplace_gate(f'w{i}', types['AND'], (lab, 'y'))
            outs.append(f'w{i}')
        outs.append(chain[-1])
        outs.append(chain[len(chain) // 2])
        c._outputs = outs
        return c, chain

    def reachable(c):
        seen = set()
        stack = list(c._outputs)
        while stack:
            l = stack.pop()
            if l in seen:
                continue
            seen.add(l)
            stack.extend(c._gates[l].operands)
        return seen

    def sig_operand(g):
        t = g.gate_type.var
        if t in ('NOT', 'IFF', 'LNOT', 'LIFF'):
            return g.operands[0]
        if t in ('RNOT', 'RIFF'):
            return g.operands[1]
        return None

    probs = []
    n_chains = 0
    max_len = 5 if ck.tier == 'quick' else 6
    for length in range(1, max_len + 1):
        for kinds in itertools.product('nb', repeat=length):
            for variant in (0, 1):
                n_chains += 1
                c, chain = build(kinds, variant)
                it.steps = 0
                try:
                    new = RepoFunc(it, mm, fn, bound_self=inst)(c)
                except InterpRaise as e:
                    probs.append(f'chain {"".join(kinds)}: raises {e.exc_name}')
                    continue
                if new._inputs != c._inputs or len(new._outputs) != len(c._outputs):
                    probs.append(f'chain {"".join(kinds)}: interface changed')
                    continue
                for vals in semantics.bools(2):
                    a = {'x': vals[0], 'y': vals[1]}
                    if [new.evaluate(o, a) for o in new._outputs] != [c.evaluate(o, a) for o in c._outputs]:
                        probs.append(f'chain {"".join(kinds)} (variant {variant}): outputs differ on x,y={vals}')
                        break
                live = reachable(new)
                negs = {l for l in live if new._gates[l].gate_type.var in NEG}
                bufs = {l for l in live if new._gates[l].gate_type.var in BUF}
                if set(kinds) == {'n'}:
                    dbl = [l for l in negs if sig_operand(new._gates[l]) in negs]
                    if dbl:
                        probs.append(f'all-negation chain of length {length} (variant {variant}): {dbl[0]} = {new._gates[dbl[0]].gate_type.var}({sig_operand(new._gates[dbl[0]])}) is still a negation of a negation')
                if set(kinds) == {'b'}:
                    used_bufs = [l for l in live for o in new._gates[l].operands if o in bufs and l not in bufs] + [o for o in new._outputs if o in bufs]
                    if used_bufs:
                        probs.append(f'all-buffer chain of length {length}: a buffer is still used as operand or output')
        if len(probs) > 4:
            break
    ck.check(not probs, rule, mm, fn, f'MergeUnaryOperators on every chain of <= {max_len} unary gates (all neg/buffer patterns, L/R variants, a consumer at every position): same interface and outputs; '
             f'all-negation chains keep no negation of a negation, all-buffer chains no used buffer ({n_chains} chains, oracle traversals)', '; '.join(probs[:3]), construct='MergeUnaryOperators unary-chain bookkeeping')


_run_without_unary = run


def run(ck: Checker):  # noqa: F811
    ck.rule('C18.PIPE', 'cleanup (light / heavy), transform, apply_transformers on lists, the pipe operator (nested, mixed with lists), lists with repeated and differently configured idempotent passes, and a pass whose post-pass has dependencies of its own: each folded over model circuits and compared with applying the constituent passes (with their declared pre-/post-passes) one after another')
    from .. import passes as _passes
    _passes.fold_pipelines(ck, 'C18.PIPE')
    ck.floor('C18.PIPE', 12)
    # structural rules about the pipeline plumbing: they speak where they recognise the code, otherwise the clause is the folds'
    with ck.soft('C18.PIPE / C18.FOLD'):
        _run_without_unary(ck)
    ck.rule('C18.UNARY', 'the parity/buffer redirection tables of MergeUnaryOperators folded over every chain of unary gates up to length 5 (6 thorough): function and interface kept, stated post-conditions reached; the recurrence is uniform in the chain position')
    unary_chain_fold(ck)
    ck.rule('C18.FOLD', 'each pass folded over a family of model circuits (oracle traversals, two visiting orders): RemoveRedundantGates returns exactly the reachable gates (+ inputs) and is idempotent; after MergeDuplicateGates / MergeEquivalentGates (+ implied RemoveRedundantGates) no two gates share a signature / no two non-input gates a truth table; MergeUnaryOperators post-conditions; and the common clauses of C03')
    from .. import passes
    passes.fold_passes(ck, 'C18.FOLD', 'C18.FOLD')
    ck.floor('C18.FOLD', 10)
    ck.assume('dfs/top_sort behave as their oracle models while folding MergeUnaryOperators (C20)')
