"""C09 -- subtraction, division, sqrt, comparison and gadget generators (gadget exactness and
host-circuit discipline; exactness of the loop-built arithmetic is NOT decided)."""

from __future__ import annotations

import ast

from ..core import AnalysisError, Checker, call_name, calls_in, is_name, norm, param_names, walk_no_nested
from ..effects import Effects, root_name
from ..guards import dominating_tests
from ..tables import Denotations
from .. import gadgets as G
from .. import genrules as R
from .. import semantics

SUB = G.SUB
GEN = G.GEN
MODULES = [SUB, R.ARITH + '.div_mod', R.ARITH + '.sqrt', R.ARITH + '.equality', GEN]

ENDIAN_EXEMPT = {
    'add_sub2': 'the result is (difference bit, borrow), not a number',
    'add_sub3': 'the result is (difference bit, borrow), not a number',
}


def run(ck: Checker):
    repo = ck.repo
    den = Denotations(repo)
    eff = Effects(repo)
    B = G.GadgetBench(repo, den)
    public = R.public_names(repo)
    ck.rule('C09.GADGET', 'straight-line gadgets folded over a recording circuit: add_sub2, add_sub3, add_if_then_else, element of add_pairwise_xor / add_pairwise_if_then_else compute their pointwise definitions for every input value')
    ck.rule('C09.OUT-GUARD', 'every change of the host\'s outputs inside a function with an add_outputs parameter is dominated by add_outputs being true')
    ck.rule('C09.HOST-IN', 'add_* functions never change the inputs of the host circuit (operands may be arbitrary gates)')
    ck.rule('C09.ADD-ONLY', 'generators touch the host only through add-only operations')
    ck.rule('C09.ARGS', 'no label-sequence argument is mutated in place')
    ck.rule('C09.ENDIAN', 'operands reversed at entry, results converted back under big_endian')
    ck.rule('C09.PLACEHOLDER', 'placeholder-filled lists are completely overwritten before they are returned')

    def v(ev, l):
        return int(ev(l))

    # a - b = r - 2*borrow ; a - b - bal = r - 2*borrow
    G.check_gadget(ck, B, 'C09.GADGET', SUB, 'add_sub2', 2, lambda n: (list(n),),
                   lambda a, res, ev, c: None if int(a['i0']) - int(a['i1']) == v(ev, res[0]) - 2 * v(ev, res[1]) else f'{int(a["i0"])} - {int(a["i1"])} != {v(ev, res[0])} - 2*{v(ev, res[1])}',
                   'add_sub2(a, b) = (r, borrow): a - b = r - 2*borrow')
    G.check_gadget(ck, B, 'C09.GADGET', SUB, 'add_sub3', 3, lambda n: (list(n),),
                   lambda a, res, ev, c: None if int(a['i0']) - int(a['i1']) - int(a['i2']) == v(ev, res[0]) - 2 * v(ev, res[1]) else 'a - b - bal != r - 2*borrow',
                   'add_sub3(a, b, bal) = (r, borrow): a - b - bal = r - 2*borrow')
    for kw in ({}, {'add_outputs': True}, {'result_label': 'RES'}):
        G.check_gadget(ck, B, 'C09.GADGET', GEN, 'add_if_then_else', 3, lambda n: tuple(n),
                       lambda a, res, ev, c, kw=kw: (None if bool(ev(res)) == (a['i1'] if a['i0'] else a['i2']) else 'result != (then if if_ else else_)')
                       or (None if (c._outputs == ([res] if kw.get('add_outputs') else [])) else f'outputs {c._outputs} with add_outputs={kw.get("add_outputs", False)}')
                       or (None if kw.get('result_label') in (None, res) else 'result label ignored'),
                       f'add_if_then_else{kw or ""}: r = then if if_ else else_; outputs marked only on request', kwargs=kw)
    for kw in ({}, {'add_outputs': True}):
        G.check_gadget(ck, B, 'C09.GADGET', GEN, 'add_pairwise_xor', 4, lambda n: (n[:2], n[2:]),
                       lambda a, res, ev, c, kw=kw: (None if [bool(ev(r)) for r in res] == [a['i0'] != a['i2'], a['i1'] != a['i3']] else 'xor_i != x_i xor y_i')
                       or (None if c._outputs == (list(res) if kw.get('add_outputs') else []) else f'outputs {c._outputs} with add_outputs={kw.get("add_outputs", False)}'),
                       f'add_pairwise_xor{kw or ""}: r_i = x_i xor y_i in order; outputs marked only on request', kwargs=kw)
        G.check_gadget(ck, B, 'C09.GADGET', GEN, 'add_pairwise_if_then_else', 6, lambda n: (n[:2], n[2:4], n[4:]),
                       lambda a, res, ev, c, kw=kw: (None if [bool(ev(r)) for r in res] == [(a['i2'] if a['i0'] else a['i4']), (a['i3'] if a['i1'] else a['i5'])] else 'r_i != ite(if_i, then_i, else_i)')
                       or (None if c._outputs == (list(res) if kw.get('add_outputs') else []) else f'outputs {c._outputs} with add_outputs={kw.get("add_outputs", False)}'),
                       f'add_pairwise_if_then_else{kw or ""}: r_i = ite(if_i, then_i, else_i) in order', kwargs=kw)
    ck.floor('C09.GADGET', 9)

    # OUT-GUARD
    n_guard = 0
    for m, q, fn in R.gen_functions(repo, MODULES):
        if 'add_outputs' not in param_names(fn):
            continue
        cp = R.circuit_param(fn)
        for c in calls_in(fn):
            if isinstance(c.func, ast.Attribute) and call_name(c) in R.OUTPUT_IFACE and root_name(c.func.value) == cp:
                n_guard += 1
                tests = dominating_tests(m, fn, c)
                ok = any(pol and norm(t) == 'add_outputs' for t, pol in tests)
                ck.check(ok, 'C09.OUT-GUARD', m, c, f'{q}: `{call_name(c)}` runs only when add_outputs is true',
                         f'`{norm(c)[:90]}` changes the outputs of the host circuit even with add_outputs=False', construct=f'{q}: {norm(c)[:90]}')
        # forwarding add_outputs to a callee must pass it on unchanged
        for c in calls_in(fn):
            for k in c.keywords:
                if k.arg == 'add_outputs' and norm(k.value) not in ('add_outputs',):
                    if not q.startswith('generate_'):
                        n_guard += 1
                        ck.bad('C09.OUT-GUARD', m, c, f'{q} forwards add_outputs unchanged', f'`{norm(c)[:90]}` passes add_outputs={norm(k.value)}', construct=f'{q}: forwards add_outputs={norm(k.value)}')
    ck.need(n_guard >= 3, f'only {n_guard} guarded output changes found (3 confirmed)')
    R.check_add_only(ck, 'C09.ADD-ONLY', MODULES, host_in_rule='C09.HOST-IN')
    R.check_fresh_labels(ck, 'C09.ADD-ONLY', MODULES)
    ck.floor('C09.ADD-ONLY', 15)
    ck.floor('C09.HOST-IN', 8)
    R.check_args(ck, eff, 'C09.ARGS', MODULES)
    ck.floor('C09.ARGS', 25)
    R.check_endian(ck, 'C09.ENDIAN', MODULES, public, ENDIAN_EXEMPT)
    ck.floor('C09.ENDIAN', 8)
    n = R.check_placeholders(ck, 'C09.PLACEHOLDER', MODULES)
    ck.need(n >= 1, f'only {n} placeholder-using functions could be analysed')
    ck.assume('NOT DECIDED: exactness of subtraction chains, division, square root, the equality gadget and the plus-one carry chain (loop-built arithmetic)')
