"""C09 -- subtraction, division, sqrt, comparison and gadget generators (gadget exactness and
host-circuit discipline; exactness of the loop-built arithmetic is NOT decided)."""

from __future__ import annotations

import ast

from ..core import AnalysisError, Checker, call_name, calls_in, is_name, norm, param_names, walk_no_nested
from ..effects import Effects, root_name
from ..guards import dominating_tests, known_true
from ..tables import Denotations
from .. import gadgets as G
from .. import genrules as R
from .. import semantics

SUB = G.SUB
GEN = G.GEN
MODULES = [SUB, R.ARITH + '.div_mod', R.ARITH + '.sqrt', R.ARITH + '.equality', GEN]

ENDIAN_EXEMPT = {
    'add_sub2': 'the result is (difference bit, borrow), not a number',
    'add_sub3': 'the result is (difference bit, borrow), not a number',
}


def run(ck: Checker):
    repo = ck.repo
    den = Denotations(repo)
    eff = Effects(repo)
    B = G.GadgetBench(repo, den)
    public = R.public_names(repo)
    ck.rule('C09.GADGET', 'straight-line gadgets folded over a recording circuit: add_sub2, add_sub3, add_if_then_else, element of add_pairwise_xor / add_pairwise_if_then_else compute their pointwise definitions for every input value')
    ck.rule('C09.OUT-GUARD', 'every change of the host\'s outputs inside a function with an add_outputs parameter is dominated by add_outputs being true')
    ck.rule('C09.HOST-IN', 'add_* functions never change the inputs of the host circuit (operands may be arbitrary gates)')
    ck.rule('C09.ADD-ONLY', 'generators touch the host only through add-only operations')
    ck.rule('C09.ARGS', 'no label-sequence argument is mutated in place')
    ck.rule('C09.ENDIAN', 'operands reversed at entry, results converted back under big_endian')
    ck.rule('C09.PLACEHOLDER', 'placeholder-filled lists are completely overwritten before they are returned')

    def v(ev, l):
        return int(ev(l))

    # a - b = r - 2*borrow ; a - b - bal = r - 2*borrow
    G.check_gadget(ck, B, 'C09.GADGET', SUB, 'add_sub2', 2, lambda n: (list(n),),
                   lambda a, res, ev, c: None if int(a['i0']) - int(a['i1']) == v(ev, res[0]) - 2 * v(ev, res[1]) else f'{int(a["i0"])} - {int(a["i1"])} != {v(ev, res[0])} - 2*{v(ev, res[1])}',
                   'add_sub2(a, b) = (r, borrow): a - b = r - 2*borrow')
    G.check_gadget(ck, B, 'C09.GADGET', SUB, 'add_sub3', 3, lambda n: (list(n),),
                   lambda a, res, ev, c: None if int(a['i0']) - int(a['i1']) - int(a['i2']) == v(ev, res[0]) - 2 * v(ev, res[1]) else 'a - b - bal != r - 2*borrow',
                   'add_sub3(a, b, bal) = (r, borrow): a - b - bal = r - 2*borrow')
    for kw in ({}, {'add_outputs': True}, {'result_label': 'RES'}):
        G.check_gadget(ck, B, 'C09.GADGET', GEN, 'add_if_then_else', 3, lambda n: tuple(n),
                       lambda a, res, ev, c, kw=kw: (None if bool(ev(res)) == (a['i1'] if a['i0'] else a['i2']) else 'result != (then if if_ else else_)')
                       or (None if (c._outputs == ([res] if kw.get('add_outputs') else [])) else f'outputs {c._outputs} with add_outputs={kw.get("add_outputs", False)}')
                       or (None if kw.get('result_label') in (None, res) else 'result label ignored'),
                       f'add_if_then_else{kw or ""}: r = then if if_ else else_; outputs marked only on request', kwargs=kw)
    # operands that coincide (the same gate as condition and branch, both branches the same gate, ...)
    for pat, name in (((0, 1, 0), 'if = else'), ((0, 0, 1), 'if = then'), ((0, 1, 1), 'then = else'), ((0, 0, 0), 'all three the same gate')):
        G.check_gadget(ck, B, 'C09.GADGET', GEN, 'add_if_then_else', 2, lambda n, pat=pat: tuple(n[i] for i in pat),
                       lambda a, res, ev, c, pat=pat: None if bool(ev(res)) == (a[f'i{pat[1]}'] if a[f'i{pat[0]}'] else a[f'i{pat[2]}']) else 'result != (then if if_ else else_)',
                       f'add_if_then_else with coinciding operands ({name}): r = then if if_ else else_')
    G.check_gadget(ck, B, 'C09.GADGET', GEN, 'add_pairwise_if_then_else', 3, lambda n: ([n[0], n[1]], [n[2], n[1]], [n[0], n[0]]),
                   lambda a, res, ev, c: None if [bool(ev(r)) for r in res] == [(a['i2'] if a['i0'] else a['i0']), (a['i1'] if a['i1'] else a['i0'])] else 'r_i != ite(if_i, then_i, else_i)',
                   'add_pairwise_if_then_else with coinciding operands (if_0 = else_0, if_1 = then_1): r_i = ite(if_i, then_i, else_i)')
    for kw in ({}, {'add_outputs': True}):
        G.check_gadget(ck, B, 'C09.GADGET', GEN, 'add_pairwise_xor', 4, lambda n: (n[:2], n[2:]),
                       lambda a, res, ev, c, kw=kw: (None if [bool(ev(r)) for r in res] == [a['i0'] != a['i2'], a['i1'] != a['i3']] else 'xor_i != x_i xor y_i')
                       or (None if c._outputs == (list(res) if kw.get('add_outputs') else []) else f'outputs {c._outputs} with add_outputs={kw.get("add_outputs", False)}'),
                       f'add_pairwise_xor{kw or ""}: r_i = x_i xor y_i in order; outputs marked only on request', kwargs=kw)
        G.check_gadget(ck, B, 'C09.GADGET', GEN, 'add_pairwise_if_then_else', 6, lambda n: (n[:2], n[2:4], n[4:]),
                       lambda a, res, ev, c, kw=kw: (None if [bool(ev(r)) for r in res] == [(a['i2'] if a['i0'] else a['i4']), (a['i3'] if a['i1'] else a['i5'])] else 'r_i != ite(if_i, then_i, else_i)')
                       or (None if c._outputs == (list(res) if kw.get('add_outputs') else []) else f'outputs {c._outputs} with add_outputs={kw.get("add_outputs", False)}'),
                       f'add_pairwise_if_then_else{kw or ""}: r_i = ite(if_i, then_i, else_i) in order', kwargs=kw)
    ck.floor('C09.GADGET', 9)

    ck.rule('C09.NUM', 'subtraction with comparison (unequal widths in both directions), division with remainder (widths 4-5) and integer square root (widths 6-9; more in the thorough tier) instantiated as they stand, without contracts, on a host circuit with gates of its own, both endiannesses, every operand value')
    from .. import num_folds
    num_folds.fold_sub_div_sqrt(ck, 'C09.NUM')
    ck.floor('C09.NUM', 3)

    # OUT-GUARD (a shape rule: the gadget folds above and the add_plus_one fold run every function that has an add_outputs parameter with
    # and without it on a host with outputs of its own and compare the output list)
    with ck.soft('C09.GADGET / C09.FOLD (gadgets and add_plus_one instantiated with and without add_outputs)'):
        n_guard = 0
        for m, q, fn in R.gen_functions(repo, MODULES):
            if 'add_outputs' not in param_names(fn):
                continue
            cp = R.circuit_param(fn)
            for c in calls_in(fn):
                if isinstance(c.func, ast.Attribute) and call_name(c) in R.OUTPUT_IFACE and root_name(c.func.value) == cp:
                    n_guard += 1
                    tests = dominating_tests(m, fn, c)
                    ok = known_true(tests, 'add_outputs')
                    ck.check(ok, 'C09.OUT-GUARD', m, c, f'{q}: `{call_name(c)}` runs only when add_outputs is true',
                             f'`{norm(c)[:90]}` changes the outputs of the host circuit even with add_outputs=False', construct=f'{q}: {norm(c)[:90]}')
            # forwarding add_outputs to a callee must pass it on unchanged
            for c in calls_in(fn):
                for k in c.keywords:
                    if k.arg == 'add_outputs' and norm(k.value) not in ('add_outputs',):
                        if not q.startswith('generate_'):
                            n_guard += 1
                            ck.bad('C09.OUT-GUARD', m, c, f'{q} forwards add_outputs unchanged', f'`{norm(c)[:90]}` passes add_outputs={norm(k.value)}', construct=f'{q}: forwards add_outputs={norm(k.value)}')
        ck.need(n_guard >= 3, f'only {n_guard} guarded output changes found (3 confirmed)')
    R.check_add_only(ck, 'C09.ADD-ONLY', MODULES, host_in_rule='C09.HOST-IN')
    R.check_fresh_labels(ck, 'C09.ADD-ONLY', MODULES)
    R.check_fresh_generated(ck, 'C09.ADD-ONLY', MODULES)
    ck.floor('C09.ADD-ONLY', 15)
    ck.floor('C09.HOST-IN', 8)
    R.check_args(ck, eff, 'C09.ARGS', MODULES)
    R.check_multiset(ck, 'C09.ARGS', MODULES)
    ck.floor('C09.ARGS', 25)
    ck.rule('C09.ENDIAN-REL', 'endianness as a relation: for every public generator with a big_endian parameter the big-endian call on operands given most significant bit first returns the reversed result of the little-endian call (both instantiated on equal host circuits, every value of the operand bits)')
    from .. import num_folds as _nfe
    _compared = _nfe.fold_endian_rel(ck, 'C09.ENDIAN-REL', MODULES, public, ENDIAN_EXEMPT)
    ck.floor('C09.ENDIAN-REL', 3)
    # the shape rule (reverse at entry, convert every return) knows one way of writing it: soft where the relation was instantiated
    with ck.soft('C09.ENDIAN-REL (both endiannesses instantiated and compared)'):
        R.check_endian(ck, 'C09.ENDIAN', MODULES, public, ENDIAN_EXEMPT, names=_compared)
    R.check_endian(ck, 'C09.ENDIAN', MODULES, public, ENDIAN_EXEMPT, but=_compared)
    n = R.check_placeholders(ck, 'C09.PLACEHOLDER', MODULES)
    ck.need(n >= 1, f'only {n} placeholder-using functions could be analysed')
    # folds last: structural rules above have already reported what they can if a template is not foldable
    # ---- bounded template instantiation of the loop-built gadgets whose loop body has finitely many index cases
    ck.rule('C09.FOLD', 'for-range templates instantiated for every small width that exhibits each index case (i < len(b), i >= len(b), i == len(in), i > len(in), first/last), on a host circuit that already has gates and outputs: '
                        'add_equal (constant fits / does not fit), add_plus_one (every in/out width <= 3/4, both endiannesses, with and without outputs), add_sub_two_numbers (widths <= 3 x 3, both endiannesses)')
    fold_templates(ck, B)
    ck.floor('C09.FOLD', 6)

    ck.assume('NOT DECIDED: exactness of subtraction, division, square root, the equality gadget and plus-one at widths other than the instantiated ones (C09.NUM / C09.FOLD list them)')


def _num(bits, big_endian):
    bits = list(bits)
    if big_endian:
        bits.reverse()
    return sum(int(b) << i for i, b in enumerate(bits))


def fold_templates(ck: Checker, B):
    import itertools
    from ..interp import InterpRaise
    repo = ck.repo
    T = B.types

    def host(n_in):
        c, names = B.host(n_in)
        # the host already has a gate and an output of its own
        c.emplace_gate('own', T['OR'], (names[0], names[0]))
        c._outputs.append('own')
        return c, names

    # add_equal
    em = repo.mod(R.ARITH + '.equality')
    probs = []
    n_cases = 0
    for n in (1, 2, 3):
        for num in range(0, (1 << n) + 3):
            n_cases += 1
            try:
                c, names = host(n)
                res = B.run(em.name, 'add_equal', c, list(names), num)
            except InterpRaise as e:
                probs.append(f'add_equal(width {n}, num {num}) raises {e.exc_name}')
                continue
            if res not in c._gates:
                probs.append(f'add_equal(width {n}, num {num}) returned a label that names no gate')
                continue
            for vals in semantics.bools(n):
                a = dict(zip(names, vals))
                got = c.evaluate(res, a)
                want = _num(vals, False) == num
                if got != want:
                    probs.append(f'add_equal(width {n}, num {num}) on operand value {_num(vals, False)} gives {got}')
                    break
            if c._outputs != ['own'] or c._inputs != names:
                probs.append(f'add_equal(width {n}, num {num}) changed the interface of the host')
    ck.check(not probs, 'C09.FOLD', em, em.func('add_equal'), f'add_equal: True exactly when the little-endian operand equals the constant, never when it does not fit ({n_cases} width/constant pairs)',
             '; '.join(probs[:3]), construct='add_equal template')

    # add_plus_one
    gm = repo.mod(GEN)
    probs = []
    n_cases = 0
    for n in (1, 2, 3):
        for out_len in (1, 2, 3, 4):
            for be in (False, True):
                for outs in (False, True):
                    for explicit in (False, True):
                        if explicit is False and out_len != n + 1:
                            continue
                        n_cases += 1
                        try:
                            c, names = host(n + 1)
                            # operands: one primary input and internal gates are allowed as operands
                            ops = list(names[:n])
                            kw = {'add_outputs': outs, 'big_endian': be}
                            if explicit:
                                kw['result_labels'] = [f'z{k}' for k in range(out_len)]
                            res = B.run(gm.name, 'add_plus_one', c, list(ops), **kw)
                        except InterpRaise as e:
                            probs.append(f'add_plus_one(in {n}, out {out_len}, big_endian={be}, add_outputs={outs}) raises {e.exc_name}')
                            continue
                        if len(res) != out_len or any(r not in c._gates for r in res):
                            probs.append(f'add_plus_one(in {n}, out {out_len}) returned {len(res)} bits / labels of missing gates')
                            continue
                        want_outs = ['own'] + (list(res) if outs else [])
                        if c._outputs != want_outs:
                            probs.append(f'add_plus_one(in {n}, out {out_len}, big_endian={be}, add_outputs={outs}): host outputs became {c._outputs}, expected {want_outs}')
                        if c._inputs != names:
                            probs.append('add_plus_one changed the inputs of the host')
                        for vals in semantics.bools(n + 1):
                            a = dict(zip(names, vals))
                            x = _num(vals[:n], be)
                            got = _num([c.evaluate(r, a) for r in res], be)
                            if got != (x + 1) % (1 << out_len):
                                probs.append(f'add_plus_one(in {n}, out {out_len}, big_endian={be}): {x} + 1 gives {got}')
                                break
                        if len(probs) > 4:
                            break
    ck.check(not probs, 'C09.FOLD', gm, gm.func('add_plus_one'), f'add_plus_one: (x + 1) mod 2^out for every small in/out width, both endiannesses, outputs appended only on request ({n_cases} instances)',
             '; '.join(probs[:3]), construct='add_plus_one template')

    # add_sub_two_numbers
    sm = repo.mod(SUB)
    probs = []
    n_cases = 0
    for na in (1, 2, 3, 4):
        for nb in (1, 2, 3):
            for be in (False, True):
                n_cases += 1
                try:
                    c, names = host(na + nb)
                    res = B.run(sm.name, 'add_sub_two_numbers', c, list(names[:na]), list(names[na:]), big_endian=be)
                except InterpRaise as e:
                    probs.append(f'add_sub_two_numbers({na}, {nb}, big_endian={be}) raises {e.exc_name}')
                    continue
                missing = [r for r in res if r not in c._gates]
                if missing:
                    probs.append(f'add_sub_two_numbers(widths {na},{nb}, big_endian={be}): result names gates that do not exist: {missing}')
                    continue
                for vals in semantics.bools(na + nb):
                    a = dict(zip(names, vals))
                    A, Bv = _num(vals[:na], be), _num(vals[na:], be)
                    got = _num([c.evaluate(r, a) for r in res], be)
                    if len(res) != na or got != (A - Bv) % (1 << na):
                        probs.append(f'add_sub_two_numbers(widths {na},{nb}, big_endian={be}): {A} - {Bv} gives {got} on {len(res)} bits')
                        break
                if c._outputs != ['own']:
                    probs.append('add_sub_two_numbers changed the outputs of the host')
    ck.check(not probs, 'C09.FOLD', sm, sm.func('add_sub_two_numbers'), f'add_sub_two_numbers: (a - b) mod 2^len(a) for widths up to 4 x 3, both endiannesses ({n_cases} instances)',
             '; '.join(probs[:3]), construct='add_sub_two_numbers template')

    # add_subtract_with_compare (padding loop + for-range chain of add_sub2/add_sub3 netlists)
    probs = []
    n_cases = 0
    for na in (1, 2, 3):
        for nb in (1, 2, 3):
            for be in (False, True):
                n_cases += 1
                try:
                    c, names = host(na + nb)
                    res, flag = B.run(sm.name, 'add_subtract_with_compare', c, list(names[:na]), list(names[na:]), big_endian=be)
                except InterpRaise as e:
                    probs.append(f'add_subtract_with_compare({na}, {nb}, big_endian={be}) raises {e.exc_name}')
                    continue
                w = max(na, nb)
                if len(res) != w or any(r not in c._gates for r in list(res) + [flag]):
                    probs.append(f'add_subtract_with_compare(widths {na},{nb}, big_endian={be}): {len(res)} result bits / labels of missing gates')
                    continue
                for vals in semantics.bools(na + nb):
                    a_ = dict(zip(names, vals))
                    A, Bv = _num(vals[:na], be), _num(vals[na:], be)
                    got = _num([c.evaluate(r, a_) for r in res], be)
                    fl = c.evaluate(flag, a_)
                    if got != (A - Bv) % (1 << w) or fl != (A < Bv):
                        probs.append(f'add_subtract_with_compare(widths {na},{nb}, big_endian={be}): {A} - {Bv} gives {got} with borrow flag {fl}')
                        break
                if c._outputs != ['own'] or c._inputs != names:
                    probs.append('add_subtract_with_compare changed the interface of the host')
    ck.check(not probs, 'C09.FOLD', sm, sm.func('add_subtract_with_compare'), f'add_subtract_with_compare: (a - b) mod 2^max(len) and a flag that is True exactly when a < b, widths up to 3 x 3, both endiannesses ({n_cases} instances)',
             '; '.join(probs[:3]), construct='add_subtract_with_compare template')

    # add_div_mod (for-range shift-and-subtract over the folded subtractor)
    dm = repo.mod(R.ARITH + '.div_mod')
    probs = []
    n_cases = 0
    for n in (1, 2, 3):
        for be in (False, True):
            n_cases += 1
            try:
                c, names = host(2 * n)
                la, lb = list(names[:n]), list(names[n:])
                q, r = B.run(dm.name, 'add_div_mod', c, la, lb, big_endian=be)
            except InterpRaise as e:
                probs.append(f'add_div_mod(width {n}, big_endian={be}) raises {e.exc_name}')
                continue
            if la != names[:n] or lb != names[n:]:
                probs.append(f'add_div_mod(width {n}, big_endian={be}) modified the caller\'s operand lists')
            if len(q) != n or len(r) != n or any(x not in c._gates for x in list(q) + list(r)):
                probs.append(f'add_div_mod(width {n}, big_endian={be}): result widths {len(q)},{len(r)} / labels of missing gates')
                continue
            for vals in semantics.bools(2 * n):
                a_ = dict(zip(names, vals))
                A, Bv = _num(vals[:n], be), _num(vals[n:], be)
                gq = _num([c.evaluate(x, a_) for x in q], be)
                gr = _num([c.evaluate(x, a_) for x in r], be)
                want = (A // Bv, A % Bv) if Bv else (0, 0)
                if (gq, gr) != want:
                    probs.append(f'add_div_mod(width {n}, big_endian={be}): {A} divmod {Bv} gives {(gq, gr)}, expected {want}')
                    break
            if c._outputs != ['own'] or c._inputs != names:
                probs.append('add_div_mod changed the interface of the host')
    ck.check(not probs, 'C09.FOLD', dm, dm.func('add_div_mod'), f'add_div_mod: (a // b, a mod b), and (0, 0) for b = 0, widths up to 3, both endiannesses ({n_cases} instances)',
             '; '.join(probs[:3]), construct='add_div_mod template')

    # add_sqrt (the bit counters it calls are replaced by their contract)
    from ..gadgets import GadgetBench
    from ..tables import Denotations
    Bc = GadgetBench(repo, Denotations(repo), contracts=True)

    def host_c(n_in):
        c, names = Bc.host(n_in)
        c.emplace_gate('own', T['OR'], (names[0], names[0]))
        c._outputs.append('own')
        return c, names
    qm = repo.mod(R.ARITH + '.sqrt')
    probs = []
    n_cases = 0
    import math
    for n in (1, 2, 3, 4, 5):
        for be in (False, True):
            n_cases += 1
            try:
                c, names = host_c(n)
                lx = list(names)
                res = Bc.run(qm.name, 'add_sqrt', c, lx, big_endian=be)
            except InterpRaise as e:
                probs.append(f'add_sqrt(width {n}, big_endian={be}) raises {e.exc_name}')
                continue
            if len(res) != (n + 1) // 2 or any(x not in c._gates for x in res):
                probs.append(f'add_sqrt(width {n}, big_endian={be}): {len(res)} result bits / labels of missing gates')
                continue
            for vals in semantics.bools(n):
                a_ = dict(zip(names, vals))
                X = _num(vals, be)
                got = _num([c.evaluate(x, a_) for x in res], be)
                if got != math.isqrt(X):
                    probs.append(f'add_sqrt(width {n}, big_endian={be}): sqrt({X}) gives {got}')
                    break
            if c._outputs != ['own'] or c._inputs != names:
                probs.append('add_sqrt changed the interface of the host')
    ck.check(not probs, 'C09.FOLD', qm, qm.func('add_sqrt'), f'add_sqrt: floor(sqrt(x)) on ceil(n/2) bits, widths up to 5, both endiannesses ({n_cases} instances)',
             '; '.join(probs[:3]), construct='add_sqrt template')
