"""C13 -- a miter is true exactly where the two circuits differ (structural clauses)."""

from __future__ import annotations

import ast

from ..core import AnalysisError, Checker, always_raises, call_name, calls_in, deref, gate_const, is_name, norm, single_def
from ..effects import Effects
from ..guards import dominating_tests, feasible_lengths
from ..interp import Env, Interp, InterpRaise
from .. import semantics
from .C10 import kwargs_of

MITER = 'cirbo.sat.miter'
CIRCUIT = 'cirbo.core.circuit.circuit'
GEN = 'cirbo.synthesis.generation.generation'


def emission_arity_ok(ck, mod, fn, call, type_name, operands_expr):
    """An `atleast(k)`/`fixed(k)` gate built from a tuple of non-literal length must be
    dominated by guards that force a legal length.  Returns (ok, feasible lengths)."""
    cls = semantics.ORACLE[type_name][0]
    it = Interp(ck.repo)
    seq = deref(fn, operands_expr)
    seq_src = norm(operands_expr)

    def ev(test, n):
        names = {x.id for x in ast.walk(test) if isinstance(x, ast.Name)}
        env = Env(vars={})
        # bind every single-assignment local that denotes the operand sequence (or its source) to a length-n list
        bound = False
        for nm in names:
            d = single_def(fn, nm)
            if nm == seq_src or (d is not None and (norm(d) == norm(seq) or norm(d) == seq_src)) or (isinstance(operands_expr, ast.Name) and nm == operands_expr.id):
                env.vars[nm] = tuple(range(n))
                bound = True
        if not bound:
            return None
        try:
            return it.eval(mod, test, env)
        except (AnalysisError, InterpRaise):
            return None

    tests = dominating_tests(mod, fn, call)
    feas = feasible_lengths(tests, seq_src, ev)
    if cls == semantics.ANY:
        return True, feas
    if cls[0] == 'fixed':
        return all(n == cls[1] for n in feas), feas
    return all(n >= cls[1] for n in feas), feas


def run(ck: Checker):
    from ..core import AnalysisError
    ck.rule('C13.FOLD', 'build_miter folded on instances of the repository\'s Circuit class over pairs of small circuits (0-2 outputs, outputs that are inputs or repeated, different input labels and orders; top_sort by oracle): operands untouched, inputs in the left order, one output, True exactly where the output vectors differ; mismatched shapes raise MiterDifferentShapesError')
    pending = None
    try:
        from .. import compose_fold
        compose_fold.fold_miter(ck, 'C13.FOLD')
    except AnalysisError as e:
        pending = e   # the structural rules below still decide what they can; the fold's failure is reported afterwards
    if pending is None:
        # the fold decided the behaviour: the structural rules speak only where they recognise the code
        with ck.soft('C13.FOLD'):
            _structural(ck)
    else:
        _structural(ck)
        raise pending


def _structural(ck: Checker):
    repo = ck.repo
    m = repo.mod(MITER)
    fn = m.func('build_miter')
    eff = Effects(repo)
    ck.rule('C13.PURE', 'left and right are not mutated')
    ck.rule('C13.SHAPE', 'construction is dominated by raising MiterDifferentShapesError when input_size or output_size differ')
    ck.rule('C13.WIRE', 'second circuit is connected to the first block\'s inputs in order; the pairwise-xor block receives left outputs then right outputs against its inputs (all x then all y); single output over all xor outputs')
    ck.rule('C13.ARITY', 'the final gate type is legal for every possible number of outputs')
    fi = eff.lookup(MITER, 'build_miter')
    l, r = fn.args.args[0].arg, fn.args.args[1].arg
    for p in (l, r):
        why = '; '.join(f'{w} at line {ln}: `{txt}`' for w, ln, txt in fi.reasons.get(p, [])[:3])
        ck.check(p not in fi.mutated, 'C13.PURE', m, fn, f'build_miter does not modify `{p}`', f'may be modified: {why}', construct=f'build_miter({p}) purity')
    # SHAPE
    guard = None
    for s in fn.body:
        if isinstance(s, ast.If) and always_raises(s.body) and 'MiterDifferentShapesError' in norm(s.body[-1]):
            guard = s
    ok = False
    if guard is not None and isinstance(guard.test, ast.BoolOp) and isinstance(guard.test.op, ast.Or):
        parts = {norm(v).strip('()') for v in guard.test.values}
        ok = parts == {f'{l}.input_size != {r}.input_size', f'{l}.output_size != {r}.output_size'}
    first_construct = min((c.lineno for c in calls_in(fn) if call_name(c) in ('add_circuit', 'connect_circuit', 'Circuit', 'emplace_gate')), default=None)
    ck.check(ok and first_construct is not None and guard.lineno < first_construct, 'C13.SHAPE', m, guard or fn,
             'different numbers of inputs OR outputs are rejected with MiterDifferentShapesError before anything is built',
             f'shape guard is `{norm(guard.test) if guard is not None else None}`', construct='build_miter shape guard')
    # WIRE
    circ = repo.mod(CIRCUIT)
    cc = circ.func('Circuit.connect_circuit')
    ac = circ.func('Circuit.add_circuit')
    mit = None
    for s in fn.body:
        if isinstance(s, ast.Assign) and isinstance(s.value, ast.Call) and call_name(s.value) == 'add_circuit' and norm(s.value.func.value) == 'Circuit()':
            mit = s
    ck.need(mit is not None, f'{m.rel}: miter = Circuit().add_circuit(left, ...) not found')
    mv = norm(mit.targets[0])
    kw = kwargs_of(mit.value, ac)
    ck.check(norm(kw.get('other')) == l and norm(kw.get('name')) == fn.args.kwonlyargs[0].arg, 'C13.WIRE', m, mit,
             'the miter starts as a copy of the left circuit in a named block (inputs in the left circuit\'s order)', f'`{norm(mit)}`', construct='build_miter: add left')
    ln_name = fn.args.kwonlyargs[0].arg
    rn_name = fn.args.kwonlyargs[1].arg
    # every call that attaches a circuit to the miter, with its arguments resolved against the callee's signature
    attach = []
    for c in calls_in(fn):
        if isinstance(c.func, ast.Attribute) and norm(c.func.value) == mv and call_name(c) in ('connect_circuit', 'extend_circuit', 'left_connect_circuit', 'right_connect_circuit'):
            sig = circ.func(f'Circuit.{call_name(c)}')
            kwv = kwargs_of(c, sig)
            other = kwv.get('other', kwv.get('circuit'))
            od = other
            if isinstance(other, ast.Name):
                d = deref(fn, other)
                od = d if d is not None and not isinstance(d, ast.Name) else other
            attach.append((c, call_name(c), {k: norm(v) for k, v in kwv.items()}, norm(other) if other is not None else None, norm(od) if od is not None else None))
    ck.need(attach, f'{m.rel}: build_miter attaches nothing to the miter (shape changed)')
    rights = [x for x in attach if x[3] == r]
    k1 = rights[0][2] if rights else {}
    ck.check(len(rights) == 1 and rights[0][1] == 'connect_circuit' and k1.get('this_connectors') == f'{mv}.get_block({ln_name}).inputs' and k1.get('other_connectors') == f'{r}.inputs'
             and k1.get('right_connect', 'False') == 'False' and k1.get('name') == rn_name, 'C13.WIRE', m, rights[0][0] if rights else fn,
             'the right circuit\'s inputs are fed, in order, by the left block\'s inputs', f'arguments {k1}' if rights else 'no call attaches the right circuit', construct='build_miter: connect right circuit')
    def _is_xor_stage(text):
        try:
            e = ast.parse(text, mode='eval').body
        except SyntaxError:
            return False
        if not (isinstance(e, ast.Call) and norm(e.func) == 'generate_pairwise_xor' and len(e.args) == 1 and not e.keywords):
            return False
        a = e.args[0]
        if isinstance(a, ast.Name):
            d = deref(fn, a)
            a = d if d is not None else a
        return norm(a) in (f'{l}.output_size', f'{r}.output_size', f'len({l}.outputs)', f'len({r}.outputs)')
    xors = [x for x in attach if x[4] is not None and _is_xor_stage(x[4])]
    k2 = xors[0][2] if xors else {}
    px = xors[0][3] if xors else None
    want_this = f'{mv}.get_block({ln_name}).outputs + {mv}.get_block({rn_name}).outputs'
    if xors and k2.get('this_connectors') in (None, 'None'):
        why = (f'`{norm(xors[0][0])[:110]}` passes no connectors: they default to the miter\'s current outputs, which omit every output that is an input or was used as a connector; '
               'circuits with a pass-through output can no longer be compared')
    else:
        why = f'arguments {k2}' if xors else 'no call attaches generate_pairwise_xor(<number of outputs>)'
    ck.check(len(xors) == 1 and k2.get('this_connectors') == want_this and k2.get('other_connectors') in (f'{px}.inputs',) and k2.get('right_connect', 'False') == 'False',
             'C13.WIRE', m, xors[0][0] if xors else fn, 'the xor block receives all left outputs then all right outputs (as recorded in the two blocks) against its inputs', why, construct='build_miter: connect pairwise xor')
    ck.check(len(attach) == 2, 'C13.WIRE', m, fn, 'nothing else is attached to the miter', f'{len(attach)} attaching calls: {[norm(x[0])[:60] for x in attach]}', construct='build_miter: attached circuits')
    # generate_pairwise_xor declares inputs x then y and xors x[i] with y[i]
    g = repo.mod(GEN)
    gp = g.func('generate_pairwise_xor')
    adds = [norm(c.args[0]) for c in calls_in(gp, 'add_inputs')]
    apx = [c for c in calls_in(gp, 'add_pairwise_xor')]
    ok = adds == ['x_labels', 'y_labels'] and len(apx) == 1 and [norm(a) for a in apx[0].args[1:3]] == ['x_labels', 'y_labels'] \
        and any(k.arg == 'add_outputs' and norm(k.value) == 'True' for k in apx[0].keywords)
    ck.check(ok, 'C13.WIRE', g, gp, 'generate_pairwise_xor(n): inputs are x_0..x_{n-1} then y_0..y_{n-1}; outputs xor_i in order', 'shape changed', construct='generate_pairwise_xor inputs order')
    apf = g.func('add_pairwise_xor')
    xs, ys = apf.args.args[1].arg, apf.args.args[2].arg
    emits = [c for c in calls_in(apf) if call_name(c) == 'Gate']
    ok = len(emits) == 1 and gate_const(repo, g, emits[0].args[1]) == 'XOR' and norm(emits[0].args[2]) == f'({xs}[i], {ys}[i])'
    ck.check(ok, 'C13.WIRE', g, apf, 'xor_i = XOR(x[i], y[i])', f'emits `{norm(emits[0]) if emits else None}`', construct='add_pairwise_xor element')
    so = [c for c in calls_in(fn, 'set_outputs') if norm(c.func.value) == mv]
    ck.check(len(so) == 1 and norm(so[0].args[0]) == '[OR_NAME]', 'C13.WIRE', m, so[0] if so else fn, 'the miter has exactly one output, the final gate',
             f'`{norm(so[0]) if so else None}`', construct='build_miter: single output')
    from .. import genrules as R
    ck.hard_on()    # (a dataflow rule, not a shape: generate_* must hand out a circuit allocated in that call)
    R.check_fresh_generated(ck, 'C13.WIRE', [GEN])
    ck.hard_off()
    ck.floor('C13.WIRE', 6)
    # ARITY of the final gate(s)
    finals = [c for c in calls_in(fn, 'emplace_gate') if norm(c.func.value) == mv and norm(c.args[0]) == 'OR_NAME']
    ck.need(len(finals) >= 1, f'{m.rel}: final gate emission not found')
    seen_types = set()
    for c in finals:
        t = gate_const(repo, m, c.args[1])
        ck.need(t is not None, f'{m.rel}: final gate type `{norm(c.args[1])}` not a gate constant')
        seen_types.add(t)
        ops = c.args[2] if len(c.args) > 2 else None
        if ops is None:
            ck.check(semantics.ORACLE[t][0] == semantics.ANY, 'C13.ARITY', m, c, f'{t} without operands is legal', f'{t} needs operands', construct=f'build_miter: final {t} arity')
            # constant is right only when there are no outputs at all
            continue
        od = deref(fn, ops)
        src_ok = norm(od) in (f'tuple({mv}.get_block(PAIRWISE_XOR_NAME).outputs)',)
        ok, feas = emission_arity_ok(ck, m, fn, c, t, ops)
        ck.check(ok and src_ok, 'C13.ARITY', m, c, f'final {t} gate ranges over all xor outputs and its arity is legal on every path reaching it',
                 (f'{t} can be built with {[n for n in feas if not _legal(t, n)]} operands: the miter is built but cannot be evaluated' if not ok else f'operands are `{norm(od)}`'),
                 construct=f'build_miter: final {t} arity')
        # semantics: with n operands the gate must be the OR of them
        bad = [n for n in feas if n >= 1 and not _is_or(t, n)]
        ck.check(not bad, 'C13.WIRE', m, c, f'final {t} gate is true iff some xor output is true', f'{t} over {bad} operands is not their disjunction', construct=f'build_miter: final {t} meaning')
    ck.floor('C13.ARITY', 1)
    ck.rule('C10.*', 'the miter pairs the outputs of the two blocks by position, so the composition rules of C10 (block interface order, attached-gate emission, outputs/inputs composition) are part of this check')
    from . import C10 as _c10
    sub = Checker(repo, 'C13', ck.tier)
    _c10.run(sub)
    for o in sub.obligations:
        if o.rule in ('C10.BLOCK', 'C10.IFACE', 'C10.EMIT', 'C10.PURE', 'C10.FOLD'):
            ck.obligations.append(o)
    ck.assume('the composition rules of C10 are run as shared rules')


def _legal(t, n):
    cls = semantics.ORACLE[t][0]
    if cls == semantics.ANY:
        return True
    if cls[0] == 'fixed':
        return n == cls[1]
    return n >= cls[1]


def _is_or(t, n):
    if not _legal(t, n):
        return True  # reported by the arity rule
    return all(semantics.value(t, xs) == any(xs) for xs in semantics.bools(n))
