"""C14 -- conversion to the bench basis preserves the function."""

from __future__ import annotations

import ast
import itertools

from ..core import Checker, call_name, calls_in, norm, GATE_NAMES
from ..tables import Denotations
from .. import rewrites as rw
from .. import semantics


def operand_cases(tname):
    cls = semantics.ORACLE[tname][0]
    if cls == semantics.ANY:
        # constants ignore their operands but may carry them (circuit search emits two)
        return [(), ('x', 'y'), ('x', 'x'), ('in0', 'x'), ('h', 'h')]
    if cls[0] == 'fixed' and cls[1] == 1:
        return [('x',), ('h',)]
    if cls[0] == 'fixed':
        return [('x', 'y'), ('x', 'x'), ('y', 'in0'), ('h', 'x'), ('x', 'h')]
    return [('x', 'y'), ('x', 'x'), ('x', 'y', 'in0'), ('h', 'x')]


def check_rewrites(ck: Checker, den: Denotations, prefix='C14'):
    """Shared with C01: every converter denotes the old type's function; index and blocks stay exact."""
    repo = ck.repo
    mod, dnode, table = rw.find_convertors(ck)
    TPL, IDX, BLK = f'{prefix}.TPL', f'{prefix}.IDX', f'{prefix}.BLK'
    for tname, (hmod, hname, knode, vnode) in table.items():
        h = table.nodes[tname]
        for operands in operand_cases(tname):
            cons = f'{hname} on {tname}{operands}'
            before, c, err = rw.run_converter(repo, den, hmod, hname, tname, operands, call=table.calls[tname], it=table.interp)
            if err:
                ck.bad(TPL, hmod, h, f'{tname}{operands} is rewritten', f'converter rejects a legal gate ({err})', construct=cons)
                continue
            # function preserved for all values of the free inputs
            probs = []
            for vals in semantics.bools(3):
                a = dict(zip(('in0', 'x', 'y'), vals))
                val = dict(a, h=a['x'] and a['y'])
                want = semantics.value(tname, [val[o] for o in operands])
                got = c.evaluate('g', a)
                if got != want:
                    probs.append(f'{a}: rewritten gate gives {int(got)}, {tname} gives {int(want)}')
            gone = sorted(l for l in before if l not in c._gates)
            if gone:
                probs.append(f'pre-existing gates {gone} were removed by the rewrite')
            elif c._outputs != ['user', 'h']:
                probs.append(f'circuit outputs changed to {c._outputs}')
            elif any((c._gates[l].gate_type.var, c._gates[l].operands) != sig for l, sig in (('h', ('AND', ('x', 'y'))), ('user', ('IFF', ('g',))))):
                probs.append('another gate of the circuit was rewritten')
            new_types = sorted({g.gate_type.var for l, g in c._gates.items() if l == 'g' or l not in before})
            outside = [t for t in new_types if t not in semantics.BENCH_BASIS]
            if outside:
                probs.append(f'emits gate types outside the bench basis: {outside}')
            if prefix == 'C14' or probs:
                ck.check(not probs, TPL, hmod, h, f'rewrite of {tname}{operands} denotes {tname} and stays in the bench basis',
                         '; '.join(probs[:3]), construct=cons,
                         detail={'after': {l: repr(g) for l, g in c._gates.items() if l == 'g' or l not in before}})
            if prefix != 'C14':
                continue
            # users index == inverse of operand relation
            want_idx, got_idx = c.users_from_gates(), c.users_index()
            ck.check(want_idx == got_idx, IDX, hmod, h,
                     'users index equals the inverse operand multiset after the rewrite',
                     f'index {got_idx} but gates imply {want_idx}', construct=cons)
            # helper gates join exactly the blocks containing the rewritten gate; created through emplace_gate
            new = [l for l in c._gates if l not in before]
            inb = [l for l in new if l not in c._blocks['has_g'].gates or l not in c._blocks['also_g'].gates]
            ino = [l for l in new if l in c._blocks['other'].gates]
            ck.check(not inb and not ino, BLK, hmod, h,
                     'every helper gate is added to exactly the blocks whose gates contain the rewritten gate',
                     (f'helper gates {inb} missing from the block of the rewritten gate; ' if inb else '')
                     + (f'helper gates {ino} added to an unrelated block' if ino else ''), construct=cons)
    return table


def run(ck: Checker):
    repo = ck.repo
    den = Denotations(repo)
    ck.rule('C14.REG', 'keys of _convertors = all gate types outside the bench basis; convert_gate dispatches on gate_type with (gate, circuit)')
    ck.rule('C14.TPL', 'each rewrite, folded over a model circuit for every operand pattern (distinct, identical, with the first input) and all input values, denotes the old type and emits only bench-basis types')
    ck.rule('C14.IDX', 'after each rewrite the users index equals the inverse operand multiset')
    ck.rule('C14.BLK', 'helper gates are created by the checked emplace_gate and join exactly the blocks that contain the rewritten gate')
    ck.rule('C14.SNAP', 'into_bench iterates a snapshot of the gate map and converts every gate')
    ck.rule('C14.HIST', 'into_bench called inside seeded histories of public mutations folded on instances of the repository\'s Circuit class (all gate types, constants with operands, blocks, use before definition): afterwards only bench-basis types remain, the circuit is well formed, inputs, outputs and truth table are unchanged (shared machinery with C02.HIST)')
    from .. import history_fold
    history_fold.fold_histories(ck, 'C14.HIST', only=('into_bench',))
    history_fold.fold_copy_convert(ck, 'C14.HIST')
    ck.floor('C14.HIST', 2)
    ck.rule('C14.DRAW', 'into_graphviz_digraph(as_bench=True), the second observation point, folded with a recording stand-in for graphviz.Digraph: nodes, wires and block clusters drawn are those of the converted copy (helper gates inside the clusters of the blocks of the rewritten gate), the drawn circuit is untouched')
    history_fold.fold_bench_drawing(ck, 'C14.DRAW')
    ck.floor('C14.DRAW', 1)
    mod, dnode, table = rw.find_convertors(ck)
    need = [t for t in GATE_NAMES if t not in semantics.BENCH_BASIS]
    missing = [t for t in need if t not in table]
    extra = [t for t in table if t in semantics.BENCH_BASIS]
    ck.check(not missing, 'C14.REG', mod, dnode, 'every non-bench type has a converter',
             f'types left unconverted by into_bench: {missing}', construct='_convertors keys')
    for t in extra:
        # a converter for a bench type is allowed if it is semantically right (checked by TPL) -- record only
        ck.ok('C14.REG', mod, table[t][2], f'extra converter for bench type {t} (checked by C14.TPL)')
    cg = mod.func('convert_gate')
    g, c = cg.args.args[0].arg, cg.args.args[1].arg
    body = [s for s in cg.body if not (isinstance(s, ast.Expr) and isinstance(s.value, ast.Constant))]
    good = (
        len(body) == 1 and isinstance(body[0], ast.If) and norm(body[0].test) == f'{g}.gate_type in _convertors'
        and len(body[0].body) == 1 and norm(body[0].body[0]) == f'_convertors[{g}.gate_type]({g}, {c})' and not body[0].orelse
    )
    ck.decide(True if good else None, 'C14.REG', mod, cg, 'convert_gate dispatches on the gate\'s own type and passes (gate, circuit)',
              f'convert_gate body is `{norm(body[0]) if body else ""}`', construct='convert_gate body', covered_by='C14.HIST (into_bench folded inside histories)')
    ck.floor('C14.REG', 2)

    check_rewrites(ck, den, 'C14')
    ck.floor('C14.TPL', 20)
    # the converters adjust the users index through Circuit._add_user/_remove_user: their contract (one occurrence per call)
    from .C02 import fold_primitives
    fold_primitives(ck, den, R='C14.IDX', which=('users',))
    ck.floor('C14.IDX', 27)
    ck.floor('C14.BLK', 20)

    # constants need an input: the converter must read it through input_at_index (raises on none)
    for t in ('ALWAYS_TRUE', 'ALWAYS_FALSE'):
        if t in table:
            hmod, hname, _, _ = table[t]
            h = table.nodes[t]
            ok = isinstance(h, ast.FunctionDef) and any(call_name(cl) == 'input_at_index' for cl in calls_in(h))
            ck.decide(True if ok else None, 'C14.TPL', hmod, h, f'{t} is rewritten over an existing input obtained through input_at_index (raises when there is none)',
                      'constant converter does not obtain its helper input through input_at_index', construct=f'{hname} first input', covered_by='C14.TPL fold of the constant converters (a circuit without inputs raises)')

    # SNAP
    circ = repo.mod('cirbo.core.circuit.circuit')
    ib = circ.func('Circuit.into_bench')
    loops = [n for n in ast.walk(ib) if isinstance(n, ast.For)]
    good = False
    if len(loops) == 1:
        lp = loops[0]
        src = lp.iter
        # old_gates = copy.copy(self.gates); for cur_gate in old_gates.values(): convert_gate(cur_gate, self)
        from ..core import deref
        base = src.func.value if isinstance(src, ast.Call) and call_name(src) == 'values' else None
        d = deref(ib, base) if base is not None else None
        snap = d is not None and isinstance(d, ast.Call) and norm(d.func) in ('copy.copy', 'dict', 'copy.deepcopy') and norm(d.args[0]) in ('self.gates', 'self._gates')
        if base is None and isinstance(src, ast.Call) and norm(src.func) in ('list', 'tuple') and norm(src.args[0]) in ('self.gates.values()', 'self._gates.values()'):
            snap = True
        body_ok = len(lp.body) == 1 and norm(lp.body[0]) == f'convert_gate({norm(lp.target)}, self)'
        good = snap and body_ok
    ck.decide(True if good else None, 'C14.SNAP', circ, ib, 'into_bench converts every gate of a snapshot of the gate map',
              'into_bench does not iterate a copy of self.gates calling convert_gate(gate, self) unconditionally', construct='into_bench loop', covered_by='C14.HIST (into_bench folded inside histories)')
    ck.assume('emplace_gate/_add_user/_remove_user behave as modelled in rewrites.FakeCircuit (their own shape is checked by C02.IDX)')
