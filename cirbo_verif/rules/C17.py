"""C17 -- lookups return the requested function (structural and folded clauses only;
the content of the shipped data files is NOT decided statically)."""

from __future__ import annotations

import ast
import itertools

from ..core import AnalysisError, Checker, call_name, calls_in, norm, walk_no_nested
from ..interp import Host, Instance, Interp, InterpRaise, RepoClass, RepoFunc
from ..tables import Denotations, GateTypeVal, gate_overrides
from ..rewrites import FakeCircuit, FakeGate
from .. import semantics

DB = 'cirbo.circuits_db.db'
NORM = 'cirbo.circuits_db.normalization'
UTILS = 'cirbo.core.circuit.utils'
LOGIC = 'cirbo.core.logic'


class DC(Host):
    """Stand-in for logic.DontCare."""

    def __eq__(self, o):
        return isinstance(o, DC)

    def __hash__(self):
        return 7

    def __bool__(self):
        raise InterpRaise('DontCareCastError')

    def __repr__(self):
        return '*'


DONT_CARE = DC()


class StubCircuit(Host):
    """Circuit stand-in for denormalisation: outputs are symbolic labels `r<k>` (k-th row of the
    normalised table); NOT gates created by the code under analysis are recorded."""

    def __init__(self, interp, outputs, size=0):
        self._outputs = list(outputs)
        self._gates = {o: None for o in outputs}
        self._interp = interp
        self.size_ = size

    outputs = property(lambda s: s._outputs)
    gates = property(lambda s: s._gates)

    def emplace_gate(self, label, gate_type, operands=()):
        if label in self._gates:
            raise InterpRaise('CircuitValidationError')
        self._gates[label] = (gate_type.var, tuple(operands))
        return self

    def order_outputs(self, outputs):
        ol = self._interp.global_value(self._interp.repo.mod(UTILS), 'order_list')
        self._outputs = ol(outputs, self._outputs)
        return self

    def gates_number(self, exclusion_list=None):
        return self.size_

    def value(self, label, rows):
        g = self._gates.get(label)
        if g is None:
            return rows[int(label[1:])]
        t, ops = g
        if t == 'NOT':
            return [not v for v in self.value(ops[0], rows)]
        raise AnalysisError(f'denormalisation created a {t} gate')


def run(ck: Checker):
    repo = ck.repo
    den = Denotations(repo)
    ov = gate_overrides(den)
    ov[f'{LOGIC}.DontCare'] = DONT_CARE
    ov['cirbo.core.circuit.gate.Gate'] = FakeGate
    types = {t.var: t for t in ov.values() if isinstance(t, GateTypeVal)}
    it = Interp(repo, overrides=ov, max_steps=2_000_000)
    nm = repo.mod(NORM)
    db = repo.mod(DB)
    ck.rule('C17.NORM', 'normalise/denormalise folded over every small truth table (rows are touched only through tt[0], ordering and equality): the denormalised outputs of a circuit computing the normalised table compute the requested table row by row, in the requested order, through negation, reordering and duplicate outputs')
    ck.rule('C17.MIRROR', 'denormalize undoes the normalisation steps in exactly the reverse order')
    ck.rule('C17.MIN', 'get_by_raw_truth_table_model folded over every small model with a stub store: defined entries are never altered, every completion is tried, and a stored circuit of minimal size is returned (None only if no completion is stored)')
    ck.rule('C17.KEY', 'add_circuit and get_by_raw_truth_table derive the key from the normalised table through the same function; keys are injective on tables; decoding/encoding go through the codec of C16')

    ck.rule('C17.DB', 'an in-memory CircuitsDatabase folded end to end (add_circuit of every normal-form two-input table, then get_by_raw_truth_table of every table with 1-2 (3) outputs through normalisation, key, codec and denormalisation): the answer computes exactly the requested table in the requested order, None exactly when the normal form is not stored')
    from .. import eval_fold
    eval_fold.fold_database(ck, 'C17.DB')
    ck.rule('C17.SHIP', 'the two shipped database files split into entries under the dictionary layout; a spread of entries (first, longest, an even stride, every key length) decoded by the folded decode_circuit: well formed, inside the basis of the file, computing exactly the table the key spells, key in normal form')
    eval_fold.fold_shipped(ck, 'C17.SHIP')
    eval_fold.fold_model_lookup(ck, 'C17.MIN')
    ck.floor('C17.SHIP', 2)
    NI = RepoClass(nm, nm.cls('NormalizationInfo'))

    # ---- NORM (folded) ----
    def tables(n_inputs, n_outputs):
        rows = list(itertools.product((False, True), repeat=1 << n_inputs))
        for combo in itertools.product(rows, repeat=n_outputs):
            yield [list(r) for r in combo]

    cases = [(1, 1), (1, 2), (1, 3), (2, 1), (2, 2)]
    if ck.tier == 'thorough':
        cases.append((2, 3))
    probs = []
    n_tab = 0
    def fold_one(tt, as_rows):
        it.steps = 0
        try:
            info = it.instantiate(NI, ([as_rows(r) for r in tt],))
            ntt = info._d['truth_table']
            # normal form: first entry False, rows strictly increasing
            if any(r[0] for r in ntt) or any(list(a) >= list(b) for a, b in zip(ntt, ntt[1:])):
                return f'{_s(tt)} ({as_rows.__name__} rows): normal form {_s(ntt)} is not (first entry 0, strictly increasing rows)'
            # a model circuit computing the normalised table row by row with real gate types (so that code
            # looking at the type / users of an output gate meets realistic gates); the last row also feeds an inner user
            ni_ = (len(ntt[0]) if ntt else 2).bit_length() - 1
            c = FakeCircuit(types['INPUT'])
            ins = [f'x{k}' for k in range(ni_)]
            for l in ins:
                c.emplace_gate(l, types['INPUT'])
            for k, row in enumerate(ntt):
                code = ''.join('1' if v else '0' for v in row)
                if ni_ == 2:
                    c.emplace_gate(f'r{k}', types[semantics.CODE_TO_NAME[code]], (ins[0], ins[1]))
                else:
                    c.emplace_gate(f'r{k}', types[{'00': 'ALWAYS_FALSE', '01': 'IFF', '10': 'NOT', '11': 'ALWAYS_TRUE'}[code]], () if code in ('00', '11') else (ins[0],))
            c._outputs = [f'r{k}' for k in range(len(ntt))]
            it.getattr(nm, None, info, 'denormalize')(c)
            assigns = [dict(zip(ins, vals)) for vals in itertools.product((False, True), repeat=ni_)]
            got = [[c.evaluate(o, a) for a in assigns] for o in c._outputs]
            if c.users_index() != c.users_from_gates():
                return f'{_s(tt)}: users index of the denormalised circuit does not mirror its operands'
            if got != [list(r) for r in tt]:
                return f'{_s(tt)} ({as_rows.__name__} rows): normalised to {_s(ntt)}, denormalised outputs compute {_s(got)}'
        except InterpRaise as e:
            return f'{_s(tt)}: raises {e.exc_name}'
        return None

    for ni, no in cases:
        for tt in tables(ni, no):
            for as_rows in ((list, tuple) if (ni == 1 and no >= 2) else (list,)):
                n_tab += 1
                msg = fold_one(tt, as_rows)
                if msg:
                    probs.append(msg)
            if len(probs) > 5:
                break
    ck.notes['tables_folded'] = n_tab
    ck.check(not probs, 'C17.NORM', nm, nm.func('NormalizationInfo.denormalize'),
             f'denormalize(normalize(t)) restores every requested table ({n_tab} tables over 1-2 inputs, up to {cases[-1][1]} outputs)', '; '.join(probs[:3]), construct='NormalizationInfo normalise/denormalise round trip')
    # idempotence: the normal form of a normal form is itself (add_circuit relies on it to reject unnormalised circuits)
    probs = []
    for tt in itertools.chain(tables(1, 2), tables(2, 2)):
        info = it.instantiate(NI, ([list(r) for r in tt],))
        ntt = [list(r) for r in info._d['truth_table']]
        info2 = it.instantiate(NI, ([list(r) for r in ntt],))
        if [list(r) for r in info2._d['truth_table']] != ntt:
            probs.append(f'{_s(ntt)} renormalises to {_s(info2._d["truth_table"])}')
    ck.check(not probs, 'C17.NORM', nm, nm.functions.get('NormalizationInfo._normalize') or nm.cls('NormalizationInfo'), 'normalisation is idempotent', '; '.join(probs[:3]), construct='NormalizationInfo normal form idempotent')

    with ck.soft('C17.NORM / C17.DB (normalise and denormalise folded over every small table)'):
        # ---- MIRROR (structural) ----
        fn = nm.func('NormalizationInfo._normalize')
        steps = [call_name(s.value) for s in fn.body if isinstance(s, ast.Assign) and isinstance(s.value, ast.Call)]
        dn = nm.func('NormalizationInfo.denormalize')
        undo = [call_name(s.value) for s in dn.body if isinstance(s, ast.Expr) and isinstance(s.value, ast.Call)]
        pair = {'_normalize_outputs': '_denormalize_outputs', '_sort_outputs': '_unsort_outputs', '_delete_duplicate_outputs': '_undo_outputs_deletion'}
        ck.check(len(steps) == 3 and undo == [pair.get(s) for s in reversed(steps)], 'C17.MIRROR', nm, dn, 'denormalize undoes the steps of _normalize in reverse order',
                 f'normalise steps {steps}, undo steps {undo}', construct='denormalize step order')
        guard = [s for s in dn.body if isinstance(s, ast.If) and isinstance(s.body[-1], ast.Raise)]
        ck.check(len(guard) == 1 and all(x in norm(guard[0].test) for x in ('self.negations is None', 'self.permutation is None', 'self.mapping is None')), 'C17.MIRROR', nm, dn,
                 'denormalize refuses uninitialised parameters', 'guard missing', construct='denormalize parameter guard')

    # (the stub-store version of the fold knows one way of writing the lookup; the in-memory database fold above decides)
    with ck.soft('C17.MIN (lookups with don\'t-cares folded on an in-memory database)'):
        # ---- MIN (folded with a stub store) ----
        gm = db.func('CircuitsDatabase.get_by_raw_truth_table_model')

        class StubDB(Host):
            def __init__(self, sizes):
                self.sizes = sizes
                self.queries = []

            def get_by_raw_truth_table(self, tt):
                key = tuple(tuple(bool(v) for v in r) for r in tt)
                self.queries.append(key)
                if any(not isinstance(v, bool) for r in tt for v in r):
                    raise AnalysisError('lookup called with a non-boolean entry')
                sz = self.sizes.get(key)
                if sz is None:
                    return None
                return StubCircuit(it, [], size=sz)

        probs = []
        n_models = 0
        vals = (False, True, DONT_CARE)
        import random
        rnd = random.Random(0)
        models = [[list(r)] for r in itertools.product(vals, repeat=4)] + [[list(a), list(b)] for a in itertools.product(vals, repeat=2) for b in itertools.product(vals, repeat=2)]
        for model in models:
            n_models += 1
            dc = [(i, j) for i, r in enumerate(model) for j, v in enumerate(r) if isinstance(v, DC)]
            completions = []
            for sub in itertools.product((False, True), repeat=len(dc)):
                t = [list(r) for r in model]
                for (i, j), v in zip(dc, sub):
                    t[i][j] = v
                completions.append(tuple(tuple(r) for r in t))
            for trial in range(2):
                sizes = {c: rnd.randint(0, 6) for c in completions if rnd.random() < (0.7 if trial == 0 else 0.3)}
                stub = StubDB(sizes)
                it.steps = 0
                try:
                    res = RepoFunc(it, db, gm, bound_self=stub)([list(r) for r in model])
                except InterpRaise as e:
                    probs.append(f'model {_s(model)}: raises {e.exc_name}')
                    continue
                if set(stub.queries) != set(completions):
                    probs.append(f'model {_s(model)}: looked up {len(set(stub.queries))} tables, the completions are {len(completions)} (defined entries altered or completions skipped)')
                elif not sizes:
                    if res is not None:
                        probs.append(f'model {_s(model)}: nothing stored but a circuit was returned')
                elif res is None or res.size_ != min(sizes.values()):
                    probs.append(f'model {_s(model)}: stored sizes {sorted(sizes.values())}, returned {None if res is None else res.size_}')
            if len(probs) > 5:
                break
        ck.notes['models_folded'] = n_models
        ck.check(not probs, 'C17.MIN', db, gm, f'lookup of a model with don\'t-cares tries exactly its completions and returns a smallest stored circuit ({n_models} models x 2 stub stores)',
                 '; '.join(probs[:3]), construct='get_by_raw_truth_table_model arg-min over completions')
        excl = [c for c in calls_in(gm, 'gates_number')]
        ck.decide(True if (len(excl) == 1 and excl[0].args and norm(excl[0].args[0]) == gm.args.args[2].arg) else None, 'C17.MIN', db, gm, 'sizes are measured with the caller\'s exclusion list', 'gates_number not called with exclusion_list', construct='get_by_raw_truth_table_model size measure', covered_by='C17.MIN fold with a stub store')

    with ck.soft('C17.DB (database folded end to end)'):
        # ---- KEY ----
        gb = db.func('CircuitsDatabase.get_by_raw_truth_table')
        src = norm(gb)
        ok = 'normalization = NormalizationInfo(truth_table)' in src and 'label = _truth_table_to_label(normalization.truth_table)' in src.replace('normalized_truth_table = normalization.truth_table\n', '').replace('_truth_table_to_label(normalized_truth_table)', '_truth_table_to_label(normalization.truth_table)') \
            and 'circuit = self.get_by_label(label)' in src and 'normalization.denormalize(circuit)' in src
        rets = [n for n in walk_no_nested(gb) if isinstance(n, ast.Return)]
        ok = ok and [norm(r.value) for r in rets] == ['None', 'circuit']
        ck.check(ok, 'C17.KEY', db, gb, 'lookup: normalise, key by the normal form, decode, denormalise that same circuit, return it', 'shape changed', construct='get_by_raw_truth_table')
        ad = db.func('CircuitsDatabase.add_circuit')
        src = norm(ad)
        ok = 'truth_table = circuit.get_truth_table()' in src and 'normalization = NormalizationInfo(truth_table)' in src and 'if normalized_truth_table != truth_table:' in src \
            and 'label = _truth_table_to_label(normalized_truth_table)' in src and 'self._dict[label] = encoded_circuit' in src and 'encoded_circuit = encode_circuit(circuit)' in src \
            and 'if label in self._dict.keys():' in src
        ck.check(ok, 'C17.KEY', db, ad, 'add: only normalised circuits are stored, under the key of their own truth table, never overwriting', 'shape changed', construct='add_circuit')
        gl = db.func('CircuitsDatabase.get_by_label')
        ck.check('encoded_circuit = self._dict.get(label)' in norm(gl) and 'return decode_circuit(encoded_circuit)' in norm(gl), 'C17.KEY', db, gl, 'stored bytes are decoded by the codec', 'shape changed', construct='get_by_label')
    lab = RepoFunc(it, db, db.func('_truth_table_to_label'))
    seen = {}
    dup = []
    for ni, no in ((1, 1), (1, 2), (2, 1), (2, 2), (1, 3)):
        for tt in tables(ni, no):
            k = lab(tt)
            key = tuple(tuple(r) for r in tt)
            if k in seen and seen[k] != key:
                dup.append(f'{_s(tt)} and {_s(seen[k])} share key {k}')
            seen[k] = key
    ck.check(not dup, 'C17.KEY', db, db.func('_truth_table_to_label'), f'keys are injective on tables ({len(seen)} tables)', '; '.join(dup[:2]), construct='_truth_table_to_label injective')
    # decoded and denormalised circuits are built through the checked circuit API only (well-formedness of every answer)
    from .C02 import write_sites, _generic_site
    raw = [(m_, node, t, kind, what) for m_, node, t, kind, what in write_sites(repo) if m_.name.startswith('cirbo.circuits_db')]
    for m_, node, t, kind, what in raw:
        _generic_site(ck, 'C17.KEY', m_, node, t, kind, what, f'{m_.qualname_of(node)}: {norm(node)[:150]}')
    enc = repo.mod('cirbo.circuits_db.circuits_encoding')
    dg = enc.func('_decode_gate')
    adds = [c for c in calls_in(dg) if call_name(c) in ('add_gate', 'emplace_gate') and isinstance(c.func, ast.Attribute)]
    ck.check(len(adds) == 1 and not [x for x in raw if x[0] is enc], 'C17.KEY', enc, dg, 'every decoded gate enters the circuit through the checked add_gate/emplace_gate (gate map and users index stay exact)',
             f'{len(adds)} checked insertions, {len([x for x in raw if x[0] is enc])} raw writes to circuit internals in the decoder', construct='_decode_gate inserts through the circuit API')
    ck.floor('C17.KEY', 5)
    ck.assume('NOT DECIDED: the entries of the shipped aig/xaig databases outside the sample decoded by C17.SHIP (a statement about data files, not about code shape)')
    ck.assume('the store returns, for a key, a circuit computing that normalised table (content of the data files)')


def _s(tt):
    return '/'.join(''.join('*' if isinstance(v, DC) else str(int(v)) for v in r) for r in tt)
