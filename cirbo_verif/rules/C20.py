"""C20 -- traversals visit exactly the reachable gates in a valid order (structural clauses)."""

from __future__ import annotations

import ast

from ..core import AnalysisError, Checker, always_raises, call_name, calls_in, deref, norm, single_def, walk_no_nested

CIRCUIT = 'cirbo.core.circuit.circuit'
VALID = 'cirbo.core.circuit.validation'


def _branches(if_node):
    """[(test, body)] of an if/elif chain and the final else body."""
    out = []
    cur = if_node
    while True:
        out.append((cur.test, cur.body))
        if len(cur.orelse) == 1 and isinstance(cur.orelse[0], ast.If):
            cur = cur.orelse[0]
        else:
            return out, cur.orelse


def _lambda_pair(expr):
    """(body_if_true, body_if_false, test) of `(lambda e: A) if T else (lambda e: B)`."""
    if isinstance(expr, ast.IfExp) and isinstance(expr.body, ast.Lambda) and isinstance(expr.orelse, ast.Lambda):
        pa = expr.body.args.args[0].arg
        pb = expr.orelse.args.args[0].arg
        return norm(expr.body.body).replace(pa, 'E'), norm(expr.orelse.body).replace(pb, 'E'), norm(expr.test)
    return None


def run(ck: Checker):
    ck.rule('C20.FOLD', 'top_sort, dfs, bfs (every start set, both directions, with and without topological reporting of unvisited gates, hooks that read the live state mapping) and the cycle check folded on instances of the repository\'s Circuit class over a family of model circuits (stored operands-first and users-first, plus cyclic states) and compared with their definitions')
    from .. import eval_fold
    eval_fold.fold_traversals(ck, 'C20.FOLD')
    ck.rule('C20.HIST', 'top_sort in both directions folded at random points of seeded histories of public mutations (incl. bench conversion, compositions, subcircuit replacement): every gate exactly once, after / before all of its operands (shared machinery with C02.HIST)')
    from .. import history_fold
    history_fold.fold_histories(ck, 'C20.HIST', only=(), observers=('top_sort',), n_hist=(120 if ck.tier == 'quick' else 1200))
    ck.floor('C20.HIST', 1)
    ck.floor('C20.FOLD', 4)
    # the structural rules below state the same clauses for circuits of any size, but know only one way of writing the
    # traversals: where they do not recognise the code, the clause is left to the fold above
    with ck.soft('C20.FOLD'):
        _structural(ck)


def _structural(ck: Checker):
    repo = ck.repo
    m = repo.mod(CIRCUIT)
    ck.rule('C20.STATE', 'the traversal loop handles every TraverseState member; enter hook before ENTERED and one yield per gate in the UNVISITED branch; exit hook only in the ENTERED branch followed by VISITED and pop; BFS marks VISITED and pops at once; both modes handled')
    ck.rule('C20.UNVIS', 'the unvisited hook is called iff the state is UNVISITED, over top_sort(inverse=True) when requested else over the gate map; end hook last')
    ck.rule('C20.DUAL', 'top_sort and the traversal choose dual relations under the same `inverse` test (operands count with users as successors, users count with operands as successors)')
    ck.rule('C20.KAHN', 'Kahn loop shape: in-degrees from the predecessor relation for every gate, start from zero in-degree, decrement once per successor occurrence, enqueue at zero, yield every dequeued gate')
    ck.rule('C20.CYCLE', 'check_circuit_has_no_cycles raises exactly in the discover hook on an ENTERED gate and runs the default DFS from the outputs')
    ck.rule('C20.ENTRY', 'dfs/bfs pass mode, start gates, direction and every hook through unchanged')

    # enum members
    ts = m.cls('TraverseState')
    members = [s.targets[0].id for s in ts.body if isinstance(s, ast.Assign)]
    tm = m.cls('TraverseMode')
    modes = [s.targets[0].id for s in tm.body if isinstance(s, ast.Assign)]

    fn = m.func('Circuit._traverse_circuit')
    loops = [s for s in fn.body if isinstance(s, ast.While)]
    ck.need(len(loops) == 1 and norm(loops[0].test) == 'queue', f'{m.rel}: traversal work-list loop `while queue` not found')
    loop = loops[0]
    # current element
    cur_assign = loop.body[0]
    ck.check(isinstance(cur_assign, ast.Assign) and norm(cur_assign.value) == 'self.get_gate(queue[pop_index])', 'C20.STATE', m, cur_assign,
             'the loop examines the element at the pop position (front for BFS, back for DFS)', f'`{norm(cur_assign)}`', construct='traverse: current element')
    cur = norm(cur_assign.targets[0]) if isinstance(cur_assign, ast.Assign) else 'current_elem'
    chain = [s for s in loop.body if isinstance(s, ast.If)]
    ck.need(len(chain) == 1, f'{m.rel}: state dispatch chain not found in traversal loop')
    branches, els = _branches(chain[0])
    handled = {}
    for test, body in branches:
        t = norm(test)
        for mem in members:
            if t == f'gate_states[{cur}.label] == TraverseState.{mem}':
                handled[mem] = body
    missing = [x for x in members if x not in handled]
    ck.check(not missing and always_raises(els), 'C20.STATE', m, chain[0], 'every TraverseState member has a branch and anything else raises',
             f'members without a branch: {missing}; else raises: {always_raises(els)}', construct='traverse: state dispatch exhaustive')
    if 'UNVISITED' in handled:
        body = handled['UNVISITED']
        seq = []
        for s in body:
            n = norm(s)
            if n == f'on_enter_hook({cur}, gate_states)':
                seq.append('enter')
            elif n == f'gate_states[{cur}.label] = TraverseState.ENTERED':
                seq.append('ENTERED')
            elif isinstance(s, ast.For):
                seq.append('children')
            elif n == f'_bfs_remove({cur}.label)':
                seq.append('bfs_remove')
            elif n == f'yield {cur}':
                seq.append('yield')
            else:
                seq.append('?' + n[:50])
        ck.check(seq == ['enter', 'ENTERED', 'children', 'bfs_remove', 'yield'], 'C20.STATE', m, chain[0],
                 'first visit: enter hook, mark ENTERED, discover children, (BFS: finish), yield the gate once',
                 f'UNVISITED branch does {seq}', construct='traverse: UNVISITED branch')
        ch = [s for s in body if isinstance(s, ast.For)]
        if ch:
            c0 = ch[0]
            child = norm(c0.target)
            ok = norm(c0.iter) == f'_next_getter({cur})' and len(c0.body) == 2 and norm(c0.body[0]) == f'on_discover_hook(self.get_gate({child}), gate_states)' \
                and isinstance(c0.body[1], ast.If) and norm(c0.body[1].test) == f'gate_states[{child}] == TraverseState.UNVISITED' \
                and [norm(x) for x in c0.body[1].body] == [f'queue.append({child})'] and not c0.body[1].orelse
            ck.check(ok, 'C20.STATE', m, c0, 'every neighbour is discovered (hook) and enqueued iff still UNVISITED', f'children loop is `{norm(c0)[:200]}`', construct='traverse: children loop')
        ck.check(not any(call_name(c) == 'on_exit_hook' for s in body for c in calls_in(s)), 'C20.STATE', m, chain[0], 'no exit hook on first visit', 'on_exit_hook called in the UNVISITED branch', construct='traverse: no exit hook on enter')
    if 'ENTERED' in handled:
        seq = [norm(s) for s in handled['ENTERED']]
        ck.check(seq == [f'on_exit_hook({cur}, gate_states)', f'gate_states[{cur}.label] = TraverseState.VISITED', 'queue.pop(pop_index)'], 'C20.STATE', m, chain[0],
                 'second visit (all descendants done): exit hook, mark VISITED, pop', f'ENTERED branch does {seq}', construct='traverse: ENTERED branch')
    if 'VISITED' in handled:
        seq = [norm(s) for s in handled['VISITED']]
        ck.check(seq == ['queue.pop(pop_index)'], 'C20.STATE', m, chain[0], 'an already finished gate is just dropped from the work list', f'VISITED branch does {seq}', construct='traverse: VISITED branch')
    # mode handling
    mode_if = [s for s in fn.body if isinstance(s, ast.If) and norm(s.test).startswith('mode == TraverseMode.')]
    ok = False
    if mode_if:
        br, els2 = _branches(mode_if[0])
        got = {norm(t): [norm(x) for x in b] for t, b in br}
        ok = got.get('mode == TraverseMode.BFS') in (['pop_index: int = 0'], ['pop_index = 0']) and got.get('mode == TraverseMode.DFS') in (['pop_index = -1'], ['pop_index: int = -1']) \
            and always_raises(els2) and set(modes) == {'DFS', 'BFS'}
    ck.check(ok, 'C20.STATE', m, mode_if[0] if mode_if else fn, 'BFS takes from the front, DFS from the back, any other mode is refused', 'mode dispatch changed', construct='traverse: mode dispatch')
    # _bfs_remove definitions
    defs = [n for n in ast.walk(fn) if isinstance(n, ast.FunctionDef) and n.name == '_bfs_remove']
    ok = len(defs) == 2
    if ok:
        bfs_def = [d for d in defs if isinstance(m.parents[d], ast.If) and d in m.parents[d].body and norm(m.parents[d].test) == 'mode == TraverseMode.BFS']
        dfs_def = [d for d in defs if d not in bfs_def]
        ok = len(bfs_def) == 1 and len(dfs_def) == 1
        if ok:
            lab = bfs_def[0].args.args[0].arg
            b = [norm(s) for s in bfs_def[0].body if not isinstance(s, (ast.Nonlocal, ast.Return))]
            ok = b == [f'gate_states[{lab}] = TraverseState.VISITED', 'queue.pop(pop_index)']
            ok = ok and all(isinstance(s, (ast.Return, ast.Pass)) for s in dfs_def[0].body)
    ck.check(ok, 'C20.STATE', m, defs[0] if defs else fn, 'BFS finishes a gate immediately (VISITED + pop); DFS leaves it on the stack for the exit visit', '_bfs_remove changed', construct='traverse: _bfs_remove')
    # start set
    st_if = [s for s in fn.body if isinstance(s, ast.If) and norm(s.test) == 'start_gates is not None']
    ok = False
    if st_if:
        br, els2 = _branches(st_if[0])
        got = {norm(t): [norm(x) for x in b] for t, b in br}
        ok = got.get('start_gates is not None') in (['queue: list[gate.Label] = list(start_gates)'], ['queue = list(start_gates)']) \
            and got.get('inverse') == ['queue = list(self.inputs)'] and [norm(x) for x in els2] == ['queue = list(self.outputs)']
    ck.check(ok, 'C20.STATE', m, st_if[0] if st_if else fn, 'start set: given gates, else inputs when inverse, else outputs (copied)', 'start set selection changed', construct='traverse: start set')
    gs = single_def(fn, 'gate_states')
    ck.check(gs is not None and norm(gs) == 'collections.defaultdict(lambda: TraverseState.UNVISITED)', 'C20.STATE', m, fn, 'every gate starts UNVISITED',
             f'gate_states = `{norm(gs) if gs is not None else None}`', construct='traverse: initial states')
    ck.floor('C20.STATE', 10)

    # ---- UNVIS ----
    tail = [s for s in fn.body if s.lineno > loop.end_lineno]
    ok = len(tail) == 2 and isinstance(tail[0], ast.If) and norm(tail[0].test) == 'topsort_unvisited' and norm(tail[1]) == 'on_traversal_end_hook(gate_states)'
    if ok:
        a, b = tail[0].body, tail[0].orelse
        ok = len(a) == 1 and isinstance(a[0], ast.For) and norm(a[0].iter) == 'self.top_sort(inverse=True)' and len(b) == 1 and isinstance(b[0], ast.For) and norm(b[0].iter) in ('self._gates', 'self.gates')
        if ok:
            g1 = norm(a[0].target)
            l2 = norm(b[0].target)
            ok = [norm(x) for x in a[0].body] == [f'if gate_states[{g1}.label] == TraverseState.UNVISITED:\n    unvisited_hook({g1}, gate_states)'.replace('\n    ', ' ')] or (
                len(a[0].body) == 1 and isinstance(a[0].body[0], ast.If) and norm(a[0].body[0].test) == f'gate_states[{g1}.label] == TraverseState.UNVISITED'
                and [norm(x) for x in a[0].body[0].body] == [f'unvisited_hook({g1}, gate_states)'] and not a[0].body[0].orelse)
            ok = ok and len(b[0].body) == 1 and isinstance(b[0].body[0], ast.If) and norm(b[0].body[0].test) == f'gate_states[{l2}] == TraverseState.UNVISITED' \
                and [norm(x) for x in b[0].body[0].body] == [f'unvisited_hook(self.get_gate({l2}), gate_states)'] and not b[0].body[0].orelse
    ck.check(ok, 'C20.UNVIS', m, tail[0] if tail else fn, 'after the traversal the unvisited hook gets exactly the UNVISITED gates (topologically from the inputs when requested), then the end hook runs',
             'post-traversal section changed', construct='traverse: unvisited section')

    # ---- DUAL ----
    ng = single_def(fn, '_next_getter')
    lp = _lambda_pair(ng) if ng is not None else None
    ck.check(lp == ('self.get_gate_users(E.label)', 'E.operands', 'inverse'), 'C20.DUAL', m, fn, 'traversal follows users when inverse, operands otherwise', f'_next_getter = {lp}', construct='traverse: _next_getter')
    tsf = m.func('Circuit.top_sort')
    pg = _lambda_pair(single_def(tsf, '_predecessors_getter')) if single_def(tsf, '_predecessors_getter') is not None else None
    sg = _lambda_pair(single_def(tsf, '_successors_getter')) if single_def(tsf, '_successors_getter') is not None else None
    ck.check(pg == ('len(E.operands)', 'len(self.get_gate_users(E.label))', 'inverse'), 'C20.DUAL', m, tsf,
             'in-degree = number of operands when sorting from the inputs, number of users when sorting from the outputs', f'_predecessors_getter = {pg}', construct='top_sort: _predecessors_getter')
    ck.check(sg == ('self.get_gate_users(E.label)', 'E.operands', 'inverse'), 'C20.DUAL', m, tsf,
             'successors = users when sorting from the inputs, operands when sorting from the outputs (dual of the in-degree relation)', f'_successors_getter = {sg}', construct='top_sort: _successors_getter')
    ck.floor('C20.DUAL', 3)

    # ---- KAHN ----
    im = single_def(tsf, 'indegree_map')
    ck.check(im is not None and norm(im) == '{elem.label: _predecessors_getter(elem) for elem in self._gates.values()}', 'C20.KAHN', m, tsf,
             'every gate gets its in-degree', f'indegree_map = `{norm(im) if im is not None else None}`', construct='top_sort: indegree map')
    q = single_def(tsf, 'queue')
    ck.check(q is not None and norm(q) == '[label for label, value in indegree_map.items() if value == 0]', 'C20.KAHN', m, tsf, 'the work list starts with all gates of in-degree 0',
             f'queue = `{norm(q) if q is not None else None}`', construct='top_sort: initial queue')
    wl = [s for s in tsf.body if isinstance(s, ast.While)]
    ok = False
    if len(wl) == 1 and norm(wl[0].test) == 'queue':
        b = wl[0].body
        ok = len(b) == 3 and norm(b[0]) == 'current_elem = self.get_gate(queue.pop())' and isinstance(b[1], ast.For) and norm(b[1].iter) == '_successors_getter(current_elem)' \
            and [norm(x) for x in b[1].body] == [f'indegree_map[{norm(b[1].target)}] -= 1', f'if indegree_map[{norm(b[1].target)}] == 0: queue.append({norm(b[1].target)})'.replace(': ', ':\n    ')] or False
        if not ok and len(b) == 3 and isinstance(b[1], ast.For):
            s = norm(b[1].target)
            body = b[1].body
            ok = norm(b[0]) == 'current_elem = self.get_gate(queue.pop())' and norm(b[1].iter) == '_successors_getter(current_elem)' and len(body) == 2 \
                and norm(body[0]) == f'indegree_map[{s}] -= 1' and isinstance(body[1], ast.If) and norm(body[1].test) == f'indegree_map[{s}] == 0' \
                and [norm(x) for x in body[1].body] == [f'queue.append({s})'] and not body[1].orelse and norm(b[2]) == 'yield current_elem'
    ck.check(ok, 'C20.KAHN', m, wl[0] if wl else tsf, 'each dequeued gate is yielded once; every successor occurrence lowers the in-degree by one and the successor is enqueued exactly at zero',
             'Kahn loop changed shape', construct='top_sort: Kahn loop')
    cyc = [s for s in tsf.body if isinstance(s, ast.If) and norm(s.test) == 'not queue' and always_raises(s.body)]
    ck.check(len(cyc) == 1, 'C20.KAHN', m, tsf, 'a non-empty circuit without a zero in-degree gate is reported as cyclic', 'check missing', construct='top_sort: no start gate')
    ck.floor('C20.KAHN', 4)

    # ---- ENTRY ----
    for name, mode in (('dfs', 'DFS'), ('bfs', 'BFS')):
        f = m.func(f'Circuit.{name}')
        rets = [n for n in ast.walk(f) if isinstance(n, ast.Return)]
        ok = len(rets) == 1 and isinstance(rets[0].value, ast.Call) and norm(rets[0].value.func) == 'self._traverse_circuit'
        if ok:
            c = rets[0].value
            ok = [norm(a) for a in c.args] == [f'TraverseMode.{mode}', 'start_gates'] and all(k.arg == norm(k.value) for k in c.keywords)
            kws = {k.arg for k in c.keywords}
            params = {a.arg for a in f.args.kwonlyargs}
            ok = ok and kws == params
        ck.check(ok, 'C20.ENTRY', m, f, f'{name} passes mode {mode}, the start gates, the direction and every hook through unchanged', f'returns `{norm(rets[0].value)[:200] if rets else None}`', construct=f'{name} delegation')

    # ---- CYCLE ----
    v = repo.mod(VALID)
    cf = v.func('check_circuit_has_no_cycles')
    hooks = [n for n in ast.walk(cf) if isinstance(n, ast.FunctionDef) and n is not cf]
    ok = len(hooks) == 1
    if ok:
        h = hooks[0]
        g, st = h.args.args[0].arg, h.args.args[1].arg
        b = [s for s in h.body if not (isinstance(s, ast.Expr) and isinstance(s.value, ast.Constant))]
        ok = len(b) == 1 and isinstance(b[0], ast.If) and norm(b[0].test) == f'{st}[{g}.label] == TraverseState.ENTERED' and always_raises(b[0].body) and not b[0].orelse \
            and 'CircuitValidationError' in norm(b[0].body[-1])
        c = [x for x in calls_in(cf, 'dfs')]
        ok = ok and len(c) == 1 and norm(c[0].func.value) == cf.args.args[0].arg and not c[0].args and [(k.arg, norm(k.value)) for k in c[0].keywords] == [('on_discover_hook', h.name)] \
            and norm(v.parents[c[0]].func) == 'more_itertools.consume'
    ck.check(ok, 'C20.CYCLE', v, cf, 'a back edge (discovering a gate that is ENTERED, i.e. on the current DFS path) raises; the DFS runs from the outputs over operands and is consumed',
             'cycle check changed shape', construct='check_circuit_has_no_cycles')
    ck.assume('correctness of the Kahn loop and of the work-list loop as algorithms (exact reachability, post-order of exits) is not decided beyond these shape rules')
