"""Bounded template instantiation of the `for`-range arithmetic generators (C07/C08/C09).

Only generators whose own body is straight-line / `for x in range(...)` code are folded; the
while-loop algorithms they call (bit counters, weighted summation) are replaced by *contract
gates* (assume/guarantee): a gate whose value is the callee's documented result.  The folded
generator is therefore decided relative to that contract, for every small width exhibiting each
index case, on a host circuit that already has a gate and an output of its own, for every operand
value.  Nothing of cirbo is imported or run.
"""

from __future__ import annotations

from .core import Checker
from .gadgets import GadgetBench
from .interp import InterpRaise
from .tables import Denotations
from . import semantics

ARITH = 'cirbo.synthesis.generation.arithmetics'
SUM = ARITH + '.summation'
SUB = ARITH + '.subtraction'
MUL = ARITH + '.multiplication'
SQ = ARITH + '.square'


def num(bits, big_endian):
    bits = list(bits)
    if big_endian:
        bits.reverse()
    return sum(int(b) << i for i, b in enumerate(bits))


class Bench:
    def __init__(self, repo):
        self.repo = repo
        self.den = Denotations(repo)
        self.B = GadgetBench(repo, self.den, contracts=True)
        self.T = self.B.types

    def host(self, n_in):
        c, names = self.B.host(n_in)
        c.emplace_gate('own', self.T['OR'], (names[0], names[0]))
        c._outputs.append('own')
        return c, names

    def run(self, modname, fname, c, *a, **k):
        return self.B.run(modname, fname, c, *a, **k)


def _two_operand(ck, bench, rule, modname, fname, widths, spec, what, construct, extra_args=(), flag=False):
    """Fold `fname(circuit, *extra, a, b, big_endian=...)` for every width pair and both endiannesses."""
    m = ck.repo.mod(modname)
    probs, n_cases = [], 0
    for na, nb in widths:
        for extra in (extra_args or [()]):
            for be in (False, True):
                n_cases += 1
                tag = f'{fname}(widths {na},{nb}{", " + ", ".join(map(str, extra)) if extra else ""}, big_endian={be})'
                try:
                    c, names = bench.host(na + nb)
                    la, lb = list(names[:na]), list(names[na:])
                    res = bench.run(modname, fname, c, *extra, la, lb, big_endian=be)
                except InterpRaise as e:
                    probs.append(f'{tag} raises {e.exc_name}')
                    continue
                if la != names[:na] or lb != names[na:]:
                    probs.append(f'{tag} modified the caller\'s operand lists')
                labels = list(res)
                if any(r not in c._gates for r in labels):
                    probs.append(f'{tag}: result names gates that do not exist')
                    continue
                for vals in semantics.bools(na + nb):
                    a_ = dict(zip(names, vals))
                    A, Bv = num(vals[:na], be), num(vals[na:], be)
                    got = num([c.evaluate(r, a_) for r in labels], be)
                    msg = spec(na, nb, extra, A, Bv, got, len(labels))
                    if msg:
                        probs.append(f'{tag}: {msg}')
                        break
                if c._outputs != ['own'] or c._inputs != names:
                    probs.append(f'{tag} changed the interface of the host circuit')
                if len(probs) > 4:
                    break
    ck.check(not probs, rule, m, m.func(fname), f'{what} ({n_cases} instances, every operand value)', '; '.join(probs[:3]), construct=construct)


def fold_adders(ck: Checker, rule: str, bench: Bench | None = None):
    """add_sum_two_numbers and add_sum_two_numbers_with_shift (small shifts), bit counters by contract."""
    bench = bench or Bench(ck.repo)
    widths = [(a, b) for a in (1, 2, 3) for b in (1, 2, 3)]
    _two_operand(ck, bench, rule, SUM, 'add_sum_two_numbers', widths,
                 lambda na, nb, ex, A, Bv, got, w: None if got == A + Bv and w == max(na, nb) + 1 else f'{A} + {Bv} gives {got} on {w} bits',
                 'add_sum_two_numbers: a + b on max(len) + 1 bits, widths up to 3 x 3, both endiannesses, bit counters replaced by their contract', 'add_sum_two_numbers template')
    _two_operand(ck, bench, rule, SUM, 'add_sum_two_numbers_with_shift', [(a, b) for a in (1, 2, 3) for b in (1, 2)],
                 lambda na, nb, ex, A, Bv, got, w: None if got == A + (Bv << ex[0]) else f'{A} + {Bv} * 2^{ex[0]} gives {got} on {w} bits',
                 'add_sum_two_numbers_with_shift: a + b * 2^shift for shifts 0..len(a)+1, widths up to 3 x 2, both endiannesses, bit counters replaced by their contract',
                 'add_sum_two_numbers_with_shift template', extra_args=[(s,) for s in (0, 1, 2, 3, 4)])
    return bench


def fold_sub(ck: Checker, rule: str, bench: Bench | None = None):
    bench = bench or Bench(ck.repo)
    _two_operand(ck, bench, rule, SUB, 'add_sub_two_numbers', [(a, b) for a in (1, 2, 3, 4) for b in (1, 2, 3) if b <= a],
                 lambda na, nb, ex, A, Bv, got, w: None if w == na and got == (A - Bv) % (1 << na) else f'{A} - {Bv} gives {got} on {w} bits',
                 'add_sub_two_numbers: (a - b) mod 2^len(a), widths up to 4 x 3 (len(b) <= len(a)), both endiannesses', 'add_sub_two_numbers template')
    return bench


def fold_mul(ck: Checker, rule: str, bench: Bench | None = None):
    """add_mul_alter (shift-and-add over the folded adders) for widths up to 3 x 3."""
    bench = bench or Bench(ck.repo)

    def spec(na, nb, ex, A, Bv, got, w):
        want_w = na + nb if min(na, nb) > 1 else na + nb - 1
        return None if got == A * Bv and w == want_w else f'{A} * {Bv} gives {got} on {w} bits (expected {want_w} bits)'
    _two_operand(ck, bench, rule, MUL, 'add_mul_alter', [(a, b) for a in (1, 2, 3) for b in (1, 2, 3)], spec,
                 'add_mul_alter: a * b on n + m bits (n + m - 1 when a width is 1), widths up to 3 x 3, both endiannesses, bit counters replaced by their contract', 'add_mul_alter template')
    return bench
