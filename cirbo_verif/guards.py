"""E3: guard contexts -- the tests that hold when a statement executes."""

from __future__ import annotations

import ast
import typing as tp

from .core import Module, norm, terminates


def dominating_tests(mod: Module, fn: ast.AST, node: ast.AST) -> list[tuple[ast.expr, bool]]:
    """(test, polarity) pairs that hold whenever `node` executes inside `fn`:
    tests of enclosing if/elif/else (and while), plus the negation of every earlier
    sibling `if t: <block that always leaves>` in each enclosing suite."""
    out: list[tuple[ast.expr, bool]] = []
    cur = node
    while cur is not fn and cur in mod.parents:
        par = mod.parents[cur]
        if isinstance(par, (ast.If, ast.While)):
            if cur in par.body:
                out.append((par.test, True))
            elif cur in par.orelse and isinstance(par, ast.If):
                out.append((par.test, False))
        elif isinstance(par, ast.IfExp):
            if cur is par.body:
                out.append((par.test, True))
            elif cur is par.orelse:
                out.append((par.test, False))
        # earlier siblings that always leave
        for field in ('body', 'orelse', 'finalbody'):
            suite = getattr(par, field, None)
            if isinstance(suite, list) and cur in suite:
                for sib in suite[: suite.index(cur)]:
                    if isinstance(sib, ast.If) and terminates(sib.body) and not sib.orelse:
                        out.append((sib.test, False))
                    elif isinstance(sib, ast.If) and sib.orelse and terminates(sib.orelse) and not terminates(sib.body):
                        out.append((sib.test, True))
                    elif isinstance(sib, ast.Assert):
                        out.append((sib.test, True))
        if isinstance(par, (ast.FunctionDef, ast.AsyncFunctionDef, ast.Lambda)) and par is not fn:
            # crossing into an enclosing function: its guards do not dominate calls of the closure
            pass
        cur = par
    return out


def known_true(tests, name: str) -> bool:
    """Do the dominating tests establish that the boolean `name` is true?  (`if name:` around, or an earlier
    `if not name: <leave>`; negations are unfolded.)"""
    for t, pol in tests:
        while isinstance(t, ast.UnaryOp) and isinstance(t.op, ast.Not):
            t, pol = t.operand, not pol
        if pol and norm(t) == name:
            return True
        # a conjunction that holds establishes each conjunct
        if pol and isinstance(t, ast.BoolOp) and isinstance(t.op, ast.And) and any(norm(v) == name for v in t.values):
            return True
    return False


def feasible_lengths(tests, seq_expr: str, interp_eval, upto=6) -> list[int]:
    """Lengths n in 0..upto of the sequence `seq_expr` under which all dominating tests hold.

    `interp_eval(test_node, n)` must evaluate the test with the sequence bound to a list of
    length n, returning True/False or None when the test does not depend only on that length."""
    out = []
    for n in range(upto + 1):
        ok = True
        for t, pol in tests:
            v = interp_eval(t, n)
            if v is None:
                continue
            if bool(v) != pol:
                ok = False
                break
        if ok:
            out.append(n)
    return out
