"""C04: the cone extraction of the subcircuit minimiser folded over model circuits.

`_generate_inputs_tt`, `_get_subcircuits` (cut filtering, cone collection, bit-parallel pattern
simulation, size and output bookkeeping) and `_Subcircuit.evaluate_truth_table_with_dont_cares`
are `for`-only templates over the cut family they are given.  They are folded by the
mini-evaluator over model circuits with an *oracle* cut family (every k-feasible cut of every
node, what a cut enumerator without truncation supplies) and each returned cone is compared
with the circuit it was cut from.  Nothing of cirbo (nor mockturtle / pysat) is imported.
"""

from __future__ import annotations

import itertools
import random

from .core import AnalysisError, Checker
from .interp import Instance, Interp, InterpRaise, RepoClass, RepoFunc
from .passes import PassModel, build
from .tables import Denotations, GateTypeVal, gate_overrides
from . import semantics

SUBC = 'cirbo.minimization.subcircuit'
LOGIC = 'cirbo.core.logic'
SUPPORTED = ('NOT', 'AND', 'NAND', 'OR', 'NOR', 'XOR', 'NXOR', 'GEQ', 'LT', 'LEQ', 'GT')


class _DC:
    def __repr__(self):
        return '*'


DONT_CARE = _DC()


def oracle_cuts(c: PassModel, k: int):
    """All k-feasible cuts of every node (leaf tuples sorted by label), trivial cut included."""
    cuts = {}
    for g in c.top_sort(inverse=True):
        own = {(g.label,)}
        if g.gate_type.var != 'INPUT' and g.operands:
            per_op = [cuts[o] for o in dict.fromkeys(g.operands)]
            for combo in itertools.product(*per_op):
                leaves = tuple(sorted(set(itertools.chain.from_iterable(combo))))
                if len(leaves) <= k:
                    own.add(leaves)
        cuts[g.label] = sorted(own)
    return cuts


def _family(tier):
    rnd = random.Random(4104)
    names = ['q', 'm', 'z', 'c', 'w', 'e', 'u', 'k', 'p', 'd', 'v', 'h']
    fam = [
        # an n-ary gate, a NOT, an inner node read from outside the cone, an output inside the cone
        ([('a', 'INPUT', ()), ('b', 'INPUT', ()), ('c', 'INPUT', ()), ('d', 'INPUT', ()), ('t', 'AND', ('a', 'b', 'c', 'd')), ('n', 'NOT', ('t',)), ('o', 'GT', ('a', 'n'))], ['o']),
        ([('a', 'INPUT', ()), ('b', 'INPUT', ()), ('c', 'INPUT', ()), ('u', 'AND', ('a', 'b')), ('v', 'OR', ('b', 'c')), ('x', 'XOR', ('u', 'v')), ('y', 'LEQ', ('x', 'u')), ('z', 'NOR', ('y', 'v', 'a'))], ['z', 'x']),
        ([('a', 'INPUT', ()), ('b', 'INPUT', ()), ('g', 'XOR', ('a', 'b', 'a')), ('h', 'NXOR', ('g', 'b')), ('i', 'NAND', ('h', 'g', 'a')), ('j', 'LT', ('i', 'h')), ('k', 'GEQ', ('j', 'a'))], ['k', 'h']),
    ]
    n = 25 if tier == 'quick' else 200
    for _ in range(n):
        n_in = rnd.choice((2, 3, 3, 4))
        n_g = rnd.randint(2, 6)
        nm = rnd.sample(names, n_in + n_g)
        spec = [(nm[i], 'INPUT', ()) for i in range(n_in)]
        for j in range(n_g):
            avail = [s[0] for s in spec]
            r = rnd.random()
            if r < 0.2:
                spec.append((nm[n_in + j], 'NOT', (rnd.choice(avail),)))
            elif r < 0.35 and len(avail) >= 3:
                spec.append((nm[n_in + j], rnd.choice(('AND', 'OR', 'XOR', 'NAND', 'NOR', 'NXOR')), tuple(rnd.choice(avail) for _ in range(rnd.choice((3, 4))))))
            else:
                spec.append((nm[n_in + j], rnd.choice(SUPPORTED[1:]), (rnd.choice(avail), rnd.choice(avail))))
        gates = [s[0] for s in spec[n_in:]]
        outs = list(dict.fromkeys(rnd.choice(gates) for _ in range(rnd.randint(1, 2))))
        if gates[-1] not in outs:
            outs.append(gates[-1])
        fam.append((spec, outs))
    return fam


def fold_cones(ck: Checker, R: str):
    repo = ck.repo
    den = Denotations(repo)
    ov = gate_overrides(den)
    ov[f'{LOGIC}.DontCare'] = DONT_CARE
    types = {t.var: t for t in ov.values() if isinstance(t, GateTypeVal)}
    it = Interp(repo, overrides=ov, max_steps=6_000_000)
    m = repo.mod(SUBC)

    # (these are private helpers: the fold knows them by the parameter lists they have on the pinned tree.  Written another
    # way, the cone extraction is left to the end-to-end fold of minimize_subcircuits, C04.FOLD, which runs it on every cut of
    # its model circuits.)
    def params(q):
        f = m.functions.get(q)
        return None if f is None else [a.arg for a in f.args.args + f.args.kwonlyargs if a.arg != 'self']
    known = {'_generate_inputs_tt': ['size'], '_get_subcircuits': ['circuit', 'cuts', 'cut_nodes', 'max_subcircuit_size', 'cut_size'],
             '_Subcircuit.__init__': ['inputs', 'gates', 'outputs', 'size', 'inputs_tt', 'patterns'], '_Subcircuit.evaluate_truth_table_with_dont_cares': []}
    other = {q: params(q) for q, want in known.items() if params(q) != want}
    if other:
        ck.notes.setdefault('structural_rules_not_applicable', []).append(f'cone-extraction fold: the private helpers {other} are not the ones the fold knows [left to C04.FOLD]')
        return False

    # ---- _generate_inputs_tt
    gen = RepoFunc(it, m, m.func('_generate_inputs_tt'))
    probs = []
    for size in range(0, 6):
        it.steps = 0
        try:
            pats = list(gen(size))
        except InterpRaise as e:
            probs.append(f'size {size}: raises {e.exc_name}')
            continue
        want = [sum(((i >> j) & 1) << i for i in range(1 << size)) for j in range(size)]
        if pats != want:
            probs.append(f'size {size}: patterns {pats}, expected bit i of pattern j = bit j of i: {want}')
    ck.check(not probs, R, m, m.func('_generate_inputs_tt'), 'leaf patterns: bit i of the j-th pattern is bit j of the row number i (sizes 0..5)', '; '.join(probs[:2]), construct='_generate_inputs_tt')

    # ---- evaluate_truth_table_with_dont_cares
    SC = RepoClass(m, m.cls('_Subcircuit'))
    fn_dc = m.func('_Subcircuit.evaluate_truth_table_with_dont_cares')
    probs = []
    rnd = random.Random(7)
    n_dc = 0
    for n in (1, 2, 3):
        rows = [''.join(b) for b in itertools.product('01', repeat=n)]
        subsets = [rows, [], rows[:1], rows[1:], rows[::2], [r for r in rows if r.count('1') == 1], [r for r in rows if r[0] == '1'], [r for r in rows if r[-1] == '1']]
        for care in subsets:
            for _ in range(3):
                n_dc += 1
                pats = {'o1': rnd.getrandbits(1 << n), 'o2': rnd.getrandbits(1 << n)}
                it.steps = 0
                try:
                    inst = it.instantiate(SC, (), {'inputs': [f'l{k}' for k in range(n)], 'gates': ['o1', 'o2'], 'outputs': ['o1', 'o2'], 'size': 2, 'inputs_tt': list(care), 'patterns': dict(pats)})
                    tt = RepoFunc(it, m, fn_dc, bound_self=inst)()
                except InterpRaise as e:
                    probs.append(f'{n} leaves: raises {e.exc_name}')
                    continue
                want = [[(bool((pats[o] >> r) & 1) if rows[r] in care else DONT_CARE) for r in range(1 << n)] for o in ('o1', 'o2')]
                if [list(x) for x in tt] != want:
                    probs.append(f'{n} leaves, reachable leaf assignments {care} (leaves listed most significant first), patterns {pats}: rows {[list(x) for x in tt]}, expected {want} '
                                 '(row r holds bit r of the pattern iff the r-th assignment in product order is reachable)')
                    break
            if len(probs) > 3:
                break
    ck.check(not probs, R, m, fn_dc, f'don\'t-care extraction: row r of every cone output is bit r of its pattern exactly when the r-th leaf assignment (leaves most significant first, product order) is reachable, DontCare otherwise ({n_dc} cases, 1-3 leaves)',
             '; '.join(probs[:2]), construct='_Subcircuit.evaluate_truth_table_with_dont_cares')

    # ---- _get_subcircuits over model circuits with the oracle cut family
    gs = RepoFunc(it, m, m.func('_get_subcircuits'))
    probs = []
    n_cones = 0
    n_circ = 0
    import collections
    for spec, outs in _family(ck.tier):
        for cut_size in (3, 4):
            c = build(types, spec, outs)
            n_circ += 1
            node_cuts = oracle_cuts(c, cut_size)
            cut_nodes = collections.defaultdict(set)
            for node, cs in node_cuts.items():
                for cut in cs:
                    cut_nodes[tuple(cut)].add(node)
            cuts = list(cut_nodes.keys())
            it.steps = 0
            desc = f'{[(l, t) + tuple(o) for l, t, o in spec if t != "INPUT"]} outputs {outs} (cuts of <= {cut_size} leaves)'
            try:
                subs = gs(c, cuts, cut_nodes, 9, cut_size)
            except InterpRaise as e:
                probs.append(f'raises {e.exc_name} on {desc}')
                continue
            pos = {g.label: i for i, g in enumerate(c.top_sort(inverse=True))}
            for s in subs:
                n_cones += 1
                d = s._d
                leaves, cone, s_outs, size, pats = list(d['inputs']), list(d['gates']), list(d['outputs']), d['size'], d['patterns']
                inner = [l for l in cone if l not in leaves]
                msg = None
                if len(set(leaves)) != len(leaves) or any(l not in c._gates for l in leaves + cone):
                    msg = f'cone names unknown or repeated gates (leaves {leaves})'
                elif any(o not in leaves and o not in cone for l in inner for o in c._gates[l].operands):
                    msg = f'cone {cone} over leaves {leaves} is not closed: an inner gate reads a gate outside it'
                elif sorted(cone, key=pos.get) != cone:
                    msg = f'cone gates {cone} are not in topological order'
                else:
                    want_size = sum(1 for l in inner if c._gates[l].gate_type.var != 'NOT')
                    want_outs = [l for l in inner if l in c._outputs or any(u not in cone for u in c._gate_to_users.get(l, []))]
                    if size != want_size:
                        msg = f'cone {inner} over leaves {leaves}: size {size}, but it has {want_size} gates other than NOT (the search budget is size - 1)'
                    elif not set(want_outs) <= set(s_outs) or not set(s_outs) <= set(inner) or len(set(s_outs)) != len(s_outs):
                        msg = f'cone {inner} over leaves {leaves}: outputs {s_outs} must name, once each, inner gates including every gate read from outside or marked as circuit output {want_outs}'
                    else:
                        n = len(leaves)
                        for r, bits in enumerate(itertools.product((False, True), repeat=n)):
                            a = dict(zip(leaves, bits))   # leaves[0] most significant
                            vals = dict(a)
                            for l in inner:
                                g = c._gates[l]
                                vals[l] = semantics.value(g.gate_type.var, [vals[o] for o in g.operands])
                            bad = [l for l in leaves + inner if bool((pats[l] >> r) & 1) != vals[l]]
                            if bad:
                                msg = f'cone {inner} over leaves {leaves}: bit {r} of the pattern of {bad[0]} is {(pats[bad[0]] >> r) & 1}, the gate evaluates to {int(vals[bad[0]])} on leaf assignment {a}'
                                break
                if msg:
                    probs.append(f'{msg} on {desc}')
                    break
        if len(probs) > 3:
            break
    ck.need(n_cones >= 20 or probs, f'only {n_cones} cones were extracted from {n_circ} model circuits (family too small)')
    ck.check(not probs, R, m, m.func('_get_subcircuits'), f'cone extraction folded over {n_circ} model circuits with every k-feasible cut ({n_cones} cones): closed cone in topological order, size = gates other than NOT, '
             'outputs include every gate read from outside and every circuit output, and every pattern equals the gate\'s function of the leaves (leaves most significant first)', '; '.join(probs[:2]), construct='_get_subcircuits over the circuit family')
    ck.notes['cones_folded'] = n_cones
    ck.assume('cone extraction is folded over a bounded family of model circuits (<= 4 inputs, <= 6 gates, supported gate types incl. n-ary) with untruncated k-feasible cut families; cut truncation by the enumerator and larger cones are not decided')
