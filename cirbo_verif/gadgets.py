"""E2 extractor: straight-line gadget netlists of the generation package, folded over a
recording circuit, and the emitted-gate-type reachability used by the basis rules."""

from __future__ import annotations

import ast
import itertools

from .core import AnalysisError, Checker, call_name, calls_in, gate_const, norm, param_names, terminates
from .interp import Host, Interp, InterpRaise, RepoFunc
from .rewrites import FakeCircuit, FakeGate
from .tables import Denotations, GateTypeVal, gate_overrides
from . import semantics

ARITH = 'cirbo.synthesis.generation.arithmetics'
UTILS = 'cirbo.synthesis.generation.arithmetics._utils'
GEN = 'cirbo.synthesis.generation.generation'
GATE_MOD = 'cirbo.core.circuit.gate'
SUM = 'cirbo.synthesis.generation.arithmetics.summation'
SUB = 'cirbo.synthesis.generation.arithmetics.subtraction'


class GadgetBench:
    def __init__(self, repo, den, contracts=False):
        self.repo = repo
        ov = gate_overrides(den)
        ov[f'{GATE_MOD}.Gate'] = FakeGate
        self.types = {t.var: t for t in ov.values() if isinstance(t, GateTypeVal)}
        self._n = 0

        def fresh(circuit, **kw):
            self._n += 1
            return f'new_{self._n}'

        def fresh_many(circuit, n, **kw):
            return [fresh(circuit) for _ in range(n)]

        ov[f'{UTILS}.generate_random_label'] = fresh
        ov[f'{GEN}._get_new_label'] = fresh
        ov[f'{GEN}._get_new_labels'] = fresh_many
        if contracts:
            # assume/guarantee: the bit counters (while-loop algorithms, C07) are replaced by their contract
            # sum(out_k * 2^k) = number of True operands, on the minimal number of result bits
            def popcount(circuit, input_labels, **kw):
                labels = list(input_labels)
                width = max(1, len(labels).bit_length())
                return [circuit.add_contract_gate(fresh(circuit), labels, (lambda vals, k=k: (sum(bool(v) for v in vals) >> k) & 1)) for k in range(width)]
            ov[f'{ARITH}.summation._add_sum_n_bits'] = popcount
            ov[f'{ARITH}.summation._add_sum_n_bits_aig'] = popcount
        self.interp = Interp(repo, overrides=ov)

    def host(self, n_inputs, extra=()):
        c = FakeCircuit(self.types['INPUT'])
        names = [f'i{k}' for k in range(n_inputs)]
        for l in names:
            c.emplace_gate(l, self.types['INPUT'])
        c.log.clear()
        return c, names

    def run(self, modname, fname, c, *args, **kwargs):
        m = self.repo.mod(modname)
        self.interp.steps = 0
        return RepoFunc(self.interp, m, m.func(fname))(c, *args, **kwargs)


def check_gadget(ck: Checker, B: GadgetBench, rule, modname, fname, n_in, make_args, spec, what, kwargs=None):
    """Fold gadget `fname` on inputs i0..i{n-1}; `spec(values: dict label->bool over an assignment, result)`
    must hold for every assignment."""
    m = ck.repo.mod(modname)
    fn = m.func(fname)
    try:
        c, names = B.host(n_in)
        before = dict(c._gates)
        res = B.run(modname, fname, c, *make_args(names), **(kwargs or {}))
    except InterpRaise as e:
        ck.bad(rule, m, fn, what, f'gadget raises {e.exc_name}', construct=f'{fname} netlist')
        return
    probs = []
    for l, g in before.items():
        if c._gates.get(l) is not g:
            probs.append(f'pre-existing gate {l} was replaced')
    for vals in semantics.bools(n_in):
        a = dict(zip(names, vals))
        try:
            ev = lambda lab: c.evaluate(lab, a)  # noqa: E731
            msg = spec(a, res, ev, c)
        except KeyError as e:
            msg = f'result names a gate that does not exist: {e}'
        if msg:
            probs.append(f'inputs {"".join(str(int(v)) for v in vals)}: {msg}')
            if len(probs) > 3:
                break
    ck.check(not probs, rule, m, fn, what, '; '.join(probs[:3]), construct=f'{fname} netlist',
             detail={'netlist': {l: repr(g) for l, g in c._gates.items() if l not in before}, 'result': repr(res)})
    return c, res


# ---------------------------------------------------------------------------
# emitted gate types reachable from a function under a given basis


AIG_CODES = {'1100', '0001', '0111', '1110', '1000', '0010', '0100', '1011', '1101'}
XOR_CODES = {'0110', '1001'}


class Emission:
    """Which truth-table codes / gate types can a generator function emit (transitively), when
    the normalised basis is AIG, XAIG, or unconstrained; branches on the basis are pruned."""

    def __init__(self, repo):
        self.repo = repo
        self.memo = {}

    def emitted(self, m, fname, basis_state, stack=()):
        key = (m.name, fname, basis_state)
        if key in self.memo:
            return self.memo[key]
        if key in stack:
            return set()
        fn = m.func(fname)
        params = param_names(fn)
        basis_vars = set()
        if 'basis' in params:
            basis_vars.add('basis')
        # locals that hold the normalised basis
        for node in ast.walk(fn):
            if isinstance(node, ast.Assign) and isinstance(node.targets[0], ast.Name):
                v = norm(node.value)
                if v in ('basis', 'GenerationBasis(basis.upper())') or (isinstance(node.value, ast.IfExp) and 'basis' in v):
                    basis_vars.add(node.targets[0].id)
        out = set()

        def test_value(t):
            """True/False if decided by the basis state, else None."""
            if basis_state is None:
                return None
            if isinstance(t, ast.Compare) and len(t.ops) == 1 and isinstance(t.ops[0], (ast.Eq, ast.NotEq)) and isinstance(t.left, ast.Name) and t.left.id in basis_vars:
                r = norm(t.comparators[0])
                if r.endswith('GenerationBasis.AIG') or r.endswith('GenerationBasis.XAIG'):
                    eq = r.rsplit('.', 1)[1] == basis_state
                    return eq if isinstance(t.ops[0], ast.Eq) else not eq
            if isinstance(t, ast.Call) and norm(t.func) == 'isinstance' and isinstance(t.args[0], ast.Name) and t.args[0].id in basis_vars:
                return None
            return None

        def expr(e):
            for node in ast.walk(e):
                if isinstance(node, ast.IfExp):
                    pass
                if isinstance(node, ast.Call):
                    cn = call_name(node)
                    if cn == 'add_gate_from_tt' and len(node.args) >= 4:
                        code = node.args[3]
                        out.add(('code', code.value) if isinstance(code, ast.Constant) else ('code', '?'))
                        continue
                    if cn in ('emplace_gate', 'Gate', 'add_gate', '_emplace_gate'):
                        kw = {k.arg: k.value for k in node.keywords}
                        t = kw.get('gate_type', node.args[1] if len(node.args) > 1 else None)
                        if cn == 'add_gate':
                            continue
                        g = gate_const(self.repo, m, t) if t is not None else None
                        out.add(('type', g or '?'))
                        continue
                    res = self.repo.resolve_expr(m, node.func) if isinstance(node.func, (ast.Name, ast.Attribute)) else None
                    if res and res[2] == 'function' and res[0].name.startswith('cirbo.synthesis.generation'):
                        cm, cf = res[0], res[1]
                        cparams = param_names(cm.func(cf))
                        st = None
                        if 'basis' in cparams:
                            passed = next((k.value for k in node.keywords if k.arg == 'basis'), None)
                            if passed is None:
                                st = 'XAIG'  # default of every generator
                            elif isinstance(passed, ast.Name) and passed.id in basis_vars:
                                st = basis_state
                            elif norm(passed).endswith('GenerationBasis.AIG'):
                                st = 'AIG'
                            elif norm(passed).endswith('GenerationBasis.XAIG'):
                                st = 'XAIG'
                        out.update(self.emitted(cm, cf, st, stack + (key,)))

        def block(stmts):
            """Returns True if the block always leaves the function."""
            for st in stmts:
                if isinstance(st, ast.If):
                    tv = test_value(st.test)
                    if tv is True:
                        if block(st.body) or terminates(st.body):
                            return True  # the rest of this suite is not executed on this path
                        continue
                    if tv is False:
                        if block(st.orelse) or (st.orelse and terminates(st.orelse)):
                            return True
                        continue
                    expr(st.test)
                    a = block(st.body)
                    b = block(st.orelse)
                    if a and b and st.orelse:
                        return True
                    continue
                if isinstance(st, (ast.For, ast.While)):
                    if isinstance(st, ast.For):
                        expr(st.iter)
                    else:
                        expr(st.test)
                    block(st.body)
                    block(st.orelse)
                    continue
                if isinstance(st, (ast.Return, ast.Raise)):
                    if getattr(st, 'value', None) is not None:
                        expr(st.value)
                    return True
                if isinstance(st, (ast.FunctionDef, ast.ClassDef)):
                    continue
                if isinstance(st, (ast.Continue, ast.Break)):
                    return True
                for child in ast.iter_child_nodes(st):
                    if isinstance(child, ast.expr):
                        expr(child)
            return False

        block(fn.body)
        self.memo[key] = out
        return out
