"""Whole arithmetic generators instantiated without contracts (C07/C08/C09 *.NUM rules).

`arith_folds.py` decides the `for`-range generators relative to *contract gates* standing for the
while-loop bit counters.  Here the generators are folded as they stand -- work lists, Wallace/Dadda
reduction, Karatsuba recursion, the weighted-sum scheduler -- by the evaluator with `while` admitted
under a step budget, on a host circuit that already has a gate and an output of its own.  The
circuit that comes out is evaluated by the oracle:

* for small widths on **every** operand value;
* for the widths at which the recursive / table-driven algorithms change their behaviour (Karatsuba
  from 18/20 bits, the squarer's carry scan from 17, the 48-bit split) on a **fixed sample** of
  operand values: all-zeros, all-ones, single bits, alternating patterns and seeded random values.

A sampled width is not a proof for that width; the evidence says which widths were sampled.
Nothing of cirbo is imported or run.
"""

from __future__ import annotations

import random

from .core import AnalysisError, Checker
from .gadgets import GadgetBench
from .interp import Host, InterpRaise
from .tables import Denotations
from . import semantics

ARITH = 'cirbo.synthesis.generation.arithmetics'
SUM = ARITH + '.summation'
MUL = ARITH + '.multiplication'
SQ = ARITH + '.square'


def num(bits, big_endian):
    bits = list(bits)
    if big_endian:
        bits.reverse()
    return sum(int(b) << i for i, b in enumerate(bits))


def bits_of(value, width, big_endian):
    b = [bool((value >> i) & 1) for i in range(width)]
    if big_endian:
        b.reverse()
    return b


class NumBench:
    def __init__(self, repo):
        self.repo = repo
        self.den = Denotations(repo)
        self.B = GadgetBench(repo, self.den, contracts=False)
        self.T = self.B.types
        it = self.B.interp
        it.allow_while = True
        it.max_steps = 40_000_000
        it.max_depth = 200

    def host(self, n_in):
        c, names = self.B.host(n_in)
        c.emplace_gate('own', self.T['OR'], (names[0], names[0]))
        c._outputs.append('own')
        return c, names

    def run(self, modname, fname, c, *a, **k):
        return self.B.run(modname, fname, c, *a, **k)


def eval_all(c, assignment):
    """Values of all gates under a total assignment (iterative, memoised)."""
    v = dict(assignment)
    for root in c._gates:
        if root in v:
            continue
        stack = [root]
        while stack:
            l = stack[-1]
            if l in v:
                stack.pop()
                continue
            g = c._gates[l]
            todo = [o for o in g.operands if o not in v]
            if todo:
                if len(stack) > len(c._gates) + 5:
                    raise AnalysisError('generator produced a cycle')
                stack.extend(todo)
                continue
            vals = [v[o] for o in g.operands]
            v[l] = bool(g.fn(vals)) if getattr(g, 'fn', None) is not None else semantics.value(g.gate_type.var, vals)
            stack.pop()
    return v


def samples(width_a, width_b, seed, n_random=24):
    """Operand pairs for a sampled width: corners, single bits, alternating patterns, seeded random values."""
    rnd = random.Random(seed)
    fa, fb = (1 << width_a) - 1, (1 << width_b) - 1
    alt = lambda w, s: sum(1 << i for i in range(s, w, 2))  # noqa: E731
    vals_a = [0, 1, fa, fa - 1, 1 << (width_a - 1), alt(width_a, 0), alt(width_a, 1), (1 << (width_a // 2)) - 1, fa ^ ((1 << (width_a // 2)) - 1)]
    vals_b = [0, 1, fb, fb - 1, 1 << (width_b - 1), alt(width_b, 0), alt(width_b, 1), (1 << (width_b // 2)) - 1, fb ^ ((1 << (width_b // 2)) - 1)]
    pairs = [(a, b) for a in vals_a[:5] for b in vals_b[:5]] + list(zip(vals_a, reversed(vals_b))) + [(fa, fb), (alt(width_a, 0), alt(width_b, 0)), (alt(width_a, 1), alt(width_b, 1))]
    pairs += [(rnd.getrandbits(width_a), rnd.getrandbits(width_b)) for _ in range(n_random)]
    return list(dict.fromkeys(pairs))


def _instances(ck, bench, rule, modname, fname, construct, what, cases, spec, unary=False):
    """cases: (width_a, width_b, exhaustive?) ; spec(na, nb, A, B, got, n_result_bits) -> message or None."""
    m = ck.repo.mod(modname)
    fn = m.func(fname)
    probs = []
    n_inst = n_vals = 0
    sampled = []
    for na, nb, exhaustive in cases:
        for be in (False, True):
            n_inst += 1
            tag = f'{fname}(width{"s" if not unary else ""} {na}{"" if unary else "," + str(nb)}, big_endian={be})'
            try:
                c, names = bench.host(na + (0 if unary else nb))
                la, lb = list(names[:na]), list(names[na:])
                before = dict(c._gates)
                res = bench.run(modname, fname, c, la, big_endian=be) if unary else bench.run(modname, fname, c, la, lb, big_endian=be)
            except InterpRaise as e:
                probs.append(f'{tag} raises {e.exc_name}')
                continue
            labels = list(res)
            if la != names[:na] or (not unary and lb != names[na:]):
                probs.append(f'{tag} modified the caller\'s operand lists')
            if any(r not in c._gates for r in labels):
                probs.append(f'{tag}: result names gates that do not exist')
                continue
            if any(c._gates.get(l) is not g for l, g in before.items()) or c._outputs != ['own'] or c._inputs != names:
                probs.append(f'{tag} changed pre-existing gates or the interface of the host circuit')
            if exhaustive is True:
                pairs = [(A, B) for A in range(1 << na) for B in (range(1 << nb) if not unary else (0,))]
            else:
                # (False: the default sample; an integer: that many seeded random pairs on top of the corners)
                pairs = samples(na, nb if not unary else 1, seed=na * 131 + nb, n_random=(exhaustive or 24))
                if unary:
                    pairs = list(dict.fromkeys((a, 0) for a, _ in pairs))
                sampled.append((na, nb))
            for A, Bv in pairs:
                n_vals += 1
                a_ = dict(zip(names, bits_of(A, na, be) + ([] if unary else bits_of(Bv, nb, be))))
                v = eval_all(c, a_)
                got = num([v[r] for r in labels], be)
                msg = spec(na, nb, A, Bv, got, len(labels))
                if msg:
                    probs.append(f'{tag}: {msg}')
                    break
            if len(probs) > 3:
                break
        if len(probs) > 3:
            break
    stext = f'; widths {sorted(set(sampled))} on a fixed sample of operand values (corners, single bits, alternating patterns, seeded random), all other widths on every operand value' if sampled else '; every operand value'
    ck.check(not probs, rule, m, fn, f'{what} ({n_inst} instances, {n_vals} evaluations{stext})', '; '.join(probs[:3]), construct=construct)
    return n_vals


def mul_spec(na, nb, A, Bv, got, w):
    return None if got == A * Bv else f'{A} * {Bv} gives {got} on {w} bits'


def fold_multipliers(ck: Checker, rule: str, bench: NumBench | None = None):
    """Every multiplier of the dispatch table, as it stands."""
    bench = bench or NumBench(ck.repo)
    small = [(a, b, True) for a in (1, 2, 3, 4) for b in (1, 2, 3, 4) if a * b <= 12 or a == b]
    mid = [(5, 3, True), (3, 6, True)] if ck.tier == 'quick' else [(5, 3, True), (3, 6, True), (5, 5, True), (6, 4, True), (7, 3, True)]
    total = 0
    # very unequal widths: the reduction trees leave columns without a carry there (F34: the Wallace final stage went wrong from 2 x 11)
    skinny = [(2, 11, 160), (11, 2, 60), (2, 13, 160), (3, 12, 60)] + ([(2, 20, 200), (3, 28, 200), (3, 30, 200), (28, 3, 60)] if ck.tier != 'quick' else [])
    for fname, extra in (('add_mul', mid), ('add_mul_alter', mid), ('add_mul_dadda', mid + [(9, 7, False)] + skinny[:2]), ('add_mul_wallace', mid + [(9, 7, False)] + skinny), ('add_mul_pow2_m1', mid + [(9, 7, False)] + skinny[:2])):
        total += _instances(ck, bench, rule, MUL, fname, f'{fname} instantiated', f'{fname}: the returned bits decode to a * b', small + extra, mul_spec)
    # Karatsuba: below the threshold it delegates; at 18 and from 20 bits it recurses
    kar = [(2, 2, True), (3, 2, True), (4, 3, True), (18, 18, False), (20, 20, False), (21, 17, False)]
    if ck.tier != 'quick':
        kar += [(24, 15, False), (40, 40, False)]
    for fname in ('add_mul_karatsuba_with_efficient_sum', 'add_mul_karatsuba'):
        total += _instances(ck, bench, rule, MUL, fname, f'{fname} instantiated', f'{fname}: the returned bits decode to a * b, below the recursion threshold and across it', kar, mul_spec)
    ck.notes['multiplier_evaluations'] = total
    ck.assume('multipliers are instantiated for the listed widths only; widths 18 and above are decided on a fixed sample of operand values, not on every value')
    return bench


def fold_squarers(ck: Checker, rule: str, bench: NumBench | None = None):
    bench = bench or NumBench(ck.repo)

    def spec(na, nb, A, Bv, got, w):
        return None if got == A * A else f'{A}^2 gives {got} on {w} bits'
    cases = [(n, 0, True) for n in (1, 2, 3, 4, 5, 6, 7)] + [(12, 0, False), (17, 0, False), (19, 0, False)]
    if ck.tier != 'quick':
        cases += [(24, 0, False), (33, 0, False), (48, 0, False)]
    total = 0
    for fname in ('add_square', 'add_square_pow2_m1'):
        # (add_square splits its operand from 48 bits on, except at 49 and 53: an even and an odd splitting width are instantiated
        # in the quick tier as well)
        total += _instances(ck, bench, rule, SQ, fname, f'{fname} instantiated', f'{fname}: the returned bits decode to a^2', cases + ([(48, 0, False), (51, 0, False)] if fname == 'add_square' and ck.tier == 'quick' else ([(51, 0, False)] if fname == 'add_square' else [])), spec, unary=True)
    ck.notes['squarer_evaluations'] = total
    ck.assume('squarers are instantiated for the listed widths only; widths 12 and above are decided on a fixed sample of operand values')
    return bench


def fold_bit_counters(ck: Checker, rule: str, bench: NumBench | None = None):
    """The bit counters and weighted sums themselves (work lists), every operand value."""
    bench = bench or NumBench(ck.repo)
    m = ck.repo.mod(SUM)
    total = 0
    # add_sum_n_bits / add_sum_pow2_m1: popcount of n operands, both endiannesses, both bases
    for fname, widths, kw_variants in (('add_sum_n_bits', (1, 2, 3, 4, 5, 6, 7, 8), [{}, {'basis': 'AIG'}, {'basis': 'XAIG'}]),
                                       ('add_sum_n_bits_easy', (1, 2, 3, 4, 5, 6), [{}]),
                                       ('add_sum_pow2_m1', (1, 2, 3, 4, 5, 6, 7), [{}])):
        if fname not in m.functions:
            continue
        fn = m.func(fname)
        probs, n_inst = [], 0
        import inspect  # noqa: F401
        params = [a.arg for a in fn.args.args + fn.args.kwonlyargs]
        for n in widths:
            for kw in kw_variants:
                if any(k not in params for k in kw):
                    continue
                for be in ((False, True) if 'big_endian' in params else (False,)):
                    n_inst += 1
                    tag = f'{fname}({n} operands{", " + ", ".join(f"{k}={v}" for k, v in kw.items()) if kw else ""}{", big_endian=True" if be else ""})'
                    try:
                        c, names = bench.host(n)
                        ops = list(names)
                        k2 = dict(kw)
                        if 'big_endian' in params:
                            k2['big_endian'] = be
                        res = bench.run(SUM, fname, c, ops, **k2)
                    except InterpRaise as e:
                        probs.append(f'{tag} raises {e.exc_name}')
                        continue
                    labels = list(res)
                    levelled = bool(labels) and isinstance(labels[0], list)     # add_sum_pow2_m1: one list of labels per level
                    flat = [x for lv in labels for x in lv] if levelled else labels
                    if ops != names:
                        probs.append(f'{tag} modified the caller\'s operand list')
                    if any(r not in c._gates for r in flat):
                        probs.append(f'{tag}: result names gates that do not exist')
                        continue
                    if c._outputs != ['own'] or c._inputs != names:
                        probs.append(f'{tag} changed the interface of the host circuit')
                    if 'basis' in kw:
                        allowed = {'AIG': {'AND', 'OR', 'NAND', 'NOR', 'GT', 'LT', 'GEQ', 'LEQ', 'NOT', 'IFF', 'INPUT'}, 'XAIG': None}[kw['basis']]
                        used = {c._gates[l].gate_type.var for l in c._gates if l not in names and l != 'own'}
                        if allowed is not None and not used <= allowed:
                            probs.append(f'{tag} uses {sorted(used - allowed)}, outside the requested basis')
                    for vals in semantics.bools(n):
                        total += 1
                        v = eval_all(c, dict(zip(names, vals)))
                        got = sum(int(v[x]) << k for k, lv in enumerate(labels) for x in lv) if levelled else num([v[r] for r in labels], be)
                        if got != sum(vals):
                            probs.append(f'{tag}: {sum(vals)} True operands are counted as {got} ({len(labels)} result bits)')
                            break
                    if len(probs) > 3:
                        break
        ck.check(not probs, rule, m, fn, f'{fname}: the returned bits (least significant first unless big-endian) decode to the number of True operands, host untouched ({n_inst} instances, every operand value)', '; '.join(probs[:3]),
                 construct=f'{fname} instantiated')
    # add_sum_n_weighted_bits: pairs (level, label) -> pairs with pairwise distinct levels and the same weighted sum
    for fname in ('add_sum_n_weighted_bits', 'add_sum_n_weighted_bits_naive'):
        if fname not in m.functions:
            continue
        fn = m.func(fname)
        probs, n_inst = [], 0
        rnd = random.Random(77)
        shapes = [[0], [0, 0], [0, 0, 0], [0, 1, 1], [2, 0, 0, 0], [1, 1, 1, 1, 0], [0, 0, 1, 1, 2, 2], [3, 0, 3, 0, 3], [0, 0, 0, 0, 0, 0, 0]]
        # sparse and top-heavy vectors (levels far apart; a carry that lands next to a distant level)
        shapes += [[0, 5], [0, 3], [7, 0, 0], [1, 4, 4], [3, 9, 3, 9], [0, 0, 0, 12], [6], [2, 9]]
        shapes += [[rnd.randint(0, 3) for _ in range(rnd.randint(2, 7))] for _ in range(8 if ck.tier == 'quick' else 40)]
        for levels in shapes + [('rep', [0, 0, 1]), ('rep', [1, 1, 1, 0])]:
            n_inst += 1
            repeat = isinstance(levels, tuple)
            if repeat:
                levels = levels[1]
            tag = f'{fname}(levels {levels}{", the first operand listed twice" if repeat else ""})'
            try:
                c, names = bench.host(len(levels))
                if repeat:
                    # the same gate listed twice at the same level counts twice
                    names_used = [names[0]] + names[:-1]
                else:
                    names_used = names
                pairs = list(zip(levels, names_used))
                res = bench.run(SUM, fname, c, list(pairs))
            except InterpRaise as e:
                probs.append(f'{tag} raises {e.exc_name}')
                continue
            out = [tuple(p) for p in res]
            lv = [p[0] for p in out]
            if len(set(lv)) != len(lv):
                probs.append(f'{tag}: returned levels {lv} are not pairwise distinct')
                continue
            if any(p[1] not in c._gates for p in out):
                probs.append(f'{tag}: result names gates that do not exist')
                continue
            for vals in semantics.bools(len(levels)):
                total += 1
                v = eval_all(c, dict(zip(names, vals)))
                want = sum(int(v[nm]) << l for nm, l in zip(names_used, levels))
                got = sum(int(v[lab]) << l for l, lab in out)
                if got != want:
                    probs.append(f'{tag}: weighted sum {want} comes back as {got}')
                    break
            if len(probs) > 3:
                break
        ck.check(not probs, rule, m, fn, f'{fname}: pairwise distinct levels and sum(out * 2^level) = sum(in * 2^weight) ({n_inst} weight vectors, every operand value)', '; '.join(probs[:3]), construct=f'{fname} instantiated')
    ck.notes['bit_counter_evaluations'] = total
    ck.assume('bit counters and weighted sums are instantiated for <= 8 operands / the listed weight vectors only')
    return bench


SUB = ARITH + '.subtraction'
DIV = ARITH + '.div_mod'
SQRT = ARITH + '.sqrt'



class _CircuitNS(Host):
    """Stand-in for the name `Circuit` inside the generators' module: the two constructors the generate_* wrappers use."""

    def __init__(self, input_type):
        self._input_type = input_type

    def __call__(self):
        from .rewrites import FakeCircuit
        return FakeCircuit(self._input_type)

    def bare_circuit_with_labels(self, labels, *, set_as_outputs=False):
        c = self()
        c.add_inputs(list(labels))
        if set_as_outputs:
            c.set_outputs(list(labels))
        c.log.clear()
        return c

    def bare_circuit(self, input_size, *, prefix='', set_as_outputs=False):
        return self.bare_circuit_with_labels([f'{prefix}{i}' for i in range(input_size)], set_as_outputs=set_as_outputs)


AIG_TYPES = {'INPUT', 'NOT', 'IFF', 'AND', 'OR', 'NAND', 'NOR', 'GT', 'LT', 'GEQ', 'LEQ', 'LNOT', 'RNOT', 'LIFF', 'RIFF', 'ALWAYS_TRUE', 'ALWAYS_FALSE'}
XAIG_TYPES = AIG_TYPES | {'XOR', 'NXOR'}


def fold_basis(ck: Checker, rule: str, bench: NumBench | None = None):
    """Every function of the summation module that takes `basis`, instantiated with the basis spelled as a string (upper and
    lower case) and as the enum member, for a range of sizes: only gates of the requested basis are created (and the result is
    right -- the bit count / the weighted sum)."""
    bench = bench or NumBench(ck.repo)
    it = bench.B.interp
    m = ck.repo.mod(SUM)
    ns = _CircuitNS(bench.T['INPUT'])
    it.overrides['cirbo.core.circuit.circuit.Circuit'] = ns
    it.overrides['cirbo.core.circuit.Circuit'] = ns
    it._globals_cache.clear()
    try:
        GB = it.global_value(m, 'GenerationBasis')
        members = dict(GB.members)
    except (AnalysisError, AttributeError):
        members = {}
    spellings = [('AIG', 'AIG'), ('aig', 'AIG'), ('XAIG', 'XAIG'), ('xaig', 'XAIG')] + [(members[k], k) for k in ('AIG', 'XAIG') if k in members]
    weight_vectors = [[0, 0], [0, 0, 0], [0, 1, 1], [0, 0, 0, 0], [1, 0, 1, 0, 0], [2, 0, 0, 1, 1, 0], [0, 0, 0, 0, 0, 0, 0]]
    import ast as _ast
    n_fn = 0
    for q, fn in m.functions.items():
        if '.' in q or q.startswith('_'):
            continue
        params = [a.arg for a in fn.args.args + fn.args.kwonlyargs]
        if 'basis' not in params:
            continue
        n_fn += 1
        first = params[0]
        takes_circuit = first == 'circuit'
        arg = params[1] if takes_circuit else first
        weighted = 'pow' in arg or 'weight' in arg
        if not weighted and not (arg == 'n' or 'label' in arg):
            ck.notes.setdefault('structural_rules_not_applicable', []).append(f'basis sweep: {q}({", ".join(params)}) has a parameter list the sweep does not know')
            continue
        probs, n_inst = [], 0
        for spelled, name in spellings:
            allowed = AIG_TYPES if name == 'AIG' else XAIG_TYPES
            for case in (weight_vectors if weighted else [1, 2, 3, 4, 5, 6, 7]):
                n_inst += 1
                n = len(case) if weighted else case
                tag = f'{q}({case}, basis={spelled if isinstance(spelled, str) else "GenerationBasis." + name})'
                try:
                    if takes_circuit:
                        c, names = bench.host(n)
                        a = [(w, l) for w, l in zip(case, names)] if weighted else list(names)
                        res = bench.run(SUM, q, c, a, basis=spelled)
                    else:
                        it.steps = 0
                        from .interp import RepoFunc
                        c = RepoFunc(it, m, fn)(list(case) if weighted else n, basis=spelled)
                        names = list(c._inputs)
                        res = [(None, l) for l in c._outputs] if weighted else list(c._outputs)
                except InterpRaise as e:
                    probs.append(f'{tag} raises {e.exc_name}')
                    continue
                used = {g.gate_type.var for l, g in c._gates.items() if l not in names and l != 'own'}
                if not used <= allowed:
                    probs.append(f'{tag} creates {sorted(used - allowed)} gates, outside the requested basis')
                    continue
                flat = [x[1] if isinstance(x, tuple) else x for x in (res if isinstance(res, list) else [])]
                flat = [y for x in flat for y in (x if isinstance(x, list) else [x])]
                if any(l not in c._gates for l in flat):
                    probs.append(f'{tag}: the result names {[l for l in flat if l not in c._gates][0]!r}, which is no gate of the circuit')
                    continue
                # the result is still right in that basis (one operand value per instance is enough here: C07.NUM sweeps the values)
                vals = [bool((0x5B >> i) & 1) for i in range(n)]
                v = eval_all(c, dict(zip(names, vals)))
                if weighted and takes_circuit:
                    want = sum(int(x) << w for x, w in zip(vals, case))
                    got = sum(int(v[l]) << lv for lv, l in res)
                    if got != want:
                        probs.append(f'{tag}: weighted sum {want} comes out as {got}')
                elif not weighted and isinstance(res, list) and res and not isinstance(res[0], list):
                    got = sum(int(v[l]) << i for i, l in enumerate(res))
                    if got != sum(vals):
                        probs.append(f'{tag}: {sum(vals)} True operands are counted as {got}')
            if len(probs) > 3:
                break
        ck.check(not probs, rule, m, fn, f'{q}: with the basis given as \'AIG\', \'aig\', GenerationBasis.AIG (and the same for XAIG) only gates of that basis are created ({n_inst} instances)', '; '.join(probs[:3]),
                 construct=f'{q} basis sweep')
    ck.need(n_fn >= 4, f'only {n_fn} public functions of the summation module take a basis (7 on the pinned tree)')
    it.overrides.pop('cirbo.core.circuit.circuit.Circuit', None)
    it.overrides.pop('cirbo.core.circuit.Circuit', None)
    it._globals_cache.clear()


def fold_generate(ck: Checker, rule: str, bench: NumBench | None = None):
    """generate_mul / generate_square for every member of their mode enumerations (found by evaluating the Enum), both
    endiannesses, widths 1 and 3: a circuit whose inputs are the operand bits and whose outputs decode to a * b / a^2 for every
    operand value -- every mode has a generator, the entry point dispatches on the mode, forwards the endianness and outputs
    exactly the returned bits."""
    from .interp import RepoFunc, RepoEnum
    bench = bench or NumBench(ck.repo)
    it = bench.B.interp
    ns = _CircuitNS(bench.T['INPUT'])
    it.overrides['cirbo.core.circuit.circuit.Circuit'] = ns
    it.overrides['cirbo.core.circuit.Circuit'] = ns
    it._globals_cache.clear()
    try:
        for modname, gen, unary in ((MUL, 'generate_mul', False), (SQ, 'generate_square', True)):
            m = ck.repo.mod(modname)
            fn = m.func(gen)
            enums = [v for v in (it.global_value(m, n) for n in list(m.classes)) if isinstance(v, RepoEnum)]
            params = [a.arg for a in fn.args.kwonlyargs + fn.args.args]
            ck.need(len(enums) == 1 and 'type' in params, f'{m.rel}: the mode enumeration of {gen} is not identifiable')
            probs, n_inst = [], 0
            for mode_name, mode in enums[0].members.items():
                for width in (1, 3):
                    for be in (False, True):
                        n_inst += 1
                        tag = f'{gen}({width}{"" if unary else ", " + str(width)}, type={enums[0].name}.{mode_name}, big_endian={be})'
                        it.steps = 0
                        try:
                            c = RepoFunc(it, m, fn)(*((width,) if unary else (width, width)), type=mode, big_endian=be)
                        except InterpRaise as e:
                            probs.append(f'{tag} raises {e.exc_name}')
                            continue
                        ins, outs = list(c._inputs), list(c._outputs)
                        if len(ins) != (width if unary else 2 * width) or any(o not in c._gates for o in outs):
                            probs.append(f'{tag}: circuit with {len(ins)} inputs / outputs {outs}')
                            continue
                        for A in range(1 << width):
                            for Bv in ((0,) if unary else range(1 << width)):
                                vals = bits_of(A, width, be) + ([] if unary else bits_of(Bv, width, be))
                                v = eval_all(c, dict(zip(ins, vals)))
                                got = num([v[o] for o in outs], be)
                                want = A * A if unary else A * Bv
                                if got != want:
                                    probs.append(f'{tag}: {A}{"^2" if unary else " * " + str(Bv)} comes out as {got} ({len(outs)} output bits)')
                                    break
                            else:
                                continue
                            break
                if len(probs) > 3:
                    break
            ck.check(not probs, rule, m, fn, f'{gen}: for every mode of {enums[0].name} ({", ".join(enums[0].members)}), widths 1 and 3, both endiannesses, the generated circuit computes the product on every operand value ({n_inst} circuits)',
                     '; '.join(probs[:3]), construct=f'{gen} over all modes')
    finally:
        it.overrides.pop('cirbo.core.circuit.circuit.Circuit', None)
        it.overrides.pop('cirbo.core.circuit.Circuit', None)
        it._globals_cache.clear()


def fold_endian_rel(ck: Checker, rule: str, modules, public, exempt=(), bench: NumBench | None = None):
    """Endianness as a relation, without knowing what a generator computes: for every public function with a `big_endian`
    parameter, the call with big_endian=True on operand lists given most significant bit first must build the same functions,
    result numbers reversed, as the call with big_endian=False on the same operands given least significant bit first.  Both
    calls run on equal host circuits; the returned bits are compared on every value of the host's inputs.  Returns the names
    of the functions that were compared (for the others the shape rule stays as it is)."""
    import itertools
    from .interp import RepoFunc
    from . import genrules as R
    bench = bench or NumBench(ck.repo)
    it = bench.B.interp
    ns = _CircuitNS(bench.T['INPUT'])
    it.overrides['cirbo.core.circuit.circuit.Circuit'] = ns
    it.overrides['cirbo.core.circuit.Circuit'] = ns
    it._globals_cache.clear()
    compared = set()

    def numbers(res):
        """The result as a list of components: ('num', [labels]) or ('bit', label)."""
        if isinstance(res, (list, tuple)) and res and all(isinstance(x, str) for x in res) and isinstance(res, list):
            return [('num', list(res))]
        if isinstance(res, str):
            return [('bit', res)]
        if isinstance(res, (list, tuple)):
            out = []
            for x in res:
                if isinstance(x, str):
                    out.append(('bit', x))
                elif isinstance(x, (list, tuple)) and all(isinstance(y, str) for y in x):
                    out.append(('num', list(x)))
                else:
                    return None
            return out
        return None

    try:
        for m, q, fn in R.gen_functions(ck.repo, modules):
            params = [a.arg for a in fn.args.args + fn.args.kwonlyargs]
            if 'big_endian' not in params or (m.name, q) not in public or q in exempt:
                continue
            pos = [a for a in fn.args.args]
            probs, n_inst, skipped = [], 0, None
            if pos and pos[0].arg == 'circuit':
                seqs = [a.arg for a in pos[1:] if a.annotation is not None and 'Label' in ast_norm(a.annotation)]
                others = [a.arg for a in pos[1:] if a.arg not in seqs]
                if not seqs or any(o != 'shift' for o in others):
                    ck.notes.setdefault('structural_rules_not_applicable', []).append(f'endianness relation: {q}({", ".join(params)}) has a parameter list the sweep does not know')
                    continue
                widths = [(3,) * len(seqs)] if 'pow2_m1' in q else ([(2,) * len(seqs), (3,) * len(seqs)] + ([(3, 2), (1, 3)] if len(seqs) == 2 else [(1,)]))
                for ws in widths:
                    for shift in ((0, 1) if 'shift' in others else (None,)):
                        runs = []
                        for be in (False, True):
                            c, names = bench.host(sum(ws))
                            ops, k = [], 0
                            for w in ws:
                                ops.append(list(names[k:k + w]))
                                k += w
                            args = [list(reversed(o)) if be else list(o) for o in ops]
                            kw = {'big_endian': be}
                            try:
                                res = bench.run(m.name, q, c, *(([shift] if shift is not None else []) + args), **kw)
                            except InterpRaise as e:
                                runs.append(('raise', e.exc_name, None, None))
                                continue
                            runs.append(('ok', numbers(res), c, names))
                        n_inst += 1
                        tag = f'{q}(widths {ws}{", shift " + str(shift) if shift is not None else ""})'
                        (s0, r0, c0, names), (s1, r1, c1, _) = runs
                        if s0 == 'raise' or s1 == 'raise':
                            if (s0, r0) != (s1, r1):
                                probs.append(f'{tag}: little-endian call {"raises " + r0 if s0 == "raise" else "returns"}, big-endian call {"raises " + r1 if s1 == "raise" else "returns"}')
                            continue
                        if r0 is None or r1 is None:
                            skipped = 'the result is not made of labels and label lists'
                            break
                        ghost = [l for r_, c_ in ((r0, c0), (r1, c1)) for k_, x in r_ for l in (x if k_ == 'num' else [x]) if l not in c_._gates]
                        if ghost:
                            probs.append(f'{tag}: the result names {ghost[0]!r}, which is no gate of the circuit')
                            continue
                        if [(k_, len(x) if k_ == 'num' else 1) for k_, x in r0] != [(k_, len(x) if k_ == 'num' else 1) for k_, x in r1]:
                            probs.append(f'{tag}: result shapes differ between the two endiannesses')
                            continue
                        for vals in itertools.product((False, True), repeat=len(names)):
                            v0 = eval_all(c0, dict(zip(names, vals)))
                            v1 = eval_all(c1, dict(zip(names, vals)))
                            bad = False
                            for (k0, x0), (k1, x1) in zip(r0, r1):
                                a0 = [v0[l] for l in x0] if k0 == 'num' else [v0[x0]]
                                a1 = [v1[l] for l in reversed(x1)] if k1 == 'num' else [v1[x1]]
                                if a0 != a1:
                                    bad = True
                            if bad:
                                probs.append(f'{tag}: with operand bits {[int(b) for b in vals]} (least significant first) the big-endian call on the reversed operands does not return the reversed little-endian result')
                                break
                    if skipped or len(probs) > 3:
                        break
            else:
                # generate_*(sizes..., big_endian): inputs are the operands one after another, outputs one or two numbers
                ints = [a.arg for a in pos if a.annotation is not None and ast_norm(a.annotation) == 'int']
                if len(ints) != len(pos) or not ints:
                    continue
                for size in (2, 3):
                    runs = []
                    for be in (False, True):
                        it.steps = 0
                        try:
                            c = RepoFunc(it, m, fn)(*([size] * len(ints)), big_endian=be)
                            runs.append(('ok', c))
                        except InterpRaise as e:
                            runs.append(('raise', e.exc_name))
                    n_inst += 1
                    tag = f'{q}({", ".join([str(size)] * len(ints))})'
                    if runs[0][0] == 'raise' or runs[1][0] == 'raise':
                        if runs[0] != runs[1] and not (runs[0][0] == runs[1][0] == 'raise'):
                            probs.append(f'{tag}: one endianness raises, the other does not')
                        continue
                    c0, c1 = runs[0][1], runs[1][1]
                    ins, ins1 = list(c0._inputs), list(c1._inputs)      # (compared by position: the labels may be numbered the other way round)
                    if len(ins1) != len(ins) or len(c1._outputs) != len(c0._outputs) or not ins or len(ins) > 8:
                        probs.append(f'{tag}: the two endiannesses give circuits with different interfaces')
                        continue
                    n_ops = 2 if len(ins) == 2 * size and len(ints) <= 2 and ('mul' in q or 'sub' in q or 'div' in q) else 1
                    w_op = len(ins) // n_ops
                    no = len(c0._outputs)
                    splits = [[no]] + ([[no // 2, no - no // 2]] if no % 2 == 0 and no >= 2 else []) + ([[no - 1, 1]] if no >= 2 else [])
                    ok_split = None
                    for sp in splits:
                        good = True
                        for vals in itertools.product((False, True), repeat=len(ins)):
                            rv = []
                            for k in range(n_ops):
                                rv += list(reversed(vals[k * w_op:(k + 1) * w_op]))
                            v0 = eval_all(c0, dict(zip(ins, vals)))
                            v1 = eval_all(c1, dict(zip(ins1, rv)))
                            o0 = [v0[o] for o in c0._outputs]
                            o1 = [v1[o] for o in c1._outputs]
                            exp, k = [], 0
                            for w in sp:
                                exp += list(reversed(o0[k:k + w]))
                                k += w
                            if exp != o1:
                                good = False
                                break
                        if good:
                            ok_split = sp
                            break
                    if ok_split is None:
                        probs.append(f'{tag}: the big-endian circuit is not the little-endian one with operands and result numbers reversed')
            if skipped:
                ck.notes.setdefault('structural_rules_not_applicable', []).append(f'endianness relation: {q}: {skipped}')
                continue
            if n_inst:
                compared.add(q)
                ck.check(not probs, rule, m, fn, f'{q}: the big-endian call on operands given most significant bit first returns the reversed result of the little-endian call ({n_inst} instances, every value of the operand bits)',
                         '; '.join(probs[:2]), construct=f'{q} endianness relation')
    finally:
        it.overrides.pop('cirbo.core.circuit.circuit.Circuit', None)
        it.overrides.pop('cirbo.core.circuit.Circuit', None)
        it._globals_cache.clear()
    return compared


def ast_norm(node):
    from .core import norm
    return norm(node)


def fold_sub_div_sqrt(ck: Checker, rule: str, bench: NumBench | None = None):
    """Subtraction with comparison, division with remainder and integer square root at widths beyond the contract-based
    folds of C09.FOLD, as they stand (no contracts), every operand value."""
    import math
    bench = bench or NumBench(ck.repo)
    thorough = ck.tier != 'quick'
    total = 0
    # add_subtract_with_compare: unequal widths in both directions
    sm = ck.repo.mod(SUB)
    probs, n_inst = [], 0
    for na, nb in [(4, 4), (5, 2), (2, 5), (1, 4)] + ([(6, 5), (3, 7)] if thorough else []):
        for be in (False, True):
            n_inst += 1
            tag = f'add_subtract_with_compare(widths {na},{nb}, big_endian={be})'
            try:
                c, names = bench.host(na + nb)
                la, lb = list(names[:na]), list(names[na:])
                res, flag = bench.run(SUB, 'add_subtract_with_compare', c, la, lb, big_endian=be)
            except InterpRaise as e:
                probs.append(f'{tag} raises {e.exc_name}')
                continue
            w = max(na, nb)
            if la != names[:na] or lb != names[na:]:
                probs.append(f'{tag} modified the caller\'s operand lists')
            if len(res) != w or any(r not in c._gates for r in list(res) + [flag]):
                probs.append(f'{tag}: {len(res)} result bits / labels of missing gates')
                continue
            for A in range(1 << na):
                for Bv in range(1 << nb):
                    total += 1
                    v = eval_all(c, dict(zip(names, bits_of(A, na, be) + bits_of(Bv, nb, be))))
                    got, fl = num([v[r] for r in res], be), v[flag]
                    if got != (A - Bv) % (1 << w) or fl != (A < Bv):
                        probs.append(f'{tag}: {A} - {Bv} gives {got} with borrow flag {fl}')
                        break
                else:
                    continue
                break
            if c._outputs != ['own'] or c._inputs != names:
                probs.append(f'{tag} changed the interface of the host circuit')
    ck.check(not probs, rule, sm, sm.func('add_subtract_with_compare'), f'add_subtract_with_compare: (a - b) mod 2^max(len) and a flag True exactly when a < b, unequal widths in both directions ({n_inst} instances, every operand value)',
             '; '.join(probs[:3]), construct='add_subtract_with_compare instantiated')
    # add_div_mod
    dm = ck.repo.mod(DIV)
    probs, n_inst = [], 0
    for n in (4, 5) + ((6,) if thorough else ()):
        for be in (False, True):
            n_inst += 1
            tag = f'add_div_mod(width {n}, big_endian={be})'
            try:
                c, names = bench.host(2 * n)
                q, r = bench.run(DIV, 'add_div_mod', c, list(names[:n]), list(names[n:]), big_endian=be)
            except InterpRaise as e:
                probs.append(f'{tag} raises {e.exc_name}')
                continue
            if len(q) != n or len(r) != n or any(x not in c._gates for x in list(q) + list(r)):
                probs.append(f'{tag}: result widths {len(q)},{len(r)} / labels of missing gates')
                continue
            bad = None
            for A in range(1 << n):
                for Bv in range(1 << n):
                    total += 1
                    v = eval_all(c, dict(zip(names, bits_of(A, n, be) + bits_of(Bv, n, be))))
                    got = (num([v[x] for x in q], be), num([v[x] for x in r], be))
                    want = (A // Bv, A % Bv) if Bv else (0, 0)
                    if got != want:
                        bad = f'{tag}: {A} divmod {Bv} gives {got}, expected {want}'
                        break
                if bad:
                    break
            if bad:
                probs.append(bad)
            if c._outputs != ['own'] or c._inputs != names:
                probs.append(f'{tag} changed the interface of the host circuit')
    ck.check(not probs, rule, dm, dm.func('add_div_mod'), f'add_div_mod: (a // b, a mod b), and (0, 0) for b = 0 ({n_inst} instances, every operand value)', '; '.join(probs[:3]), construct='add_div_mod instantiated')
    # add_sqrt
    qm = ck.repo.mod(SQRT)
    probs, n_inst = [], 0
    for n in (6, 7, 8, 9) + ((10, 11) if thorough else ()):
        for be in (False, True):
            n_inst += 1
            tag = f'add_sqrt(width {n}, big_endian={be})'
            try:
                c, names = bench.host(n)
                res = bench.run(SQRT, 'add_sqrt', c, list(names), big_endian=be)
            except InterpRaise as e:
                probs.append(f'{tag} raises {e.exc_name}')
                continue
            if len(res) != (n + 1) // 2 or any(x not in c._gates for x in res):
                probs.append(f'{tag}: {len(res)} result bits / labels of missing gates')
                continue
            for X in range(1 << n):
                total += 1
                v = eval_all(c, dict(zip(names, bits_of(X, n, be))))
                got = num([v[x] for x in res], be)
                if got != math.isqrt(X):
                    probs.append(f'{tag}: sqrt({X}) gives {got}')
                    break
            if c._outputs != ['own'] or c._inputs != names:
                probs.append(f'{tag} changed the interface of the host circuit')
    ck.check(not probs, rule, qm, qm.func('add_sqrt'), f'add_sqrt: floor(sqrt(x)) on ceil(n/2) bits ({n_inst} instances, every operand value)', '; '.join(probs[:3]), construct='add_sqrt instantiated')
    ck.notes['sub_div_sqrt_evaluations'] = total
    ck.assume('subtraction with comparison, division and square root are instantiated for the listed widths only')
    return bench
