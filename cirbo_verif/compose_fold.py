"""C10 / C13: circuit composition folded over model states.

`Circuit.connect_circuit` is a `for`-only template once the traversal of the attached circuit is
given (`other.top_sort(inverse=True)` is replaced by an oracle: any operands-first order; the
traversal itself is C20's subject).  It is folded by the mini-evaluator on instances of the
repository's own `Circuit` class (attribute dictionaries; every other method -- emplace_gate,
set_inputs, set_outputs, the validators, Block -- is the repository's code, folded too) for a
bounded family of (base circuit, attached circuit, connector lists, direction, naming) and the
resulting state is compared with the documented composition built independently from the two
specifications: inputs, outputs, the function of every kept output, well-formedness, the
attached circuit untouched, and the function of the extracted block.  `build_miter` is folded
the same way over pairs of small circuits.  Nothing of cirbo is imported or run.
"""

from __future__ import annotations

import itertools

from .core import AnalysisError, Checker
from . import circuit_model as cm
from .interp import Instance, InterpRaise, RepoFunc
from .tables import Denotations
from . import semantics

CIRCUIT = 'cirbo.core.circuit.circuit'


def oracle_top_sort(inst: Instance):
    def top_sort(*, inverse=False):
        d = inst._d
        order, done = [], set()

        def visit(l):
            if l in done:
                return
            for o in d['_gates'][l].operands:
                visit(o)
            done.add(l)
            order.append(d['_gates'][l])
        for l in list(d['_gates']):
            visit(l)
        return iter(order if inverse else list(reversed(order)))
    return top_sort


def new_model(repo):
    M = cm.Model(repo, Denotations(repo), real_gates=True)     # the repository's own Gate class (its __eq__ is part of what is folded)
    M.interp.real_super = True
    M.interp.instance_dunders = True
    # (the attached circuit is copied in the order of its own top_sort: the repository's Kahn loop is folded with it, run to
    # completion; it used to be replaced by an oracle order, which hid a seeded change to top_sort from C10 and C13)
    M.interp.eager_generators.add('cirbo.core.circuit.circuit.Circuit.top_sort')
    M.interp.eager_generators.add('cirbo.core.circuit.circuit.Circuit._traverse_circuit')
    M.interp.max_steps = 4_000_000
    M.interp.executed = {}
    M.interp.allow_while = True     # e.g. `while connector in outputs: outputs.remove(connector)` is a worklist over the model state
    return M


def values(spec, assignment):
    """Gate values of a specification [(label, type, operands)] (operands first) under input values."""
    v = {}
    for l, t, ops in spec:
        v[l] = assignment[l] if t == 'INPUT' else semantics.value(t, [v[o] for o in ops])
    return v


def state_values(c: Instance, assignment):
    d = c._d
    v = {}

    def ev(l, seen=()):
        if l in v:
            return v[l]
        g = d['_gates'][l]
        if l in seen:
            raise AnalysisError('composition produced a cycle')
        if g.gate_type.var == 'INPUT':
            v[l] = assignment[l]
        else:
            v[l] = semantics.value(g.gate_type.var, [ev(o, seen + (l,)) for o in g.operands])
        return v[l]
    for l in d['_gates']:
        ev(l)
    return v


BASES = [
    ([('a', 'INPUT', ()), ('b', 'INPUT', ()), ('g', 'AND', ('a', 'b')), ('h', 'OR', ('g', 'a'))], ('h', 'g')),
    ([('a', 'INPUT', ()), ('b', 'INPUT', ()), ('c', 'INPUT', ()), ('g', 'XOR', ('a', 'b')), ('h', 'GT', ('g', 'c'))], ('h', 'a', 'h')),
]
OTHERS = [
    ([('x', 'INPUT', ()), ('y', 'INPUT', ()), ('z', 'XOR', ('x', 'y')), ('w', 'NOT', ('z',))], ('w', 'x')),
    ([('x', 'INPUT', ()), ('y', 'INPUT', ()), ('u', 'LT', ('y', 'x')), ('v', 'NAND', ('u', 'x', 'y'))], ('v', 'u', 'v')),
    ([('x', 'INPUT', ())], ('x',)),
    # gates listing an operand twice (the users index must list them once per occurrence)
    ([('x', 'INPUT', ()), ('y', 'INPUT', ()), ('z', 'AND', ('x', 'x')), ('w', 'OR', ('z', 'y', 'z'))], ('w', 'z')),
    # a constant gate without operands (as connector of a right connection it drives a base input like any other gate)
    ([('x', 'INPUT', ()), ('t', 'ALWAYS_FALSE', ()), ('z', 'OR', ('x', 't'))], ('z', 't')),
    # a constant that carries operands (it must still come after them wherever the circuit is copied)
    ([('x', 'INPUT', ()), ('y', 'INPUT', ()), ('z', 'OR', ('x', 'y')), ('t', 'ALWAYS_TRUE', ('z',)), ('w', 'AND', ('t', 'z'))], ('w', 't')),
]


def expected(bspec, bouts, ospec, oouts, TC, OC, right, prefix):
    """The documented composition: (inputs, outputs, value function)."""
    binputs = [l for l, t, _ in bspec if t == 'INPUT']
    oinputs = [l for l, t, _ in ospec if t == 'INPUT']
    otype = {l: t for l, t, _ in ospec}
    pair = dict(zip(OC, TC))
    mp = lambda l: pair[l] if l in pair else prefix + l  # noqa: E731
    if not right:
        inputs = binputs + [mp(x) for x in oinputs if x not in OC]
    else:
        # a base input replaced by a gate of the attached circuit stops being an input unless that gate is an input itself
        still = [a for a in binputs if a not in TC or otype[OC[TC.index(a)]] == 'INPUT']
        inputs = still + [mp(x) for x in oinputs if x not in OC]
    outputs = [o for o in bouts if o not in TC] + [mp(o) for o in oouts if o not in OC]

    def vals(assignment):
        if not right:
            bv = values(bspec, {a: assignment[a] for a in binputs})
            ov = values(ospec, {x: (bv[pair[x]] if x in pair else assignment[mp(x)]) for x in oinputs})
        else:
            ov = values(ospec, {x: assignment[mp(x)] for x in oinputs})
            back = dict(zip(TC, OC))
            bv = values(bspec, {a: (ov[back[a]] if a in back else assignment[a]) for a in binputs})
        out = dict(bv)
        out.update({mp(l): v for l, v in ov.items()})
        return out, ov
    return inputs, outputs, vals


def connector_cases(bspec, ospec, right):
    blabels = [l for l, _, _ in bspec]
    binputs = [l for l, t, _ in bspec if t == 'INPUT']
    olabels = [l for l, _, _ in ospec]
    oinputs = [l for l, t, _ in ospec if t == 'INPUT']
    cases = [((), ())]
    if not right:
        for k in (1, 2):
            for OC in itertools.permutations(oinputs, k):
                for TC in itertools.product(blabels, repeat=k):
                    cases.append((TC, OC))
    else:
        for k in (1, 2):
            for TC in itertools.permutations(binputs, k):
                for OC in itertools.permutations(olabels, k):
                    cases.append((TC, OC))
    return cases


def fold_connect(ck: Checker, R: str, R_block: str | None = None):
    repo = ck.repo
    M = new_model(repo)
    mod = M.mod
    fn = mod.func('Circuit.connect_circuit')
    blk_fn = mod.func('Block.into_circuit')
    probs, bprobs = [], []
    n_cases = n_blocks = 0
    thorough = ck.tier == 'thorough'
    for (bspec, bouts), (ospec, oouts) in itertools.product(BASES, OTHERS):
        for right in (False, True):
            cases = connector_cases(bspec, ospec, right)
            if not thorough:
                const0 = {l for l, t, ops in ospec if t in ('ALWAYS_TRUE', 'ALWAYS_FALSE') and not ops}
                cases = cases[::3] + cases[1:2] + [cs for cs in cases if const0 & set(cs[1])][:4]
            for TC, OC in cases:
                for name, add_prefix in (('blk', True), ('', True), ('blk', False)):
                    n_cases += 1
                    prefix = 'blk@' if name and add_prefix else ''
                    base = M.new_circuit(bspec, bouts)
                    other = M.new_circuit(ospec, oouts)
                    before_other = cm.snapshot(other)
                    desc = (f'base {[(l, t) + tuple(o) for l, t, o in bspec if t != "INPUT"]} outputs {list(bouts)}, attached {[(l, t) + tuple(o) for l, t, o in ospec if t != "INPUT"]} outputs {list(oouts)}, '
                            f'this_connectors={list(TC)} other_connectors={list(OC)} right_connect={right} name={name!r} add_prefix={add_prefix}')
                    _, err = M.call(base, 'connect_circuit', other, list(TC), list(OC), right_connect=right, name=name, add_prefix=add_prefix)
                    if err:
                        probs.append(f'a legal composition is refused ({err}): {desc}')
                        continue
                    if cm.snapshot(other) != before_other:
                        probs.append(f'the attached circuit was modified: {desc}')
                        continue
                    inv = cm.invariant_problems(base)
                    if inv:
                        probs.append(f'{inv[0]}: {desc}')
                        continue
                    winputs, woutputs, vals = expected(bspec, bouts, ospec, oouts, list(TC), list(OC), right, prefix)
                    s = cm.snapshot(base)
                    if s['inputs'] != winputs:
                        probs.append(f'inputs {s["inputs"]} instead of {winputs}: {desc}')
                        continue
                    if s['outputs'] != woutputs:
                        probs.append(f'outputs {s["outputs"]} instead of {woutputs}: {desc}')
                        continue
                    bad = None
                    for bits in itertools.product((False, True), repeat=len(winputs)):
                        a = dict(zip(winputs, bits))
                        want, ov = vals(a)
                        got = state_values(base, a)
                        diff = [l for l in s['outputs'] if got[l] != want[l]]
                        if diff:
                            bad = f'output {diff[0]} computes {int(got[diff[0]])} instead of {int(want[diff[0]])} on {a}'
                            break
                    if bad:
                        probs.append(f'{bad}: {desc}')
                        continue
                    if name and R_block:
                        n_blocks += 1
                        blk = base._d['_blocks'].get(name)
                        if blk is None:
                            bprobs.append(f'no block {name!r} was created: {desc}')
                            continue
                        try:
                            M.interp.steps = 0
                            ex = RepoFunc(M.interp, mod, blk_fn, bound_self=blk)()
                        except InterpRaise as e:
                            bprobs.append(f'extracting the block raises {e.exc_name}: {desc}')
                            continue
                        xs = cm.snapshot(ex)
                        oinputs = [l for l, t, _ in ospec if t == 'INPUT']
                        inv = cm.invariant_problems(ex)
                        if inv:
                            bprobs.append(f'the extracted block is not a well-formed circuit ({inv[0]}): {desc}')
                            continue
                        if xs['inputs'] != list(dict.fromkeys(blk._d['_inputs'])) or len(xs['outputs']) != len(oouts):
                            bprobs.append(f'extracted block has inputs {xs["inputs"]} outputs {xs["outputs"]}, block lists inputs {blk._d["_inputs"]}: {desc}')
                            continue
                        bad = None
                        bi = list(blk._d['_inputs'])
                        for bits in itertools.product((False, True), repeat=len(oinputs)):
                            oa = dict(zip(oinputs, bits))
                            ov = values(ospec, oa)
                            # block inputs are the images of the attached inputs, position by position
                            a = {}
                            consistent = True
                            for x, img in zip(oinputs, bi):
                                if img in a and a[img] != oa[x]:
                                    consistent = False
                                a[img] = oa[x]
                            if not consistent:
                                continue
                            for l in xs['inputs']:
                                a.setdefault(l, False)
                            got = state_values(ex, a)
                            wrong = [k for k, (o, img) in enumerate(zip(oouts, xs['outputs'])) if got[img] != ov[o]]
                            if wrong:
                                bad = f'output {wrong[0]} of the extracted block computes {int(got[xs["outputs"][wrong[0]]])}, the attached circuit gives {int(ov[oouts[wrong[0]]])} on {oa}'
                                break
                        if bad:
                            bprobs.append(f'{bad}: {desc}')
                        # a base gate feeding several attached inputs is renamed afterwards: the block follows the rename in every position
                        if not right and len(set(TC)) < len(TC) and not bad:
                            _, err = M.call(base, 'rename_gate', TC[0], 'renamed_connector')
                            if not err:
                                try:
                                    M.interp.steps = 0
                                    ex2 = RepoFunc(M.interp, mod, blk_fn, bound_self=blk)()
                                    xs2 = cm.snapshot(ex2)
                                    if len(xs2['inputs']) != len(xs['inputs']) or len(xs2['outputs']) != len(xs['outputs']) or cm.invariant_problems(ex2):
                                        bprobs.append(f'after rename_gate({TC[0]!r}, ...) the extracted block has inputs {xs2["inputs"]} (before: {xs["inputs"]}): {desc}')
                                except InterpRaise as e:
                                    bprobs.append(f'after rename_gate({TC[0]!r}, ...) extracting the block raises {e.exc_name}: {desc}')
                                M.call(base, 'rename_gate', 'renamed_connector', TC[0])
                        # the same region cut out of the composed circuit by the block's own interface (documented: the gates
                        # between the given outputs and the given inputs) is the block again
                        if not right:
                            members = sorted(blk._d['_gates'])
                            _, err = M.call(base, 'make_block_from_slice', 'again', list(blk._d['_inputs']), list(blk._d['_outputs']))
                            again = base._d['_blocks'].get('again')
                            if err or again is None:
                                bprobs.append(f'make_block_from_slice refuses the interface of the block just created ({err}): {desc}')
                            elif sorted(again._d['_gates']) != members:
                                bprobs.append(f'make_block_from_slice over the interface of the block collects {sorted(again._d["_gates"])}, the block is {members}: {desc}')
            if len(probs) > 4 or len(bprobs) > 4:
                break
    ck.check(not probs, R, mod, fn, f'connect_circuit folded over {n_cases} compositions (2 base x 4 attached circuits, connector lists of length 0..2 incl. internal and repeated base gates, both directions, naming/prefix options): '
             'attached circuit untouched, well-formed result, inputs and outputs of the documented composition in order, every kept output computes the composed function', '; '.join(probs[:2]), construct='connect_circuit over the composition family')
    if R_block:
        ck.check(not bprobs, R_block, mod, blk_fn, f'the named block of each composition, extracted with Block.into_circuit, computes the attached circuit\'s function ({n_blocks} blocks)', '; '.join(bprobs[:2]),
                 construct='Block.into_circuit of the composed block')
    ck.notes['compositions_folded'] = n_cases
    ck.assume('connect_circuit is folded over a bounded family of compositions (circuits with <= 3 inputs and <= 2 gates, connector lists of length <= 2) with an oracle for other.top_sort; repeated composition and larger circuits are not decided by this rule')
    return M


def fold_miter(ck: Checker, R: str):
    """build_miter folded over pairs of small circuits: shape, inputs, single output, and the truth table
    (True exactly where the output vectors differ)."""
    repo = ck.repo
    M = new_model(repo)
    it = M.interp
    mm = repo.mod('cirbo.sat.miter')
    fn = mm.func('build_miter')
    bm = RepoFunc(it, mm, fn)
    T1 = [
        ([('a', 'INPUT', ()), ('b', 'INPUT', ()), ('g', 'AND', ('a', 'b'))], ('g',)),
        ([('b', 'INPUT', ()), ('a', 'INPUT', ()), ('g', 'GT', ('a', 'b'))], ('g',)),
        ([('p', 'INPUT', ()), ('q', 'INPUT', ()), ('r', 'NAND', ('p', 'q')), ('s', 'NOT', ('r',))], ('s',)),
        ([('p', 'INPUT', ()), ('q', 'INPUT', ()), ('r', 'NOR', ('p', 'q')), ('t', 'ALWAYS_FALSE', ('r', 'p')), ('s', 'OR', ('t', 'r'))], ('s',)),
    ]
    T2 = [
        ([('a', 'INPUT', ()), ('b', 'INPUT', ()), ('g', 'XOR', ('a', 'b'))], ('g', 'a')),
        ([('a', 'INPUT', ()), ('b', 'INPUT', ()), ('g', 'XOR', ('b', 'a')), ('h', 'IFF', ('a',))], ('g', 'h')),
        ([('x', 'INPUT', ()), ('y', 'INPUT', ()), ('g', 'OR', ('x', 'y'))], ('g', 'g')),
        ([('x', 'INPUT', ()), ('y', 'INPUT', ())], ('y', 'y')),
    ]
    T0 = [([('a', 'INPUT', ())], ()), ([('z', 'INPUT', ()), ('g', 'NOT', ('z',))], ())]
    # many outputs: the right circuit differs from the left one in exactly one output position (every position in turn)
    wide = [('a', 'INPUT', ()), ('b', 'INPUT', ()), ('c', 'INPUT', ()), ('g0', 'AND', ('a', 'b')), ('g1', 'OR', ('b', 'c')), ('g2', 'XOR', ('a', 'c')),
            ('n0', 'NAND', ('a', 'b')), ('n1', 'NOR', ('b', 'c')), ('n2', 'NXOR', ('a', 'c'))]
    many = []
    for width in ((3, 6, 10) if ck.tier == 'quick' else (3, 5, 6, 7, 10, 12, 14)):
        louts = tuple(f'g{i % 3}' for i in range(width))
        many.append(((wide, louts), (wide, louts)))
        for k in (range(width) if width <= 6 else (0, width // 2, width - 3, width - 2, width - 1)):
            routs = tuple((f'n{i % 3}' if i == k else f'g{i % 3}') for i in range(width))
            many.append(((wide, louts), (wide, routs)))
    # the same netlist twice, the inputs listed in another order on one side (positionally different functions)
    asym = [('a', 'INPUT', ()), ('b', 'INPUT', ()), ('c', 'INPUT', ()), ('g', 'GT', ('a', 'b')), ('h', 'OR', ('g', 'c'))]
    asym_r = [('b', 'INPUT', ()), ('a', 'INPUT', ()), ('c', 'INPUT', ())] + asym[3:]
    many += [((asym, ('h',)), (asym_r, ('h',))), ((asym, ('h', 'g')), (asym, ('h', 'g')))]
    probs = []
    n = 0
    for fam in (T1, T2, T0, many):
        for (ls, lo), (rs, ro) in (itertools.product(fam, repeat=2) if fam is not many else fam):
            n += 1
            left, right = M.new_circuit(ls, lo), M.new_circuit(rs, ro)
            bl, br = cm.snapshot(left), cm.snapshot(right)
            desc = f'left {[(l, t) + tuple(o) for l, t, o in ls]} outputs {list(lo)}, right {[(l, t) + tuple(o) for l, t, o in rs]} outputs {list(ro)}'
            it.steps = 0
            try:
                mit = bm(left, right)
            except InterpRaise as e:
                probs.append(f'raises {e.exc_name} on equal shapes: {desc}')
                continue
            if cm.snapshot(left) != bl or cm.snapshot(right) != br:
                probs.append(f'an operand was modified: {desc}')
                continue
            s = cm.snapshot(mit)
            linputs = [l for l, t, _ in ls if t == 'INPUT']
            rinputs = [l for l, t, _ in rs if t == 'INPUT']
            inv = cm.invariant_problems(mit)
            if inv:
                probs.append(f'{inv[0]}: {desc}')
                continue
            unappliable = [(l, t, len(ops)) for l, (t, ops) in s['gates'].items() if not semantics.legal_arity(t, len(ops))]
            if unappliable:
                l, t, k = unappliable[0]
                probs.append(f'gate {l} of the miter is {t} over {k} operand(s), which the operator cannot be applied to (evaluation raises): {desc}')
                continue
            if len(s['inputs']) != len(linputs) or len(s['outputs']) != 1:
                probs.append(f'miter has inputs {s["inputs"]} and outputs {s["outputs"]}: {desc}')
                continue
            for bits in itertools.product((False, True), repeat=len(linputs)):
                lv = values(ls, dict(zip(linputs, bits)))
                rv = values(rs, dict(zip(rinputs, bits)))
                want = [lv[o] for o in lo] != [rv[o] for o in ro]
                got = state_values(mit, dict(zip(s['inputs'], bits)))[s['outputs'][0]]
                if got != want:
                    probs.append(f'on input {tuple(int(b) for b in bits)} (left order) the miter gives {int(got)}, outputs differ = {want}: {desc}')
                    break
            if len(probs) > 3:
                break
    # mismatched shapes
    for (ls, lo), (rs, ro) in ((T1[0], T2[0]), (T1[0], ([('a', 'INPUT', ()), ('g', 'NOT', ('a',))], ('g',))), (T0[0], T1[0]), (T0[0], ([('a', 'INPUT', ()), ('b', 'INPUT', ())], ()))):
        n += 1
        it.steps = 0
        try:
            bm(M.new_circuit(ls, lo), M.new_circuit(rs, ro))
            probs.append(f'mismatched shapes accepted: left outputs {list(lo)} / {len([1 for x in ls if x[1] == "INPUT"])} inputs, right outputs {list(ro)} / {len([1 for x in rs if x[1] == "INPUT"])} inputs')
        except InterpRaise as e:
            if e.exc_name != 'MiterDifferentShapesError':
                probs.append(f'mismatched shapes rejected with {e.exc_name} instead of MiterDifferentShapesError')
    ck.check(not probs, R, mm, fn, f'build_miter folded over {n} pairs of small circuits (0, 1 and 2 outputs; outputs that are inputs or repeated; different input labels and orders): operands untouched, '
             'inputs in the left circuit\'s order, one output, True exactly where the output vectors differ; mismatched shapes raise MiterDifferentShapesError', '; '.join(probs[:2]), construct='build_miter over circuit pairs')
    ck.assume('build_miter is folded over a bounded family of circuit pairs (<= 2 inputs, <= 2 gates, <= 2 outputs) with an oracle for top_sort')


def fold_repeated_connectors(ck: Checker, R: str):
    """right_connect with one attached gate feeding two base inputs (a repeated other_connectors entry): the call must be
    refused, or both base inputs must be driven by that gate."""
    repo = ck.repo
    M = new_model(repo)
    mod = M.mod
    fn = mod.func('Circuit.connect_circuit')
    probs = []
    n = 0
    for (bspec, bouts), (ospec, oouts) in itertools.product(BASES, OTHERS[:2]):
        binputs = [l for l, t, _ in bspec if t == 'INPUT']
        oinputs = [l for l, t, _ in ospec if t == 'INPUT']
        for g in [l for l, t, _ in ospec if t != 'INPUT'][:2]:
            n += 1
            TC, OC = binputs[:2], [g, g]
            base, other = M.new_circuit(bspec, bouts), M.new_circuit(ospec, oouts)
            _, err = M.call(base, 'connect_circuit', other, list(TC), list(OC), right_connect=True, name='blk')
            if err:
                continue   # refusing the call is fine
            s = cm.snapshot(base)
            left = [a for a in TC if a in s['inputs']]
            if left:
                probs.append(f'connect_circuit(other, {TC}, {OC}, right_connect=True): base input(s) {left} stay unconnected inputs although they were to be driven by {g}')
                continue
            for bits in itertools.product((False, True), repeat=len(s['inputs'])):
                a = dict(zip(s['inputs'], bits))
                ov = values(ospec, {x: a['blk@' + x] for x in oinputs})
                bv = values(bspec, {x: (ov[g] if x in TC else a[x]) for x in binputs})
                got = state_values(base, a)
                if any(got[o] != bv[o] for o in bouts if o in got):
                    probs.append(f'connect_circuit(other, {TC}, {OC}, right_connect=True): a base output does not compute the composition on {a}')
                    break
    ck.check(not probs, R, mod, fn, f'right_connect with a repeated other_connectors entry is refused or wires every listed base input ({n} compositions)', '; '.join(probs[:2]),
             construct='connect_circuit(right_connect=True) with a repeated other_connectors entry')
    # connector lists that cannot denote a composition: one attached input fed by two base gates (left), a base gate that is not
    # an input fed from the attached circuit (right).  Refused -- or, if accepted, every listed pair must really be identified.
    probs2 = []
    m = 0
    for (bspec, bouts), (ospec, oouts) in itertools.product(BASES, OTHERS[:2]):
        binputs = [l for l, t, _ in bspec if t == 'INPUT']
        bgates = [l for l, t, _ in bspec if t != 'INPUT']
        oinputs = [l for l, t, _ in ospec if t == 'INPUT']
        ogates = [l for l, t, _ in ospec if t != 'INPUT']
        # left: this = two base nodes with different functions, other = the same attached input twice
        m += 1
        TC, OC = [binputs[0], bgates[0]], [oinputs[0], oinputs[0]]
        base, other = M.new_circuit(bspec, bouts), M.new_circuit(ospec, oouts)
        _, err = M.call(base, 'connect_circuit', other, list(TC), list(OC), right_connect=False, name='blk')
        if not err:
            probs2.append(f'connect_circuit(other, {TC}, {OC}) returns normally: the attached input {OC[0]} cannot be identified with both {TC[0]} and {TC[1]} (one pair is dropped silently)')
        # right: a base gate that is not an input among this_connectors
        m += 1
        TC, OC = [bgates[0]], [ogates[0]]
        base, other = M.new_circuit(bspec, bouts), M.new_circuit(ospec, oouts)
        before = cm.snapshot(base)
        _, err = M.call(base, 'connect_circuit', other, list(TC), list(OC), right_connect=True, name='blk')
        if not err:
            pr = cm.invariant_problems(base)
            probs2.append(f'connect_circuit(other, {TC}, {OC}, right_connect=True) returns normally although {TC[0]} is not an input of the base circuit' + (f' ({pr[0]})' if pr else ''))
    ck.check(not probs2, R, mod, fn, f'connector lists that denote no composition are refused ({m} calls: an attached input paired with two base gates; a non-input base gate fed from the attached circuit)', '; '.join(probs2[:2]),
             construct='connect_circuit with connector lists that denote no composition')


def fold_wrappers(ck: Checker, R: str):
    """Each convenience wrapper produces exactly the state that connect_circuit produces with the connector
    lists its documentation names (connect_circuit itself is decided by fold_connect)."""
    repo = ck.repo
    M = new_model(repo)
    mod = M.mod
    b2 = ([('a', 'INPUT', ()), ('b', 'INPUT', ()), ('g', 'AND', ('a', 'b')), ('h', 'OR', ('g', 'a'))], ('h', 'g'))
    o2 = ([('x', 'INPUT', ()), ('y', 'INPUT', ()), ('z', 'XOR', ('x', 'y')), ('w', 'GT', ('z', 'x'))], ('w', 'z'))
    binputs, bouts = ['a', 'b'], list(b2[1])
    oinputs, oouts = ['x', 'y'], list(o2[1])
    cases = [
        ('connect_left', (['g', 'g'],), {}, (['g', 'g'], oinputs, False)),
        ('connect_left', (['h', 'a'],), {'name': 'blk'}, (['h', 'a'], oinputs, False)),
        ('connect_right', (['z', 'w'],), {}, (binputs, ['z', 'w'], True)),
        ('connect_right', (['x', 'w'],), {'name': 'blk', 'add_prefix': False}, (binputs, ['x', 'w'], True)),
        ('connect_inputs', (), {}, (binputs, oinputs, True)),
        ('connect_inputs', (), {'name': 'blk'}, (binputs, oinputs, True)),
        ('extend_circuit', (), {}, (bouts, oinputs, False)),
        ('extend_circuit', (), {'right_connect': True, 'name': 'blk'}, (binputs, oouts, True)),
        ('extend_circuit', (), {'this_connectors': [], 'other_connectors': []}, ([], [], False)),
        ('extend_circuit', (), {'this_connectors': [], 'other_connectors': [], 'right_connect': True, 'name': 'blk'}, ([], [], True)),
        ('extend_circuit', (), {'this_connectors': ['g'], 'other_connectors': ['y']}, (['g'], ['y'], False)),
        ('extend_circuit', (), {'this_connectors': ['b']}, (['b'], oinputs, False)),      # length mismatch: both must refuse alike
        ('add_circuit', (), {}, ([], [], False)),
        ('add_circuit', (), {'name': 'blk'}, ([], [], False)),
    ]
    # an attached circuit with an unconnected input that is also one of its outputs (a pass-through)
    o3 = ([('x', 'INPUT', ()), ('y', 'INPUT', ()), ('z', 'XOR', ('x', 'y')), ('w', 'NOT', ('z',))], ('w', 'x', 'z'))
    cases = [c + (o2,) for c in cases] + [
        ('connect_right', (['z', 'w'],), {}, (binputs, ['z', 'w'], True), o3),
        ('connect_right', (['w', 'z'],), {'name': 'blk'}, (binputs, ['w', 'z'], True), o3),
        ('extend_circuit', (), {'right_connect': True, 'other_connectors': ['z', 'w']}, (binputs, ['z', 'w'], True), o3),
        ('connect_left', (['g', 'a'],), {'name': 'blk'}, (['g', 'a'], oinputs, False), o3),
        ('connect_inputs', (), {}, (binputs, oinputs, True), o3),
        ('add_circuit', (), {'name': 'blk', 'add_prefix': False}, ([], [], False), o3),
        ('add_circuit', (), {'name': 'blk', 'add_prefix': False}, ([], [], False), o2),
        ('extend_circuit', (), {'name': 'blk', 'add_prefix': False}, (bouts, oinputs, False), o2),
    ]
    for wname, args, kwargs, (TC, OC, right), oX in cases:
        f = mod.func(f'Circuit.{wname}')
        base1, other1 = M.new_circuit(*b2), M.new_circuit(*oX)
        base2, other2 = M.new_circuit(*b2), M.new_circuit(*oX)
        _, e1 = M.call(base1, wname, other1, *args, **kwargs)
        ckw = {k: v for k, v in kwargs.items() if k in ('name', 'add_prefix')}
        _, e2 = M.call(base2, 'connect_circuit', other2, list(TC), list(OC), right_connect=right, **ckw)
        s1, s2 = cm.snapshot(base1), cm.snapshot(base2)
        same = e1 == e2 and (e1 is not None or s1 == s2)
        why = ''
        if not same:
            if e1 != e2:
                why = f'wrapper {"raises " + e1 if e1 else "succeeds"}, connect_circuit with the documented lists {"raises " + e2 if e2 else "succeeds"}'
            else:
                diff = [k for k in s1 if s1[k] != s2[k]]
                why = f'{diff[0]} = {s1[diff[0]]} instead of {s2[diff[0]]}'
        desc = f'{wname}({", ".join([repr(a) for a in args] + [f"{k}={v!r}" for k, v in kwargs.items()])})'
        ck.check(same, R, mod, f, f'{desc} == connect_circuit(other, {list(TC)}, {list(OC)}, right_connect={right})', why, construct=f'{desc} against connect_circuit')
