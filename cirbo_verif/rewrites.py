"""E2 extractor: local rewrites of cirbo/core/circuit/converters.py, folded over a
recording model of the circuit (gate map, users index, blocks)."""

from __future__ import annotations

import ast
import collections

from .core import AnalysisError, Checker, gate_const, norm
from .interp import Host, Interp, InterpRaise, RepoFunc
from .tables import Denotations, GateTypeVal, gate_overrides
from . import semantics

CONV = 'cirbo.core.circuit.converters'
GATE_MOD = 'cirbo.core.circuit.gate'


class FakeGate(Host):
    _repo_class_name = 'Gate'

    def __init__(self, label, gate_type, operands=()):
        self._label = label
        self._gate_type = gate_type
        self._operands = tuple(operands)

    label = property(lambda s: s._label)
    gate_type = property(lambda s: s._gate_type)
    operands = property(lambda s: s._operands)
    operator = property(lambda s: s._gate_type.operator)

    def __repr__(self):
        return f'Gate({self._label}, {self._gate_type}, {self._operands})'


class _ContractType(Host):
    var = 'CONTRACT'
    name = 'CONTRACT'
    is_symmetric = False


_CONTRACT = _ContractType()


class FakeBlock(Host):
    _repo_class_name = 'Block'

    def __init__(self, name, inputs, gates, outputs):
        self._name = name
        self._inputs = list(inputs)
        self._gates = list(gates)
        self._outputs = list(outputs)

    name = property(lambda s: s._name)
    inputs = property(lambda s: s._inputs)
    gates = property(lambda s: s._gates)
    outputs = property(lambda s: s._outputs)


class FakeCircuit(Host):
    """Model of the Circuit state the converters touch. `emplace_gate` is the checked
    public constructor (refuses existing labels / missing operands, keeps the index)."""

    _repo_class_name = 'Circuit'

    def __init__(self, input_type):
        self._gates: dict = {}
        self._gate_to_users: dict = collections.defaultdict(list)
        self._inputs: list = []
        self._outputs: list = []
        self._blocks: dict = {}
        self._input_type = input_type
        self.log: list = []

    # public API used by converters
    def emplace_gate(self, label, gate_type, operands=(), **kw):
        if label in self._gates:
            raise InterpRaise('CircuitGateAlreadyExistsError')
        for o in operands:
            if o not in self._gates:
                raise InterpRaise('CircuitGateIsAbsentError')
        for o in operands:
            self._gate_to_users[o].append(label)
        self._gates[label] = FakeGate(label, gate_type, tuple(operands))
        if gate_type == self._input_type:
            self._inputs.append(label)
        self.log.append(('emplace', label))
        return self

    def add_gate(self, g):
        return self.emplace_gate(g.label, g.gate_type, g.operands)

    def _emplace_gate(self, label, gate_type, operands=(), **kw):
        """Unchecked constructor (used by the bench reader)."""
        for o in operands:
            self._gate_to_users[o].append(label)
        self._gates[label] = FakeGate(label, gate_type, tuple(operands))
        if gate_type == self._input_type:
            self._inputs.append(label)
        self.log.append(('_emplace', label))
        return self

    # interface operations, modelled after their documented behaviour (their own shape is C02's business)
    def _need(self, labels):
        for l in labels:
            if l not in self._gates:
                raise InterpRaise('CircuitValidationError')

    def mark_as_output(self, label):
        self._need([label])
        self._outputs.append(label)

    def set_outputs(self, outputs):
        self._need(outputs)
        self._outputs = list(outputs)

    def set_inputs(self, inputs):
        self._need(inputs)
        if sorted(inputs) != sorted(self._inputs):
            raise InterpRaise('CircuitValidationError')
        self._inputs = list(inputs)

    def add_inputs(self, inputs):
        for l in inputs:
            self.emplace_gate(l, self._input_type)

    @staticmethod
    def _order(new, old):
        rest = list(old)
        for x in new:
            if x not in rest:
                raise InterpRaise('CircuitGateIsAbsentError')
            rest.remove(x)
        return list(new) + rest

    def order_outputs(self, outputs):
        self._outputs = self._order(outputs, self._outputs)
        return self

    def order_inputs(self, inputs):
        self._inputs = self._order(inputs, self._inputs)
        return self

    def input_at_index(self, i):
        if i >= len(self._inputs):
            raise InterpRaise('GateDoesntExistError')
        return self._inputs[i]

    def get_gate(self, label):
        if label not in self._gates:
            raise InterpRaise('GateDoesntExistError')
        return self._gates[label]

    def has_gate(self, label):
        return label in self._gates

    def get_gate_users(self, label):
        return list(self._gate_to_users.get(label, []))

    def remove_gate(self, label):
        """Documented behaviour: refuses a gate with users; the gate leaves the gate map, the outputs and the index."""
        self._need([label])
        if self._gate_to_users.get(label):
            raise InterpRaise('GateHasUsersError')
        for o in self._gates[label].operands:
            if label in self._gate_to_users.get(o, []):
                self._gate_to_users[o].remove(label)
        del self._gates[label]
        self._outputs = [o for o in self._outputs if o != label]
        self._inputs = [o for o in self._inputs if o != label]
        self.log.append(('remove_gate', label))
        return self

    def _remove_user(self, gate_label, user):
        self.log.append(('remove_user', gate_label, user))
        if user in self._gate_to_users.get(gate_label, []):
            self._gate_to_users[gate_label].remove(user)

    def _add_user(self, gate_label, user):
        self.log.append(('add_user', gate_label, user))
        self._gate_to_users[gate_label].append(user)

    inputs = property(lambda s: s._inputs)
    outputs = property(lambda s: s._outputs)
    gates = property(lambda s: s._gates)
    blocks = property(lambda s: s._blocks)

    # model helpers (not reachable from repository code)
    def users_from_gates(self):
        u = collections.defaultdict(list)
        for g in self._gates.values():
            for o in g.operands:
                u[o].append(g.label)
        return {k: sorted(v) for k, v in u.items() if v}

    def users_index(self):
        return {k: sorted(v) for k, v in self._gate_to_users.items() if v}

    def evaluate(self, label, assignment, _seen=()):
        g = self._gates[label]
        if g.gate_type.var == 'INPUT':
            return assignment[label]
        if label in _seen:
            raise AnalysisError('rewrite produced a cycle')
        vals = [self.evaluate(o, assignment, _seen + (label,)) for o in g.operands]
        if getattr(g, 'fn', None) is not None:
            return bool(g.fn(vals))  # contract gate: a callee replaced by its specification
        return semantics.value(g.gate_type.var, vals)

    def add_contract_gate(self, label, operands, fn):
        """A gate standing for a callee's contract (assume/guarantee folding)."""
        if label in self._gates:
            raise InterpRaise('CircuitGateAlreadyExistsError')
        g = FakeGate(label, _CONTRACT, tuple(operands))
        g.fn = fn
        for o in operands:
            if o not in self._gates:
                raise InterpRaise('CircuitGateIsAbsentError')
            self._gate_to_users[o].append(label)
        self._gates[label] = g
        return label


def find_convertors(ck: Checker):
    """The table from gate types to bench rewrites (`_convertors`), *evaluated*: plain functions, closures produced by a factory
    and callable records all count.  Returns (module, dict node, table) with table[t] = (module, display name, key node, value
    node), table.calls[t] the callable and table.nodes[t] the syntax node findings are attached to."""
    from .cnf_templates import evaluated_table
    repo = ck.repo
    mod = repo.mod(CONV)
    ov = gate_overrides(Denotations(repo))
    ov[f'{GATE_MOD}.Gate'] = FakeGate
    it = Interp(repo, overrides=ov)
    cands = []
    for name, value in mod.assigns.items():
        if isinstance(value, (ast.Dict, ast.DictComp, ast.Call)) or name == '_convertors':
            t = evaluated_table(repo, mod, it, value, name)
            if t is not None and len(t) >= 4:
                cands.append((name, value, t))
    cands.sort(key=lambda c: -len(c[2]))
    if not cands:
        raise AnalysisError(f'{mod.rel}: table from gate types to bench rewrites not found')
    name, d, ev = cands[0]
    # (converters keep the order (module, name, key node, value node))
    table = type(ev)()
    for t, (hmod, hname, vnode, knode) in ev.items():
        table[t] = (hmod, hname, knode, vnode)
    table.calls, table.nodes, table.interp = ev.calls, ev.nodes, it
    return mod, d, table


def run_converter(repo, den: Denotations, hmod, hname, tname, operands, call=None, it=None):
    """Fold one converter over the model. Returns (circuit_before_snapshot, circuit_after, error)."""
    if call is None:
        ov = gate_overrides(den)
        ov[f'{GATE_MOD}.Gate'] = FakeGate
        it = Interp(repo, overrides=ov)
        call = RepoFunc(it, hmod, hmod.func(hname))
    types = {t.var: t for t in it.overrides.values() if isinstance(t, GateTypeVal)}
    it.steps = 0
    c = FakeCircuit(types['INPUT'])
    for lab in ('in0', 'x', 'y'):
        c.emplace_gate(lab, types['INPUT'])
    c.emplace_gate('h', types['AND'], ('x', 'y'))   # an inner gate that may serve as operand; it is an output itself
    c.emplace_gate('g', types[tname], tuple(operands))
    c.emplace_gate('user', types['IFF'], ('g',))
    c._outputs = ['user', 'h']
    c._blocks['has_h'] = FakeBlock('has_h', ['x', 'y'], ['h'], ['h'])
    c._blocks['has_g'] = FakeBlock('has_g', list(dict.fromkeys(operands)), ['g'], ['g'])
    c._blocks['other'] = FakeBlock('other', ['g'], ['user'], ['user'])
    c._blocks['also_g'] = FakeBlock('also_g', list(dict.fromkeys(operands)), ['g', 'user'], ['user'])
    c.log.clear()
    before = set(c._gates)
    f = call
    try:
        f(c._gates['g'], c)
    except InterpRaise as e:
        return before, c, f'raise:{e.exc_name}'
    return before, c, None
