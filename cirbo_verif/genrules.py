"""Rules shared by C07 / C08 / C09 over the generation package."""

from __future__ import annotations

import ast
import itertools

from .core import (
    AnalysisError, Checker, assignments_in, call_name, calls_in, deref, gate_const, is_name, norm, param_names,
    single_def, terminates, walk_no_nested,
)
from .effects import Effects, root_name
from .guards import dominating_tests
from .interp import Host, Interp, InterpRaise, RepoFunc

GENPKG = 'cirbo.synthesis.generation'
ARITH = GENPKG + '.arithmetics'

READ_ONLY = {'has_gate', 'get_gate', 'get_gate_users', 'inputs', 'outputs', 'gates', 'size', 'input_size', 'output_size', 'input_at_index', 'output_at_index',
             'index_of_input', 'index_of_output', 'gates_number', 'get_truth_table', 'evaluate', 'format_circuit', 'blocks', 'get_block'}
ADDERS = {'add_gate', 'emplace_gate'}
OUTPUT_IFACE = {'mark_as_output', 'set_outputs', 'order_outputs'}
INPUT_IFACE = {'add_inputs', 'set_inputs', 'order_inputs', 'replace_inputs'}


def public_names(repo):
    """Names exported by the generation package (its two __all__ lists)."""
    out = {}
    for modname in (GENPKG, ARITH):
        m = repo.mod(modname)
        allv = m.assign('__all__')
        names = [e.value for e in allv.elts if isinstance(e, ast.Constant)]
        for n in names:
            res = repo.resolve_def(modname, n)
            if res[2] == 'function':
                out[(res[0].name, res[1])] = n
    return out


def gen_functions(repo, modules):
    for mn in modules:
        m = repo.mod(mn)
        for q, f in m.functions.items():
            if '.' not in q:
                yield m, q, f


def circuit_param(fn):
    for p in fn.args.posonlyargs + fn.args.args:
        if p.arg == 'circuit':
            return p.arg
    return None


def is_fresh_circuit_local(fn, name):
    d = single_def(fn, name)
    return d is not None and isinstance(d, ast.Call) and norm(d.func) in ('Circuit', 'Circuit.bare_circuit', 'Circuit.bare_circuit_with_labels')


def check_add_only(ck: Checker, rule, modules, host_in_rule=None):
    """Host circuits are touched only through add_gate/emplace_gate and the output interface;
    generate_* functions own a fresh circuit and may also use the input interface."""
    repo = ck.repo
    n = 0
    for m, q, fn in gen_functions(repo, modules):
        cp = circuit_param(fn)
        owned = {x for x in {t.id for node in ast.walk(fn) if isinstance(node, ast.Assign) for t in node.targets if isinstance(t, ast.Name)} if is_fresh_circuit_local(fn, x)}
        names = ({cp} if cp else set()) | owned
        if not names:
            continue
        n += 1
        probs = []
        for node in ast.walk(fn):
            if isinstance(node, (ast.Assign, ast.AugAssign, ast.Delete)):
                ts = node.targets if isinstance(node, (ast.Assign, ast.Delete)) else [node.target]
                for t in ts:
                    if isinstance(t, (ast.Attribute, ast.Subscript)) and root_name(t) in names:
                        probs.append((node, f'direct store into the circuit: `{norm(node)[:80]}`'))
            if isinstance(node, ast.Call) and isinstance(node.func, ast.Attribute):
                r = root_name(node.func.value)
                if r in names:
                    meth = node.func.attr
                    direct = isinstance(node.func.value, ast.Name) or (isinstance(node.func.value, ast.Call) and call_name(node.func.value) in ADDERS)
                    if not direct:
                        # method of something obtained from the circuit (circuit.inputs.index(...)): must not mutate
                        if meth in ('append', 'extend', 'insert', 'remove', 'pop', 'clear', 'sort', 'reverse', 'update', 'setdefault'):
                            probs.append((node, f'mutates internal state obtained from the circuit: `{norm(node)[:80]}`'))
                        continue
                    if meth in READ_ONLY or meth in ADDERS or meth in OUTPUT_IFACE:
                        continue
                    if meth in INPUT_IFACE:
                        if r in owned:
                            continue
                        probs.append((node, f'`{meth}` on a host circuit passed by the caller (operands may be arbitrary gates, the host\'s inputs are not this function\'s to change)'))
                        continue
                    probs.append((node, f'`{meth}` is not an add-only operation on the circuit'))
        if probs:
            for node, why in probs[:4]:
                r = host_in_rule if (host_in_rule and 'host circuit passed by the caller' in why) else rule
                ck.bad(r, m, node, f'{q} only adds fresh gates to the circuit', why, construct=f'{q}: {norm(node)[:100]}')
        else:
            ck.ok(rule, m, fn, f'{q} touches the circuit only through add_gate/emplace_gate, read-only queries and the output interface', construct=f'{q} add-only')
            if host_in_rule and cp:
                ck.ok(host_in_rule, m, fn, f'{q} never changes the inputs of the host circuit', construct=f'{q} host inputs untouched')
    return n


def check_fresh_labels(ck: Checker, rule, modules):
    """Labels of gates created by add_gate/emplace_gate come from a fresh-label generator, a caller-supplied
    result label, or are the checked constructors' business (they refuse existing labels: C02.VALID)."""
    repo = ck.repo
    from .interp import Host, Interp, InterpRaise, RepoFunc
    from .rewrites import FakeCircuit
    from .tables import Denotations, GateTypeVal, gate_overrides
    den = Denotations(repo)
    ov = gate_overrides(den)
    types = {t.var: t for t in ov.values() if isinstance(t, GateTypeVal)}

    class _Draw(Host):
        def __init__(self, token):
            self.hex = token
    um = repo.mod(ARITH + '._utils')
    gm = repo.mod(GENPKG + '.generation')
    for m, fname, kwargs in ((um, 'generate_random_label', {}), (gm, '_get_new_label', {'other_restrictions': ['new_r1', 'new_r2']}), (gm, '_get_new_labels', {'other_restrictions': ['new_r1']})):
        f = m.func(fname)
        # the random source first proposes labels that are taken (by the circuit, by the reserved list), then free ones
        draws = iter(['t1', 't2', 'r1', 't1', 'r2', 'f1', 't2', 'f1', 'f2', 'f3', 'f4'])
        it = Interp(repo, overrides=dict(ov), max_steps=200_000)
        it.allow_while = True
        it.externals['uuid.uuid4'] = lambda: _Draw(next(draws))
        c = FakeCircuit(types['INPUT'])
        for l in ('new_t1', 'new_t2', 'x'):
            c.emplace_gate(l, types['INPUT'])
        try:
            if fname == '_get_new_labels':
                got = list(RepoFunc(it, m, f)(c, 3, **kwargs))
            else:
                got = [RepoFunc(it, m, f)(c, **kwargs)]
            taken = set(c._gates) | set(kwargs.get('other_restrictions', []))
            ok = all(g not in taken for g in got) and len(set(got)) == len(got)
            why = f'returned {got} with the circuit holding {sorted(c._gates)} and {kwargs.get("other_restrictions", [])} reserved'
        except (InterpRaise, StopIteration) as e:
            ok, why = False, f'raises {getattr(e, "exc_name", type(e).__name__)}'
        ck.check(ok, rule, m, f, f'{fname} (folded with a random source that first proposes taken labels) returns labels absent from the circuit, from the reserved labels and from each other', why, construct=f'{fname} freshness')


def check_args(ck: Checker, eff: Effects, rule, modules):
    """No label-sequence argument is mutated in place (generate_* pass circuit.inputs, the live list)."""
    n = 0
    for key, fi in eff.funcs.items():
        if fi.mod.name not in modules or fi.cls is not None:
            continue
        if fi.qual.split('.')[-1].startswith('_'):
            # a private helper may work in place on what its caller hands it; if a public function hands it one of its own
            # arguments, the effect summary of that public function shows it
            continue
        for p in fi.params:
            if p == 'circuit':
                continue
            n += 1
            why = '; '.join(f'{w} at line {ln}: `{txt}`' for w, ln, txt in fi.reasons.get(p, [])[:2])
            ck.check(p not in fi.mutated, rule, fi.mod, fi.node, f'{fi.qual} leaves its argument `{p}` unmodified',
                     f'the caller\'s `{p}` may be modified in place: {why}', construct=f'{fi.qual}({p}) not mutated')
    return n


# ---------------------------------------------------------------------------
# endianness


def _is_wrapped(fn, e, be='big_endian'):
    """Is the returned expression converted back to the caller's endianness?"""
    if isinstance(e, ast.Call):
        if call_name(e) == 'reverse_if_big_endian' and len(e.args) == 2 and is_name(e.args[1], be):
            return True
        # delegation: forwards big_endian to another generator
        if any(k.arg == be and is_name(k.value, be) for k in e.keywords):
            return 'delegate'
    if isinstance(e, ast.IfExp) and is_name(e.test, be) and isinstance(e.body, ast.Subscript) and norm(e.body.slice) == '::-1':
        return True
    if isinstance(e, (ast.Tuple, ast.List)):
        rs = [_is_wrapped(fn, x, be) for x in e.elts]
        scalars = [isinstance(x, ast.Subscript) and not isinstance(x.slice, ast.Slice) for x in e.elts]
        if any(r is True for r in rs) and all(r is True or s for r, s in zip(rs, scalars)):
            return True
        if all(r is True for r in rs) and rs:
            return True
        return False
    if isinstance(e, ast.ListComp):
        return _is_wrapped(fn, e.elt, be)
    if isinstance(e, ast.Name):
        # `if big_endian: v.reverse()` / `v = v[::-1]` after the last other binding of v
        last_other = 0
        rev_line = 0
        for node in walk_no_nested(fn):
            if isinstance(node, ast.If) and is_name(node.test, be):
                for s in node.body:
                    if norm(s) in (f'{e.id}.reverse()', f'{e.id} = {e.id}[::-1]'):
                        rev_line = max(rev_line, s.lineno)
        for kind, val, st in assignments_in(fn, e.id):
            if norm(st) == f'{e.id} = {e.id}[::-1]':
                continue
            last_other = max(last_other, st.lineno)
        return bool(rev_line) and rev_line > last_other
    return False


def check_endian(ck: Checker, rule, modules, public, exempt, names=None, but=None):
    """`names` / `but`: restrict the rule to (all but) the given function names."""
    repo = ck.repo
    n = 0
    for m, q, fn in gen_functions(repo, modules):
        if 'big_endian' not in param_names(fn):
            continue
        if (names is not None and q not in names) or (but is not None and q in but):
            continue
        if (m.name, q) not in public:
            continue
        n += 1
        if q in exempt:
            ck.ok(rule, m, fn, f'{q}: exempt ({exempt[q]})', construct=f'{q} endianness (exempt)')
            continue
        rets = [r for r in walk_no_nested(fn) if isinstance(r, ast.Return) and r.value is not None]
        # entry reversal of operand sequences
        seq_params = [p.arg for p in fn.args.args if p.arg != 'circuit' and p.annotation is not None and ('Iterable' in norm(p.annotation) or norm(p.annotation).startswith('list'))
                      and 'Label' in norm(p.annotation) and 'tuple' not in norm(p.annotation)]
        reversed_at_entry = set()
        for node in walk_no_nested(fn):
            if isinstance(node, ast.If) and is_name(node.test, 'big_endian'):
                for s in node.body:
                    t = norm(s)
                    for p in seq_params:
                        aliases = {p} | {nm for nm in {x.id for x in ast.walk(fn) if isinstance(x, ast.Name)} if single_def(fn, nm) is not None and norm(single_def(fn, nm)) in (p, f'list({p})')}
                        for a in aliases:
                            if t in (f'{a}.reverse()', f'{a} = {a}[::-1]'):
                                reversed_at_entry.add(p)
        wraps = [_is_wrapped(fn, r.value) for r in rets]
        local_mode = bool(reversed_at_entry)
        if local_mode:
            missing = [p for p in seq_params if p not in reversed_at_entry]
            ck.check(not missing, rule, m, fn, f'{q}: every operand number is brought to little-endian at entry under big_endian',
                     f'operands {missing} are not reversed under `if big_endian:` although {sorted(reversed_at_entry)} are', construct=f'{q} operand reversal')
            # operand lists may be padded / trimmed only after they were brought to little-endian
            rev_line = min((node.lineno for node in walk_no_nested(fn) if isinstance(node, ast.If) and is_name(node.test, 'big_endian')
                            and any(norm(s_).endswith('.reverse()') or norm(s_).endswith('[::-1]') for s_ in node.body)), default=None)
            early = []
            for c in calls_in(fn):
                if isinstance(c.func, ast.Attribute) and isinstance(c.func.value, ast.Name) and c.func.value.id in seq_params \
                        and c.func.attr in ('append', 'insert', 'extend', 'pop', 'remove') and rev_line is not None and c.lineno < rev_line:
                    early.append(c)
            ck.check(not early, rule, m, early[0] if early else fn, f'{q}: operand numbers are resized only after they were brought to little-endian',
                     f'`{norm(early[0])[:90] if early else ""}` pads/trims an operand before the big-endian reversal: the padding lands at the least significant end of a big-endian number',
                     construct=f'{q} resize after reversal')
            for r, w in zip(rets, wraps):
                ck.check(w is True, rule, m, r, f'{q}: every returned number is converted back under big_endian',
                         f'`{norm(r)[:120]}` returns a little-endian result ' + ('by delegating with big_endian after the operands were already reversed' if w == 'delegate' else 'without reverse_if_big_endian'),
                         construct=f'{q}: {norm(r)[:100]}')
            # inner calls must be little-endian
            for c in calls_in(fn):
                if any(k.arg == 'big_endian' for k in c.keywords) and call_name(c) != 'reverse_if_big_endian':
                    ck.bad(rule, m, c, f'{q}: inner generators are called little-endian after the operands were reversed',
                           f'`{norm(c)[:100]}` passes big_endian on already reversed operands (double reversal)', construct=f'{q}: inner call {call_name(c)}')
        else:
            # delegation mode: every return forwards big_endian (or is wrapped), or the function is a generate_* that stores the outputs
            fw = [c for c in calls_in(fn) if any(k.arg == 'big_endian' and is_name(k.value, 'big_endian') for k in c.keywords)]
            if q.startswith('generate_'):
                ck.check(len(fw) >= 1, rule, m, fn, f'{q} forwards big_endian to the generator it wraps', 'big_endian is never forwarded', construct=f'{q} forwards big_endian')
            else:
                for r, w in zip(rets, wraps):
                    ck.check(bool(w), rule, m, r, f'{q}: every return either converts the result or delegates with big_endian',
                             f'`{norm(r)[:120]}` ignores big_endian on this path', construct=f'{q}: {norm(r)[:100]}')
                if not rets:
                    ck.bad(rule, m, fn, f'{q} returns a result', 'no return', construct=f'{q} returns')
    return n


# ---------------------------------------------------------------------------
# placeholder escape (abstract execution over operand sizes with unknown callee results)


class Unknown(Host):
    """Result of a generator call that is not followed: only its use as an element matters."""

    def __getitem__(self, k):
        return Unknown()

    def __iter__(self):
        raise InterpRaise('UnknownIteration')

    def unpack(self, n):
        return [Unknown() for _ in range(n)]

    def __repr__(self):
        return '<unknown>'


def _contains_placeholder(v, ph, depth=0):
    if isinstance(v, str):
        return v == ph
    if isinstance(v, (list, tuple)) and depth < 6:
        return any(_contains_placeholder(x, ph, depth + 1) for x in v)
    return False


def check_placeholders(ck: Checker, rule, modules, size_range=(1, 2, 3), shift_range=(0, 1, 2, 3, 4, 5, 7)):
    """A list pre-filled with PLACEHOLDER_STR must be completely overwritten before it is returned."""
    repo = ck.repo
    um = repo.mod(ARITH + '._utils')
    ph = um.assign('PLACEHOLDER_STR')
    ck.need(isinstance(ph, ast.Constant), 'PLACEHOLDER_STR is not a constant')
    ph = ph.value
    analysed = 0
    skipped = []
    for m, q, fn in gen_functions(repo, modules):
        if not any(isinstance(n, ast.Name) and n.id == 'PLACEHOLDER_STR' for n in ast.walk(fn)):
            continue
        if any(isinstance(n, ast.While) for n in ast.walk(fn)):
            skipped.append(f'{q} (while loop)')
            continue
        # override every other generator function with an unknown result
        ov = {}
        counter = [0]

        def fresh(*a, **k):
            counter[0] += 1
            return f'g{counter[0]}'

        for mm, qq, ff in gen_functions(repo, [x for x in repo.modules if x.startswith(GENPKG)]):
            if ff is fn:
                continue
            if qq in ('reverse_if_big_endian', 'validate_const_size', 'validate_equal_sizes', 'validate_even'):
                continue
            ov[f'{mm.name}.{qq}'] = (fresh if qq == 'add_gate_from_tt' else (lambda *a, **k: Unknown()))
        it = Interp(repo, overrides=ov, max_steps=300_000)
        params = [p.arg for p in fn.args.args]
        seqs = [p.arg for p in fn.args.args if p.arg != 'circuit' and p.annotation is not None and 'Label' in norm(p.annotation)]
        ints = [p.arg for p in fn.args.args if p.arg not in seqs and p.arg != 'circuit']
        probs = []
        n_runs = 0
        ok_runs = 0
        for sizes in itertools.product(size_range, repeat=len(seqs)):
            for ivals in itertools.product(shift_range, repeat=len(ints)):
                kwargs = {p: [f'{p}{i}' for i in range(s)] for p, s in zip(seqs, sizes)}
                kwargs.update(dict(zip(ints, ivals)))
                kwargs['circuit'] = Unknown()
                for be in (False, True):
                    n_runs += 1
                    it.steps = 0
                    try:
                        res = RepoFunc(it, m, fn)(**kwargs, big_endian=be) if 'big_endian' in param_names(fn) else RepoFunc(it, m, fn)(**kwargs)
                    except InterpRaise:
                        continue
                    except AnalysisError as e:
                        skipped.append(f'{q}: {str(e)[:80]}')
                        probs = None
                        break
                    ok_runs += 1
                    if _contains_placeholder(res, ph):
                        probs.append(f'sizes {dict(zip(seqs, sizes))} {dict(zip(ints, ivals))} big_endian={be}: result {res}')
                if probs is None or len(probs or []) > 3:
                    break
            if probs is None or len(probs or []) > 3:
                break
        if probs is None or ok_runs == 0:
            continue
        analysed += 1
        ck.check(not probs, rule, m, fn, f'{q}: no placeholder label escapes into the result ({ok_runs} size combinations, callee results abstracted)',
                 'the returned list still contains the internal placeholder string (a label that names no gate): ' + '; '.join(probs[:2]), construct=f'{q} placeholder coverage')
    ck.notes.setdefault('placeholder_functions_skipped', []).extend(skipped)
    return analysed


def check_fresh_generated(ck: Checker, rule, modules):
    """generate_* functions hand out a circuit allocated in that very call: not memoised, not shared."""
    repo = ck.repo
    n = 0
    for m, q, fn in gen_functions(repo, modules):
        if not q.startswith('generate_'):
            continue
        n += 1
        decos = [norm(d) for d in fn.decorator_list]
        rets = [r for r in walk_no_nested(fn) if isinstance(r, ast.Return) and r.value is not None]
        fresh = bool(rets) and all(isinstance(r.value, ast.Name) and is_fresh_circuit_local(fn, r.value.id) for r in rets)
        ck.check(not decos and fresh, rule, m, fn, f'{q} returns a circuit allocated in this call (no caching, no shared object)',
                 (f'decorated with {decos}: repeated calls hand out the same mutable Circuit object' if decos else f'returns `{norm(rets[0].value) if rets else None}`, not a local Circuit()'),
                 construct=f'{q} returns a fresh circuit')
    return n


# ---------------------------------------------------------------------------
# multiplicity


_DEDUP = {'set', 'frozenset', 'SortedSet', 'SortedKeyList.__unique__', 'fromkeys', 'unique_everseen', 'unique_justseen', 'OrderedSet'}


def _mentions(e, names):
    """Does `e` read one of `names` other than through len(...)?"""
    skip = set()
    for n in ast.walk(e):
        if isinstance(n, ast.Call) and call_name(n) == 'len':
            skip |= {id(x) for x in ast.walk(n)}
    return any(isinstance(n, ast.Name) and n.id in names and id(n) not in skip for n in ast.walk(e))


def dedup_sites(fn):
    """Calls of a de-duplicating constructor on a value derived from the function's parameters."""
    tainted = {a.arg for a in fn.args.posonlyargs + fn.args.args + fn.args.kwonlyargs} - {'circuit', 'self', 'basis', 'big_endian'}
    changed = True
    while changed:
        changed = False
        for n in ast.walk(fn):
            tgts, val = [], None
            if isinstance(n, ast.Assign):
                tgts, val = n.targets, n.value
            elif isinstance(n, (ast.AnnAssign, ast.AugAssign)) and n.value is not None:
                tgts, val = [n.target], n.value
            elif isinstance(n, (ast.For, ast.comprehension)):
                tgts, val = [n.target], n.iter
            if val is None or not _mentions(val, tainted):
                continue
            for t in tgts:
                for x in ast.walk(t):
                    if isinstance(x, ast.Name) and x.id not in tainted:
                        tainted.add(x.id)
                        changed = True
    out = []
    for c in ast.walk(fn):
        if isinstance(c, ast.Call) and call_name(c) in _DEDUP and any(_mentions(a, tainted) for a in list(c.args) + [k.value for k in c.keywords]):
            out.append(c)
        elif isinstance(c, (ast.SetComp, ast.Set)) and _mentions(c, tainted):
            out.append(c)
    return out


def check_multiset(ck: Checker, rule, modules):
    """Operands are gate labels and the same gate may be listed several times (x + x, a weight repeated):
    no generator may push its operands through a container that drops repeated entries."""
    probe = ast.parse('def f(circuit, xs):\n    ys = [(0, x) for x in xs]\n    s = SortedSet(ys)\n    t = set(range(len(xs)))\n').body[0]
    ck.need(len(dedup_sites(probe)) == 1, f'{rule}: probe for de-duplicating constructors does not discriminate (checker defect)')
    n = 0
    for m, q, fn in gen_functions(ck.repo, modules):
        n += 1
        sites = dedup_sites(fn)
        ck.check(not sites, rule, m, sites[0] if sites else fn, f'{q} keeps every occurrence of a repeated operand (no set-like container on operand-derived values)',
                 f'`{norm(sites[0])[:100]}` drops repeated entries: an operand gate listed twice (same label, same weight) is counted once' if sites else '',
                 construct=f'{q} operand multiplicity')
    return n
