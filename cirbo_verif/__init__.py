"""Static verification machinery for SPbSAT/cirbo (see /verif/DESIGN.md).

Every check parses /repo's working tree with the standard-library ``ast`` module
on every run; no ``cirbo`` module is ever imported or executed.
"""

__version__ = '1.0'
