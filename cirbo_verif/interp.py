"""E2 core: a deliberately small evaluator for *closed declarative fragments*.

It folds literal tables, clause templates, straight-line gadget netlists and local
rewrite templates of the repository over explicitly enumerated finite domains
(DESIGN.md 1.2). It is not a Python interpreter:

* ``while``, ``try``, ``with``, ``yield``, ``global``, class definitions inside a
  fragment, unbounded recursion and unknown callees raise ``AnalysisError`` --
  the fragment is then *not decided*, never silently passed.
* no repository module is imported; every value comes from the syntax tree or from
  host objects supplied by the rule (recording fakes for ``cnf``, ``circuit``...).
* a step budget bounds every evaluation.
"""

from __future__ import annotations

import ast
import functools
import itertools
import operator
import typing as tp

from .core import AnalysisError, Module, Repo, norm


class InterpRaise(Exception):
    """The fragment executed a `raise` (a path that rejects its input)."""

    def __init__(self, exc_name, node=None):
        super().__init__(exc_name)
        self.exc_name = exc_name
        self.node = node


class _Return(Exception):
    def __init__(self, value):
        self.value = value


class _Break(Exception):
    pass


class _Continue(Exception):
    pass


class Host:
    """Marker base class: instances are rule-supplied recording objects."""


class ModuleRef:
    def __init__(self, mod: Module):
        self.mod = mod

    def __repr__(self):
        return f'<module {self.mod.name}>'


class ExternalRef:
    def __init__(self, name):
        self.name = name

    def __repr__(self):
        return f'<external {self.name}>'


class EnumMember:
    def __init__(self, cls_name, name, value):
        self.cls_name = cls_name
        self.name = name
        self.value = value

    def __repr__(self):
        return f'{self.cls_name}.{self.name}'

    def __hash__(self):
        return hash((self.cls_name, self.name))

    def __eq__(self, other):
        return isinstance(other, EnumMember) and (self.cls_name, self.name) == (other.cls_name, other.name)


class RepoEnum:
    def __init__(self, name, members: dict):
        self.name = name
        self.members = members

    def __iter__(self):
        return iter(self.members.values())

    def __call__(self, value):
        if isinstance(value, EnumMember) and value.cls_name == self.name and value.name in self.members:
            return self.members[value.name]   # Enum(member) is the member
        for m in self.members.values():
            if m.value == value:
                return m
        raise InterpRaise('ValueError')

    def __getitem__(self, key):
        if key in self.members:
            return self.members[key]
        raise InterpRaise('KeyError')


class RepoClass:
    def __init__(self, mod, node):
        self.mod = mod
        self.node = node

    def __eq__(self, other):
        return isinstance(other, RepoClass) and other.node is self.node

    def __hash__(self):
        return hash(id(self.node))

    def __repr__(self):
        return f'<class {self.mod.name}.{self.node.name}>'


class Instance(Host):
    """Instance of a repository class, for folding representation-level primitives
    (attribute dictionary + methods/properties looked up in the class body)."""

    def __init__(self, cls: 'RepoClass', interp=None):
        object.__setattr__(self, '_cls', cls)
        object.__setattr__(self, '_d', {})
        object.__setattr__(self, '_interp', interp)

    def __getattr__(self, name):
        # host-side convenience: read a field / property / method of a folded instance from rule code
        if name.startswith('__') and name.endswith('__'):
            raise AttributeError(name)
        d = object.__getattribute__(self, '_d')
        if name in d:
            return d[name]
        it = object.__getattribute__(self, '_interp')
        if it is None:
            raise AttributeError(name)
        cls = object.__getattribute__(self, '_cls')
        try:
            return it._class_attr(cls.mod, None, self, cls, name)
        except AnalysisError:
            raise AttributeError(name)

    # operators of repository classes (opt-in per evaluator: `instance_dunders`)
    def _dunder(self, name, *args):
        it = object.__getattribute__(self, '_interp')
        if it is None or not it.instance_dunders:
            return NotImplemented
        try:
            f = it._class_attr(self._cls.mod, None, self, self._cls, name)
        except AnalysisError:
            return NotImplemented
        return f(*args)

    def __eq__(self, other):
        r = self._dunder('__eq__', other)
        return (self is other) if r is NotImplemented else r

    def __ne__(self, other):
        r = self._dunder('__eq__', other)
        return (self is not other) if r is NotImplemented else not r

    def __or__(self, other):
        return self._dunder('__or__', other)

    def __ror__(self, other):
        return self._dunder('__ror__', other)

    __hash__ = object.__hash__

    def __call__(self, *args, **kwargs):
        it = object.__getattribute__(self, '_interp')
        cls = object.__getattribute__(self, '_cls')
        if it is None:
            raise TypeError('instance is not callable')
        try:
            f = it._class_attr(cls.mod, None, self, cls, '__call__')
        except AnalysisError:
            raise InterpRaise('TypeError')
        return f(*args, **kwargs)

    def __setattr__(self, k, v):
        self._d[k] = v

    def __repr__(self):
        return f'<{self._cls.node.name} instance>'


class TupleInstance(Instance):
    """Instance of a `typing.NamedTuple` class of the repository: the fields in declaration order, readable by name, by index
    and by unpacking; methods the class defines (a callable record) are looked up in the class body as for any instance."""

    def __init__(self, cls, interp, fields):
        Instance.__init__(self, cls, interp)
        object.__setattr__(self, '_fields_', tuple(fields))

    def _tuple(self):
        d = object.__getattribute__(self, '_d')
        return tuple(d[f] for f in object.__getattribute__(self, '_fields_'))

    def __getattr__(self, name):
        if name == '_fields':
            return object.__getattribute__(self, '_fields_')
        if name == '_asdict':
            return lambda: dict(zip(object.__getattribute__(self, '_fields_'), self._tuple()))
        if name == '_replace':
            def _replace(**kw):
                new = TupleInstance(object.__getattribute__(self, '_cls'), object.__getattribute__(self, '_interp'), object.__getattribute__(self, '_fields_'))
                new._d.update(object.__getattribute__(self, '_d'))
                for k, v in kw.items():
                    if k not in new._d:
                        raise InterpRaise('ValueError')
                    new._d[k] = v
                return new
            return _replace
        return Instance.__getattr__(self, name)

    def __iter__(self):
        return iter(self._tuple())

    def __len__(self):
        return len(object.__getattribute__(self, '_fields_'))

    def __getitem__(self, i):
        return self._tuple()[i]

    def __eq__(self, other):
        if isinstance(other, TupleInstance):
            return self._tuple() == other._tuple()
        if isinstance(other, tuple):
            return self._tuple() == other
        return False

    def __ne__(self, other):
        return not self.__eq__(other)

    def __hash__(self):
        return hash(self._tuple())

    def __setattr__(self, k, v):
        raise InterpRaise('AttributeError')

    def __repr__(self):
        return f'{self._cls.node.name}{self._tuple()!r}'


class _GenClose(BaseException):
    """Raised inside the body of an abandoned lazy generator so that it unwinds."""


class LazyGen:
    """A generator function of the repository run *lazily*: the body executes in a thread of its own that is resumed for one
    item at a time, so that whatever the consumer does between two items happens between the two `yield`s, as in the
    interpreter proper (a buffer that is yielded and then modified is seen in the state it had when it was yielded).  Only one
    of the two threads runs at any moment."""

    _stack_set = False

    def __init__(self, body):
        import threading
        self._body = body            # body(emit)
        self._thread = None
        self._done = False
        self._closing = False
        self._req = threading.Semaphore(0)
        self._resp = threading.Semaphore(0)
        self._item = None
        self._exc = None

    def __iter__(self):
        return self

    def _emit(self, value):
        self._item = value
        self._resp.release()
        self._req.acquire()
        if self._closing:
            raise _GenClose()

    def _run(self):
        self._req.acquire()
        try:
            if not self._closing:
                self._body(self._emit)
        except _GenClose:
            pass
        except BaseException as e:      # noqa: BLE001 -- handed to the consumer
            self._exc = e
        self._done = True
        self._resp.release()

    def __next__(self):
        import threading
        if self._done:
            raise StopIteration
        if self._thread is None:
            if not LazyGen._stack_set:
                try:
                    threading.stack_size(256 * 1024 * 1024)
                except (ValueError, RuntimeError):
                    pass
                LazyGen._stack_set = True
            self._thread = threading.Thread(target=self._run, daemon=True)
            self._thread.start()
        self._req.release()
        self._resp.acquire()
        if self._exc is not None:
            e, self._exc = self._exc, None
            raise e
        if self._done:
            raise StopIteration
        return self._item

    def close(self):
        if self._thread is not None and not self._done and not self._closing:
            self._closing = True
            self._req.release()
        self._done = True

    def __del__(self):
        try:
            self.close()
        except Exception:       # noqa: BLE001
            pass


class Env:
    def __init__(self, parent=None, vars=None):
        self.parent = parent
        self.vars = vars if vars is not None else {}
        self.nonlocals: set[str] = set()

    def lookup(self, name):
        e = self
        while e is not None:
            if name in e.vars:
                return e.vars[name], True
            e = e.parent
        return None, False

    def assign(self, name, value):
        if name in self.nonlocals:
            e = self.parent
            while e is not None:
                if name in e.vars:
                    e.vars[name] = value
                    return
                e = e.parent
            raise AnalysisError(f'nonlocal {name} unbound')
        self.vars[name] = value


class RepoFunc:
    def __init__(self, interp, mod, node, closure=None, bound_self=None):
        self.interp = interp
        self.mod = mod
        self.node = node
        self.closure = closure
        self.bound_self = bound_self
        self.__name__ = getattr(node, 'name', '<lambda>')

    def __call__(self, *args, **kwargs):
        if self.bound_self is not None:
            args = (self.bound_self,) + args
        return self.interp.call(self, args, kwargs)

    def __repr__(self):
        return f'<repo function {self.mod.name}.{self.__name__}>'


_SAFE_BUILTINS = {
    'len': len, 'range': range, 'tuple': tuple, 'list': list, 'dict': dict, 'set': set,
    'frozenset': frozenset, 'enumerate': enumerate, 'zip': zip, 'reversed': reversed,
    'sorted': sorted, 'int': int, 'bool': bool, 'str': str, 'min': min, 'max': max,
    'sum': sum, 'all': all, 'any': any, 'abs': abs, 'map': map, 'filter': filter,
    'isinstance': lambda o, s: _isinstance(o, s), 'iter': iter, 'next': next, 'divmod': divmod, 'pow': pow,
    'True': True, 'False': False, 'None': None, 'print': lambda *a, **k: None,
    'bin': bin, 'chr': chr, 'ord': ord, 'round': round, 'float': float, 'bytes': lambda *a, **k: _bytes(*a, **k), 'bytearray': bytearray,
    'ValueError': ValueError, 'TypeError': TypeError, 'KeyError': KeyError,
    'NotImplementedError': NotImplementedError, 'AssertionError': AssertionError,
    'IndexError': IndexError,
    'super': lambda *a, **k: _SuperStub(),
    'NotImplemented': NotImplemented,
    'object': object,     # (a fresh sentinel: `_MISSING = object()`)
    'type': lambda o: _canon_class(o._cls) if isinstance(o, Instance) else type(o),
}

_BINOPS = {
    ast.Add: operator.add, ast.Sub: operator.sub, ast.Mult: operator.mul,
    ast.FloorDiv: operator.floordiv, ast.Mod: operator.mod, ast.Pow: operator.pow,
    ast.LShift: operator.lshift, ast.RShift: operator.rshift, ast.BitOr: operator.or_,
    ast.BitAnd: operator.and_, ast.BitXor: operator.xor, ast.Div: operator.truediv,
}
_CMPOPS = {
    ast.Eq: operator.eq, ast.NotEq: operator.ne, ast.Lt: operator.lt, ast.LtE: operator.le,
    ast.Gt: operator.gt, ast.GtE: operator.ge, ast.Is: operator.is_, ast.IsNot: operator.is_not,
    ast.In: lambda a, b: a in b, ast.NotIn: lambda a, b: a not in b,
}


class _SuperStub(Host):
    """`super(...)` inside a folded __init__: base initialisers are not followed."""

    def __init__(self, *a, **k):
        pass

    def __getattr__(self, name):
        if name == '__init__':
            return lambda *a, **k: None
        raise AttributeError(name)


def _bytes(*a, **k):
    if len(a) == 1 and isinstance(a[0], Instance) and a[0]._interp is not None:
        o = a[0]
        return o._interp._class_attr(o._cls.mod, None, o, o._cls, '__bytes__')()
    return bytes(*a, **k)


def _deepcopy(x, _memo=None):
    """copy.deepcopy for containers of scalars, host sentinels and instances of repository classes (attribute dictionaries
    copied recursively, shared sub-objects and back references kept through the memo)."""
    memo = {} if _memo is None else _memo
    if id(x) in memo:
        return memo[id(x)]
    if isinstance(x, Instance):
        new = Instance(x._cls, x._interp)
        memo[id(x)] = new
        d = object.__getattribute__(new, '_d')
        for k, v in object.__getattribute__(x, '_d').items():
            d[k] = _deepcopy(v, memo)
        return new
    if isinstance(x, list):
        new = []
        memo[id(x)] = new
        new.extend(_deepcopy(v, memo) for v in x)
        return new
    if isinstance(x, tuple):
        return tuple(_deepcopy(v, memo) for v in x)
    if isinstance(x, dict):
        new = type(x)() if not hasattr(x, 'default_factory') else type(x)(x.default_factory)
        memo[id(x)] = new
        for k, v in x.items():
            new[_deepcopy(k, memo)] = _deepcopy(v, memo)
        return new
    if isinstance(x, set):
        return {_deepcopy(v, memo) for v in x}
    return x          # scalars, sentinels (DontCare, Undefined), gate types and other host values are shared, as immutable objects are


_CLASS_CACHE: dict = {}


def _canon_class(cls):
    """One RepoClass object per class definition, so that `type(a) is type(b)` means what it says."""
    return _CLASS_CACHE.setdefault(id(cls.node), cls)


class _SuperProxy(Host):
    """Zero-argument super() of a method being folded: attributes come from the base classes."""

    def __init__(self, interp, inst, cls):
        object.__setattr__(self, '_p', (interp, inst, cls))

    def __getattribute__(self, name):
        if name in ('_p', '__class__', '__dict__'):
            return object.__getattribute__(self, name)
        interp, inst, cls = object.__getattribute__(self, '_p')
        for b in interp._base_classes(cls):
            try:
                return interp._class_attr(b.mod, None, inst, b, name)
            except AnalysisError:
                continue
        if name == '__init__':
            return lambda *a, **k: None
        if name == '__eq__':
            return lambda other: inst is other
        raise AttributeError(name)


class _HostSortedList(Host):
    """sortedcontainers.SortedList as a host object (the part the weighted-sum scheduler uses)."""

    def __init__(self, iterable=None):
        self._xs = sorted(iterable) if iterable is not None else []

    def add(self, x):
        import bisect
        bisect.insort_right(self._xs, x)

    def discard(self, x):
        import bisect
        i = bisect.bisect_left(self._xs, x)
        if i < len(self._xs) and self._xs[i] == x:
            del self._xs[i]

    def remove(self, x):
        import bisect
        i = bisect.bisect_left(self._xs, x)
        if i < len(self._xs) and self._xs[i] == x:
            del self._xs[i]
        else:
            raise InterpRaise('ValueError')

    def pop(self, index=-1):
        return self._xs.pop(index)

    def __getitem__(self, i):
        return self._xs[i]

    def __len__(self):
        return len(self._xs)

    def __iter__(self):
        return iter(list(self._xs))

    def __contains__(self, x):
        return x in self._xs

    def __delitem__(self, i):
        del self._xs[i]

    def __bool__(self):
        return bool(self._xs)

    def __reversed__(self):
        return iter(list(self._xs)[::-1])

    def __eq__(self, other):
        return list(self._xs) == list(other) if isinstance(other, (_HostSortedList, list, tuple)) else False

    __hash__ = None

    def __repr__(self):
        return f'{type(self).__name__.replace("_Host", "")}({self._xs!r})'

    def update(self, iterable):
        for x in iterable:
            self.add(x)

    def clear(self):
        self._xs.clear()

    def copy(self):
        new = type(self)()
        new._xs = list(self._xs)
        return new

    def count(self, x):
        return self._xs.count(x)

    def index(self, x, *a):
        try:
            return self._xs.index(x, *a)
        except ValueError:
            raise InterpRaise('ValueError')

    def bisect_left(self, x):
        import bisect
        return bisect.bisect_left(self._xs, x)

    def bisect_right(self, x):
        import bisect
        return bisect.bisect_right(self._xs, x)

    bisect = bisect_right

    def islice(self, start=None, stop=None, reverse=False):
        xs = self._xs[start:stop]
        return iter(xs[::-1] if reverse else xs)

    def irange(self, minimum=None, maximum=None, inclusive=(True, True), reverse=False):
        xs = [x for x in self._xs if (minimum is None or (x >= minimum if inclusive[0] else x > minimum)) and (maximum is None or (x <= maximum if inclusive[1] else x < maximum))]
        return iter(xs[::-1] if reverse else xs)


class _HostSortedSet(_HostSortedList):
    """sortedcontainers.SortedSet: the same, without repeated elements."""

    def __init__(self, iterable=None):
        self._xs = sorted(set(iterable)) if iterable is not None else []

    def add(self, x):
        if x not in self._xs:
            _HostSortedList.add(self, x)


class _HostStringIO(Host):
    """io.StringIO as a host object (text streams handed to the bench reader)."""

    def __init__(self, text=''):
        import io
        self._s = io.StringIO(text)

    def __enter__(self):
        return self

    def __exit__(self, *a):
        return False

    def __iter__(self):
        return iter(self._s)

    def read(self, *a):
        return self._s.read(*a)

    def readline(self, *a):
        return self._s.readline(*a)

    def readlines(self):
        return self._s.readlines()

    def write(self, t):
        return self._s.write(t)

    def getvalue(self):
        return self._s.getvalue()


class _NullLogger(Host):
    def debug(self, *a, **k):
        return None

    info = warning = error = debug


# pure standard-library modules whose functions may be folded
_PURE_MODULES = ('operator', 'itertools', 'math', 'functools')


class _Uuid(Host):
    """uuid.uuid4().hex -> deterministic fresh token."""

    def __init__(self, interp):
        self.interp = interp

    @property
    def hex(self):
        self.interp.fresh += 1
        return f'<uuid{self.interp.fresh}>'


class Interp:
    def __init__(self, repo: Repo, overrides: tp.Optional[dict] = None, max_steps=400_000, max_depth=40):
        self.repo = repo
        self.overrides = dict(overrides or {})
        self.eager_generators: set = set()
        self.lazy_generators = True     # generator functions run item by item (LazyGen); False: run to completion first
        self.method_oracles: dict = {}
        self.allow_while = False
        self.real_super = False
        self.instance_dunders = False
        self.max_steps = max_steps
        self.max_depth = max_depth
        self.steps = 0
        self.depth = 0
        self.fresh = 0
        self._globals_cache: dict[tuple[str, str], tp.Any] = {}
        self.externals = {
            'functools.reduce': functools.reduce,
            'itertools.product': itertools.product,
            'itertools.combinations': itertools.combinations,
            'itertools.chain': itertools.chain,
            'itertools.permutations': itertools.permutations,
            'itertools.zip_longest': itertools.zip_longest,
            'operator.itemgetter': operator.itemgetter,
            'copy.copy': self._copy_copy,
            'uuid.uuid4': lambda: _Uuid(self),
            'math.ceil': __import__('math').ceil,
            'math.log2': __import__('math').log2,
            'math.floor': __import__('math').floor,
            'logging.getLogger': lambda *a: _NullLogger(),
            'collections.defaultdict': __import__('collections').defaultdict,
            'io.StringIO': _HostStringIO,
            'sortedcontainers.SortedList': _HostSortedList,
            'sortedcontainers.SortedSet': _HostSortedSet,
            'copy.deepcopy': _deepcopy,
            'collections.deque': __import__('collections').deque,
            'more_itertools.powerset': lambda xs: (lambda s_: __import__('itertools').chain.from_iterable(__import__('itertools').combinations(s_, r) for r in range(len(s_) + 1)))(list(xs)),
            'more_itertools.consume': lambda it_, n=None: [None for _ in it_] and None,
            'typing.cast': lambda t, v: v,
            'tp.cast': lambda t, v: v,
        }

    # ------------------------------------------------------------------ util
    def _tick(self, node):
        self.steps += 1
        if self.steps > self.max_steps:
            raise AnalysisError(f'evaluation budget exceeded at line {getattr(node, "lineno", "?")}')

    def unsupported(self, mod, node, why=''):
        raise AnalysisError(
            f'{mod.rel}:{getattr(node, "lineno", "?")}: fragment not interpretable '
            f'({type(node).__name__}{": " + why if why else ""}): `{norm(node)[:120]}`'
        )

    # --------------------------------------------------------------- globals
    def global_value(self, mod: Module, name: str):
        key = (mod.name, name)
        if key in self._globals_cache:
            return self._globals_cache[key]
        canon = f'{mod.name}.{name}'
        if canon in self.overrides:
            return self.overrides[canon]
        if name in mod.functions and '.' not in name:
            v = RepoFunc(self, mod, mod.functions[name])
        elif name in mod.classes and '.' not in name:
            v = self._class_value(mod, mod.classes[name])
        elif name in mod.assigns:
            self._globals_cache[key] = None  # cycle guard
            v = self.eval(mod, mod.assigns[name], Env())
        elif name in mod.imports:
            tmod, tname = mod.imports[name]
            v = self._import_value(tmod, tname)
        elif name in _SAFE_BUILTINS:
            return _SAFE_BUILTINS[name]
        elif name in ('getattr', 'hasattr', 'setattr'):
            _missing = object()

            def _getattr(obj, attr, default=_missing):
                try:
                    return self.getattr(mod, None, obj, attr)
                except (AnalysisError, AttributeError):
                    if default is _missing:
                        raise InterpRaise('AttributeError')
                    return default

            def _hasattr(obj, attr):
                return _getattr(obj, attr, _missing) is not _missing

            def _setattr(obj, attr, value):
                if isinstance(obj, Instance):
                    obj._d[attr] = value
                else:
                    setattr(obj, attr, value)
            return {'getattr': _getattr, 'hasattr': _hasattr, 'setattr': _setattr}[name]
        elif name == '__name__':
            return mod.name
        else:
            raise AnalysisError(f'{mod.rel}: name {name} not resolvable')
        self._globals_cache[key] = v
        return v

    def _import_value(self, tmod, tname):
        if tname is None:
            if tmod in self.repo.modules:
                return ModuleRef(self.repo.mod(tmod))
            return ExternalRef(tmod)
        sub = f'{tmod}.{tname}'
        if sub in self.overrides:
            return self.overrides[sub]
        if sub in self.repo.modules:
            return ModuleRef(self.repo.mod(sub))
        if tmod in self.repo.modules:
            return self.global_value(self.repo.mod(tmod), tname)
        if sub in self.externals:
            return self.externals[sub]
        if tmod in _PURE_MODULES and hasattr(__import__(tmod), tname):
            return getattr(__import__(tmod), tname)
        return ExternalRef(sub)

    def _class_value(self, mod, node: ast.ClassDef):
        bases = [norm(b) for b in node.bases]
        if any(b.endswith('Enum') for b in bases):
            members = {}
            for st in node.body:
                if isinstance(st, ast.Assign) and len(st.targets) == 1 and isinstance(st.targets[0], ast.Name):
                    env = Env(vars=dict(members_as_values(members)))
                    members[st.targets[0].id] = EnumMember(
                        node.name, st.targets[0].id, self.eval(mod, st.value, env)
                    )
            return RepoEnum(node.name, members)
        return RepoClass(mod, node)

    # ------------------------------------------------------------------ call
    # every repository function entered since creation: {id(def node): (module, def node)} (coverage of the folds)
    executed: dict | None = None

    def call(self, fn: RepoFunc, args, kwargs):
        if self.executed is not None and id(fn.node) not in self.executed:
            self.executed[id(fn.node)] = (fn.mod, fn.node)
        self.depth += 1
        if self.depth > self.max_depth:
            self.depth -= 1
            raise AnalysisError(f'recursion too deep in {fn!r}: not a closed template')
        try:
            node = fn.node
            env = Env(parent=fn.closure)
            par = fn.mod.parents.get(node) if self.real_super else None
            if isinstance(par, ast.ClassDef):
                env.vars['__class__'] = RepoClass(fn.mod, par)
            self._bind(fn.mod, node.args, args, kwargs, env, fn.closure)
            if isinstance(node, ast.Lambda):
                return self.eval(fn.mod, node.body, env)
            if f'{fn.mod.name}.{fn.__name__}' in self.eager_generators or (self._is_generator(node) and not self.lazy_generators):
                # vetted generator run to completion: the caller receives every yielded object
                # afterwards, so a buffer shared between yields shows its final contents only
                env.vars['__yielded__'] = out = []
                try:
                    self.exec_block(fn.mod, node.body, env)
                except _Return:
                    pass
                return iter(out)
            if self._is_generator(node):
                # lazily, item by item (see LazyGen)
                def body(emit, env=env, fn=fn, node=node):
                    env.vars['__emit__'] = emit
                    try:
                        self.exec_block(fn.mod, node.body, env)
                    except _Return:
                        pass
                return LazyGen(body)
            try:
                self.exec_block(fn.mod, node.body, env)
            except _Return as r:
                return r.value
            return None
        finally:
            self.depth -= 1

    _gen_cache: dict = {}
    _with_values: dict = {}

    def _copy_copy(self, x):
        """copy.copy: an instance of a repository class through its own __copy__ (folded), else a shallow copy of the attributes."""
        if isinstance(x, Instance):
            cls = object.__getattribute__(x, '_cls')
            try:
                f = self._class_attr(cls.mod, None, x, cls, '__copy__')
            except AnalysisError:
                f = None
            if f is not None:
                return f()
            new = Instance(cls, self)
            new._d.update(x._d)
            return new
        return x if isinstance(x, (tuple, str, int)) else type(x)(x)

    def _peek_host(self, mod, expr, env):
        v = self.eval(mod, expr, env)
        self._with_values[id(expr)] = v
        return v


    def _is_generator(self, node) -> bool:
        """Generator functions are run to completion and their yields handed over afterwards (the consumer of a folded
        fragment does not interleave side effects with the producer; the one place where that matters -- a yielded buffer
        that is re-used -- is C12.ITER's subject)."""
        k = id(node)
        if k not in self._gen_cache:
            found = False
            stack = list(getattr(node, 'body', []))
            while stack and not found:
                n = stack.pop()
                if isinstance(n, (ast.Yield, ast.YieldFrom)):
                    found = True
                elif not isinstance(n, (ast.FunctionDef, ast.AsyncFunctionDef, ast.Lambda, ast.ClassDef)):
                    stack.extend(ast.iter_child_nodes(n))
            self._gen_cache[k] = found
        return self._gen_cache[k]

    def _bind(self, mod, a: ast.arguments, args, kwargs, env, defenv):
        args = list(args)
        kwargs = dict(kwargs)
        pos = list(a.posonlyargs) + list(a.args)
        defaults = [None] * (len(pos) - len(a.defaults)) + list(a.defaults)
        for i, p in enumerate(pos):
            if i < len(args):
                env.vars[p.arg] = args[i]
            elif p.arg in kwargs:
                env.vars[p.arg] = kwargs.pop(p.arg)
            elif defaults[i] is not None:
                env.vars[p.arg] = self.eval(mod, defaults[i], Env(parent=defenv))
            else:
                raise InterpRaise('TypeError')
        rest = args[len(pos):]
        if a.vararg:
            env.vars[a.vararg.arg] = tuple(rest)
        elif rest:
            raise InterpRaise('TypeError')
        for p, d in zip(a.kwonlyargs, a.kw_defaults):
            if p.arg in kwargs:
                env.vars[p.arg] = kwargs.pop(p.arg)
            elif d is not None:
                env.vars[p.arg] = self.eval(mod, d, Env(parent=defenv))
            else:
                raise InterpRaise('TypeError')
        if a.kwarg:
            env.vars[a.kwarg.arg] = kwargs
        elif kwargs:
            raise InterpRaise('TypeError')

    # ------------------------------------------------------------ statements
    def exec_block(self, mod, body, env):
        for st in body:
            self.exec_stmt(mod, st, env)

    def exec_stmt(self, mod, st, env):
        self._tick(st)
        if isinstance(st, ast.Expr):
            self.eval(mod, st.value, env)
        elif isinstance(st, ast.Assign):
            v = self.eval(mod, st.value, env)
            for t in st.targets:
                self.assign(mod, t, v, env)
        elif isinstance(st, ast.AnnAssign):
            if st.value is not None:
                self.assign(mod, st.target, self.eval(mod, st.value, env), env)
        elif isinstance(st, ast.AugAssign):
            cur = self.eval(mod, _as_load(st.target), env)
            v = self.eval(mod, st.value, env)
            op = _BINOPS.get(type(st.op))
            if op is None:
                self.unsupported(mod, st)
            if isinstance(cur, list) and isinstance(st.op, ast.Add):
                cur.extend(v)  # in-place semantics of list +=
                res = cur
            else:
                res = op(cur, v)
            self.assign(mod, st.target, res, env)
        elif isinstance(st, ast.If):
            if self.truth(self.eval(mod, st.test, env), mod, st.test):
                self.exec_block(mod, st.body, env)
            else:
                self.exec_block(mod, st.orelse, env)
        elif isinstance(st, ast.For):
            it = self.eval(mod, st.iter, env)
            try:
                for x in self._iterate(it, mod, st.iter):
                    self.assign(mod, st.target, x, env)
                    try:
                        self.exec_block(mod, st.body, env)
                    except _Continue:
                        continue
                else:
                    self.exec_block(mod, st.orelse, env)
            except _Break:
                pass
            except RuntimeError as e:
                # Python's own verdict on a loop that changes the dict/set it iterates over
                if 'changed size during iteration' in str(e):
                    raise InterpRaise('RuntimeError', st)
                raise
        elif isinstance(st, ast.Return):
            raise _Return(self.eval(mod, st.value, env) if st.value is not None else None)
        elif isinstance(st, ast.Pass):
            pass
        elif isinstance(st, ast.Break):
            raise _Break()
        elif isinstance(st, ast.Continue):
            raise _Continue()
        elif isinstance(st, ast.Raise):
            name = 'Exception'
            if st.exc is not None:
                e = st.exc.func if isinstance(st.exc, ast.Call) else st.exc
                name = norm(e).split('.')[-1]
            raise InterpRaise(name, st)
        elif isinstance(st, ast.Assert):
            if not self.truth(self.eval(mod, st.test, env), mod, st.test):
                raise InterpRaise('AssertionError', st)
        elif isinstance(st, (ast.FunctionDef,)):
            env.vars[st.name] = RepoFunc(self, mod, st, closure=env)
        elif isinstance(st, ast.Nonlocal):
            env.nonlocals.update(st.names)
        elif isinstance(st, ast.Delete):
            for t in st.targets:
                if isinstance(t, ast.Subscript):
                    obj = self.eval(mod, t.value, env)
                    try:
                        del obj[self.eval_index(mod, t.slice, env)]
                    except (KeyError, IndexError) as ex:
                        raise InterpRaise(type(ex).__name__, st)
                else:
                    self.unsupported(mod, st)
        elif isinstance(st, ast.Try):
            try:
                try:
                    self.exec_block(mod, st.body, env)
                except InterpRaise as e:
                    for h in st.handlers:
                        names = []
                        if h.type is None:
                            names = None
                        elif isinstance(h.type, ast.Tuple):
                            names = [norm(x).split('.')[-1] for x in h.type.elts]
                        else:
                            names = [norm(h.type).split('.')[-1]]
                        if names is None or e.exc_name in names or 'Exception' in names or 'BaseException' in names:
                            if h.name:
                                env.assign(h.name, e)
                            self.exec_block(mod, h.body, env)
                            break
                    else:
                        raise
                else:
                    self.exec_block(mod, st.orelse, env)
            finally:
                self.exec_block(mod, st.finalbody, env)
        elif isinstance(st, (ast.Import, ast.ImportFrom)):
            pass  # resolved lazily through the module import table
        elif isinstance(st, ast.With) and all(isinstance(self._peek_host(mod, it.context_expr, env), Host) for it in st.items):
            # `with <host object> as x:` -- the context manager is a stand-in supplied by the rule (e.g. a model SAT solver)
            mgrs = []
            for it_ in st.items:
                m_ = self._with_values.pop(id(it_.context_expr))
                v = m_.__enter__() if hasattr(m_, '__enter__') else m_
                mgrs.append(m_)
                if it_.optional_vars is not None:
                    self.assign(mod, it_.optional_vars, v, env)
            try:
                self.exec_block(mod, st.body, env)
            finally:
                for m_ in reversed(mgrs):
                    if hasattr(m_, '__exit__'):
                        m_.__exit__(None, None, None)
        elif isinstance(st, ast.While) and (self.allow_while or self._is_padding_loop(st)):
            # the padding idiom `while len(xs) < len(ys): xs.append(c)` is always interpreted; general worklist loops only when
            # the caller opted in (folds over finite model structures), and always under the step budget
            try:
                while self.truth(self.eval(mod, st.test, env), mod, st.test):
                    self._tick(st)
                    try:
                        self.exec_block(mod, st.body, env)
                    except _Continue:
                        continue
                else:
                    self.exec_block(mod, st.orelse, env)
            except _Break:
                pass
        else:
            self.unsupported(mod, st, 'statement kind outside the template subset')

    @staticmethod
    def _is_padding_loop(st: ast.While) -> bool:
        t = st.test
        if st.orelse or not (isinstance(t, ast.Compare) and len(t.ops) == 1 and isinstance(t.ops[0], (ast.Lt, ast.Gt))):
            return False

        def len_of(e):
            if isinstance(e, ast.Call) and isinstance(e.func, ast.Name) and e.func.id == 'len' and len(e.args) == 1 and isinstance(e.args[0], ast.Name):
                return e.args[0].id
            return None
        l, r = len_of(t.left), len_of(t.comparators[0])
        small = l if isinstance(t.ops[0], ast.Lt) else r
        if small is None or not (l or isinstance(t.left, (ast.Name, ast.Constant))) or not (r or isinstance(t.comparators[0], (ast.Name, ast.Constant))):
            return False
        for b in st.body:
            if not (isinstance(b, ast.Expr) and isinstance(b.value, ast.Call) and isinstance(b.value.func, ast.Attribute) and b.value.func.attr == 'append'
                    and isinstance(b.value.func.value, ast.Name) and b.value.func.value.id == small and len(b.value.args) == 1 and isinstance(b.value.args[0], (ast.Name, ast.Constant))):
                return False
        return len(st.body) >= 1

    def truth(self, v, mod, node):
        if isinstance(v, (ExternalRef, RepoFunc)):
            self.unsupported(mod, node, 'truth value of non-constant')
        return bool(v)

    def _iterate(self, it, mod, node):
        if isinstance(it, (list, tuple, range, dict, str, set, frozenset, RepoEnum)) or hasattr(it, '__next__') or isinstance(
            it, (enumerate, zip, map, filter, reversed, itertools.product, itertools.combinations)
        ) or hasattr(it, '__iter__'):
            return it   # lists are iterated live, as Python does (a loop that changes the list it walks skips or repeats elements)
        self.unsupported(mod, node, f'iteration over {type(it).__name__}')

    def assign(self, mod, target, value, env):
        if isinstance(target, ast.Name):
            env.assign(target.id, value)
        elif isinstance(target, (ast.Tuple, ast.List)):
            if isinstance(value, Host) and hasattr(value, 'unpack'):
                vals = value.unpack(len(target.elts))
            else:
                vals = list(value)
            star = [i for i, t in enumerate(target.elts) if isinstance(t, ast.Starred)]
            if star:
                i = star[0]
                n_after = len(target.elts) - i - 1
                if len(vals) < len(target.elts) - 1:
                    raise InterpRaise('ValueError')
                for t, v in zip(target.elts[:i], vals[:i]):
                    self.assign(mod, t, v, env)
                self.assign(mod, target.elts[i].value, vals[i: len(vals) - n_after], env)
                for t, v in zip(target.elts[i + 1:], vals[len(vals) - n_after:]):
                    self.assign(mod, t, v, env)
            else:
                if len(vals) != len(target.elts):
                    raise InterpRaise('ValueError')
                for t, v in zip(target.elts, vals):
                    self.assign(mod, t, v, env)
        elif isinstance(target, ast.Subscript):
            obj = self.eval(mod, target.value, env)
            try:
                obj[self.eval_index(mod, target.slice, env)] = value
            except (IndexError, KeyError) as e:
                raise InterpRaise(type(e).__name__)
        elif isinstance(target, ast.Attribute):
            obj = self.eval(mod, target.value, env)
            if isinstance(obj, Host):
                setattr(obj, target.attr, value)
            else:
                self.unsupported(mod, target, 'attribute store on non-host object')
        else:
            self.unsupported(mod, target)

    # ----------------------------------------------------------- expressions
    def eval_index(self, mod, sl, env):
        if isinstance(sl, ast.Slice):
            return slice(
                self.eval(mod, sl.lower, env) if sl.lower else None,
                self.eval(mod, sl.upper, env) if sl.upper else None,
                self.eval(mod, sl.step, env) if sl.step else None,
            )
        return self.eval(mod, sl, env)

    def eval(self, mod, e, env):
        self._tick(e)
        if isinstance(e, ast.Constant):
            return e.value
        if isinstance(e, ast.Name):
            v, found = env.lookup(e.id)
            if found:
                return v
            return self.global_value(mod, e.id)
        if isinstance(e, ast.Tuple):
            return tuple(self._elts(mod, e.elts, env))
        if isinstance(e, ast.List):
            return list(self._elts(mod, e.elts, env))
        if isinstance(e, ast.Set):
            return set(self._elts(mod, e.elts, env))
        if isinstance(e, ast.Dict):
            d = {}
            for k, v in zip(e.keys, e.values):
                if k is None:
                    d.update(self.eval(mod, v, env))
                else:
                    d[self.eval(mod, k, env)] = self.eval(mod, v, env)
            return d
        if isinstance(e, ast.YieldFrom):
            emit, lazy = env.lookup('__emit__')
            if lazy:
                for v_ in self.eval(mod, e.value, env):
                    emit(v_)
                return None
            out, found = env.lookup('__yielded__')
            if not found:
                self.unsupported(mod, e, 'yield from outside a vetted generator')
            out.extend(list(self.eval(mod, e.value, env)))
            return None
        if isinstance(e, ast.Yield):
            emit, lazy = env.lookup('__emit__')
            if lazy:
                emit(self.eval(mod, e.value, env) if e.value is not None else None)
                return None
            out, found = env.lookup('__yielded__')
            if not found:
                self.unsupported(mod, e, 'yield outside a vetted generator')
            out.append(self.eval(mod, e.value, env) if e.value is not None else None)
            return None
        if isinstance(e, ast.BinOp):
            op = _BINOPS.get(type(e.op))
            if op is None:
                self.unsupported(mod, e)
            l, r = self.eval(mod, e.left, env), self.eval(mod, e.right, env)
            try:
                return op(l, r)
            except TypeError:
                if isinstance(l, (ExternalRef, RepoFunc, ModuleRef)) or isinstance(r, (ExternalRef, RepoFunc, ModuleRef)):
                    self.unsupported(mod, e, f'operands {type(l).__name__}, {type(r).__name__}')
                raise InterpRaise('TypeError', e)
            except ZeroDivisionError:
                raise InterpRaise('ZeroDivisionError')
        if isinstance(e, ast.UnaryOp):
            v = self.eval(mod, e.operand, env)
            if isinstance(e.op, ast.Not):
                return not self.truth(v, mod, e)
            if isinstance(e.op, ast.USub):
                return -v
            if isinstance(e.op, ast.UAdd):
                return +v
            if isinstance(e.op, ast.Invert):
                return ~v
        if isinstance(e, ast.BoolOp):
            if isinstance(e.op, ast.And):
                v = True
                for x in e.values:
                    v = self.eval(mod, x, env)
                    if not self.truth(v, mod, x):
                        return v
                return v
            v = False
            for x in e.values:
                v = self.eval(mod, x, env)
                if self.truth(v, mod, x):
                    return v
            return v
        if isinstance(e, ast.Compare):
            left = self.eval(mod, e.left, env)
            for op, c in zip(e.ops, e.comparators):
                right = self.eval(mod, c, env)
                f = _CMPOPS.get(type(op))
                if f is None:
                    self.unsupported(mod, e)
                try:
                    if not f(left, right):
                        return False
                except TypeError:
                    if isinstance(left, (ExternalRef, RepoFunc, ModuleRef)) or isinstance(right, (ExternalRef, RepoFunc, ModuleRef)):
                        self.unsupported(mod, e, 'incomparable values')
                    raise InterpRaise('TypeError', e)
                left = right
            return True
        if isinstance(e, ast.IfExp):
            if self.truth(self.eval(mod, e.test, env), mod, e.test):
                return self.eval(mod, e.body, env)
            return self.eval(mod, e.orelse, env)
        if isinstance(e, ast.Subscript):
            obj = self.eval(mod, e.value, env)
            idx = self.eval_index(mod, e.slice, env)
            if isinstance(obj, (ExternalRef, RepoClass)):
                return obj  # typing subscripts such as tp.Dict[...]
            try:
                return obj[idx]
            except (IndexError, KeyError) as ex:
                raise InterpRaise(type(ex).__name__, e)
            except TypeError:
                self.unsupported(mod, e, f'subscript of {type(obj).__name__}')
        if isinstance(e, ast.Attribute):
            obj = self.eval(mod, e.value, env)
            return self.getattr(mod, e, obj, e.attr)
        if isinstance(e, ast.Call):
            return self.eval_call(mod, e, env)
        if isinstance(e, ast.Lambda):
            return RepoFunc(self, mod, e, closure=env)
        if isinstance(e, (ast.ListComp, ast.GeneratorExp, ast.SetComp)):
            out = []
            self._comp(mod, e.generators, 0, env, lambda en: out.append(self.eval(mod, e.elt, en)))
            if isinstance(e, ast.SetComp):
                return set(out)
            return out if isinstance(e, ast.ListComp) else iter(out)
        if isinstance(e, ast.DictComp):
            d = {}

            def put(en):
                d[self.eval(mod, e.key, en)] = self.eval(mod, e.value, en)

            self._comp(mod, e.generators, 0, env, put)
            return d
        if isinstance(e, ast.JoinedStr):
            parts = []
            for v in e.values:
                if isinstance(v, ast.Constant):
                    parts.append(str(v.value))
                else:
                    val = self.eval(mod, v.value, env)
                    spec = ''
                    if v.format_spec is not None:
                        spec = self.eval(mod, v.format_spec, env)
                    parts.append(format(val, spec) if spec else str(val))
            return ''.join(parts)
        if isinstance(e, ast.Starred):
            self.unsupported(mod, e, 'starred outside call/literal')
        self.unsupported(mod, e)

    def _elts(self, mod, elts, env):
        for x in elts:
            if isinstance(x, ast.Starred):
                yield from self.eval(mod, x.value, env)
            else:
                yield self.eval(mod, x, env)

    def _comp(self, mod, gens, i, env, emit):
        if i == len(gens):
            emit(env)
            return
        g = gens[i]
        it = self.eval(mod, g.iter, env)
        for x in self._iterate(it, mod, g.iter):
            en = Env(parent=env)
            self.assign(mod, g.target, x, en)
            if all(self.truth(self.eval(mod, c, en), mod, c) for c in g.ifs):
                self._comp(mod, gens, i + 1, en, emit)

    def getattr(self, mod, node, obj, attr):
        if isinstance(obj, ModuleRef):
            canon = f'{obj.mod.name}.{attr}'
            if canon in self.overrides:
                return self.overrides[canon]
            sub = f'{obj.mod.name}.{attr}'
            if sub in self.repo.modules and attr not in obj.mod.functions and attr not in obj.mod.assigns and attr not in obj.mod.classes and attr not in obj.mod.imports:
                return ModuleRef(self.repo.mod(sub))
            return self.global_value(obj.mod, attr)
        if isinstance(obj, ExternalRef):
            name = f'{obj.name}.{attr}'
            if name in self.overrides:
                return self.overrides[name]
            if name in self.externals:
                return self.externals[name]
            root, _, rest = name.partition('.')
            if root in _PURE_MODULES and rest and '.' not in rest:
                pm = __import__(root)
                if hasattr(pm, rest):
                    return getattr(pm, rest)
            return ExternalRef(name)
        if isinstance(obj, RepoEnum):
            if attr in obj.members:
                return obj.members[attr]
            self.unsupported(mod, node, f'enum {obj.name} has no member {attr}')
        if isinstance(obj, RepoClass):
            if attr in ('__name__', '__qualname__'):
                return obj.node.name
            q = f'{obj.node.name}.{attr}'
            if q in obj.mod.functions:
                if any(norm(d) == 'classmethod' for d in obj.mod.functions[q].decorator_list):
                    return RepoFunc(self, obj.mod, obj.mod.functions[q], bound_self=obj)
                return RepoFunc(self, obj.mod, obj.mod.functions[q])
            for st in obj.node.body:
                if isinstance(st, (ast.Assign, ast.AnnAssign)):
                    ts = st.targets if isinstance(st, ast.Assign) else [st.target]
                    if any(isinstance(t, ast.Name) and t.id == attr for t in ts) and st.value is not None:
                        return self.eval(obj.mod, st.value, Env())
            self.unsupported(mod, node, f'class attribute {q}')
        if isinstance(obj, Instance):
            if attr in obj._d:
                return obj._d[attr]
            if isinstance(obj, TupleInstance) and attr in ('_fields', '_asdict', '_replace'):
                return getattr(obj, attr)
            return self._class_attr(mod, node, obj, obj._cls, attr)
        if obj in (int, str, bytes, dict, list, tuple, set, bytearray, float) or (isinstance(obj, type) and getattr(obj, '__module__', '') in ('itertools', 'collections', 'functools', 'operator')):
            return getattr(obj, attr)
        if isinstance(obj, (Host, EnumMember)) or isinstance(
            obj, (list, tuple, dict, str, set, frozenset, int, bool, range, bytes, bytearray, float, __import__('collections').deque)
        ):
            try:
                return getattr(obj, attr)
            except AttributeError:
                if isinstance(obj, Host):
                    raise AnalysisError(
                        f'{mod.rel}:{getattr(node, "lineno", "?")}: host object '
                        f'{type(obj).__name__} has no attribute {attr} (`{norm(node)[:100]}`)'
                    )
                raise InterpRaise('AttributeError', node)
        self.unsupported(mod, node, f'attribute {attr} of {type(obj).__name__}')

    def _class_attr(self, mod, node, inst, cls, attr, _depth=0):
        q = f'{cls.node.name}.{attr}'
        if (cls.node.name, attr) in self.method_oracles:
            # a method of a repository class replaced by its oracle (e.g. Circuit.top_sort while folding a caller)
            return self.method_oracles[(cls.node.name, attr)](inst)
        fn = cls.mod.functions.get(q)
        if fn is not None:
            decos = [norm(d) for d in fn.decorator_list]
            if 'property' in decos:
                return RepoFunc(self, cls.mod, fn)(inst)
            if 'staticmethod' in decos:
                return RepoFunc(self, cls.mod, fn)
            if 'classmethod' in decos:
                return RepoFunc(self, cls.mod, fn, bound_self=(inst._cls if isinstance(inst, Instance) else cls))
            return RepoFunc(self, cls.mod, fn, bound_self=inst)
        for st in cls.node.body:
            if isinstance(st, (ast.Assign, ast.AnnAssign)):
                ts = st.targets if isinstance(st, ast.Assign) else [st.target]
                if any(isinstance(t, ast.Name) and t.id == attr for t in ts) and st.value is not None:
                    return self.eval(cls.mod, st.value, Env())
        if _depth < 4:
            for b in cls.node.bases:
                try:
                    bv = self.eval(cls.mod, b, Env())
                except AnalysisError:
                    continue
                if isinstance(bv, RepoClass):
                    try:
                        return self._class_attr(mod, node, inst, bv, attr, _depth + 1)
                    except AnalysisError:
                        continue
        raise AnalysisError(
            f'{mod.rel}:{getattr(node, "lineno", "?")}: {cls.node.name} instance has no attribute {attr}'
        )

    def instantiate(self, cls: 'RepoClass', args=(), kwargs=None):
        if any(norm(b).split('.')[-1] == 'NamedTuple' for b in cls.node.bases):
            # synthesised constructor of a typing.NamedTuple: annotated class-level fields in order, defaults from the class body
            fields = [st for st in cls.node.body if isinstance(st, ast.AnnAssign) and isinstance(st.target, ast.Name)]
            inst = TupleInstance(cls, self, [st.target.id for st in fields])
            args = list(args)
            kwargs = dict(kwargs or {})
            if len(args) > len(fields):
                raise InterpRaise('TypeError')
            for i, st in enumerate(fields):
                name = st.target.id
                if i < len(args):
                    if name in kwargs:
                        raise InterpRaise('TypeError')
                    v = args[i]
                elif name in kwargs:
                    v = kwargs.pop(name)
                elif st.value is not None:
                    v = self.eval(cls.mod, st.value, Env())
                else:
                    raise InterpRaise('TypeError')
                inst._d[name] = v
            if kwargs:
                raise InterpRaise('TypeError')
            return inst
        inst = Instance(cls, self)
        if f'{cls.node.name}.__init__' in cls.mod.functions:
            RepoFunc(self, cls.mod, cls.mod.functions[f'{cls.node.name}.__init__'], bound_self=inst)(*args, **(kwargs or {}))
        elif self.real_super and self._inherited_init(cls) is not None:
            bcls, fn = self._inherited_init(cls)
            RepoFunc(self, bcls.mod, fn, bound_self=inst)(*args, **(kwargs or {}))
        elif any('dataclass' in norm(d) for d in cls.node.decorator_list):
            # synthesised __init__ of a dataclass: annotated class-level fields in order
            fields = [st for st in cls.node.body if isinstance(st, ast.AnnAssign) and isinstance(st.target, ast.Name)]
            args = list(args)
            kwargs = dict(kwargs or {})
            if len(args) > len(fields):
                raise InterpRaise('TypeError')
            for i, st in enumerate(fields):
                name = st.target.id
                if i < len(args):
                    v = args[i]
                elif name in kwargs:
                    v = kwargs.pop(name)
                elif st.value is not None:
                    v = self.eval(cls.mod, st.value, Env())
                else:
                    raise InterpRaise('TypeError')
                setattr(inst, name, v)
            if kwargs:
                raise InterpRaise('TypeError')
        return inst

    def _base_classes(self, cls):
        out = []
        for b in cls.node.bases:
            try:
                bv = self.eval(cls.mod, b, Env())
            except AnalysisError:
                continue
            if isinstance(bv, RepoClass):
                out.append(bv)
        return out

    def _inherited_init(self, cls, depth=0):
        for b in self._base_classes(cls):
            f = b.mod.functions.get(f'{b.node.name}.__init__')
            if f is not None:
                return b, f
            if depth < 4:
                r = self._inherited_init(b, depth + 1)
                if r is not None:
                    return r
        return None

    def eval_call(self, mod, e: ast.Call, env):
        if self.real_super and isinstance(e.func, ast.Name) and e.func.id == 'super' and not e.args and not e.keywords:
            cls, okc = env.lookup('__class__')
            inst, oki = env.lookup('self')
            if okc and oki and isinstance(inst, Instance):
                return _SuperProxy(self, inst, cls)
        if self.real_super and isinstance(e.func, ast.Name) and e.func.id == 'super' and len(e.args) == 2 and not e.keywords:
            cls, inst = self.eval(mod, e.args[0], env), self.eval(mod, e.args[1], env)
            if isinstance(cls, RepoClass) and isinstance(inst, Instance):
                return _SuperProxy(self, inst, cls)
        fn = self.eval(mod, e.func, env)
        args = []
        for a in e.args:
            if isinstance(a, ast.Starred):
                args.extend(self.eval(mod, a.value, env))
            else:
                args.append(self.eval(mod, a, env))
        kwargs = {}
        for k in e.keywords:
            if k.arg is None:
                kwargs.update(self.eval(mod, k.value, env))
            else:
                kwargs[k.arg] = self.eval(mod, k.value, env)
        if isinstance(fn, RepoClass):
            return self.instantiate(fn, args, kwargs)
        if isinstance(fn, ExternalRef):
            self.unsupported(mod, e, f'call of unresolved {fn!r}')
        if isinstance(fn, RepoFunc):
            return fn(*args, **kwargs)
        if not callable(fn):
            self.unsupported(mod, e, f'call of non-callable {type(fn).__name__}')
        try:
            return fn(*args, **kwargs)
        except (InterpRaise, AnalysisError, _Return):
            raise
        except (IndexError, KeyError, ValueError, TypeError, StopIteration, AttributeError) as ex:
            raise InterpRaise(type(ex).__name__, e)


def _isinstance(obj, spec):
    """isinstance that understands repository classes and enums."""
    if isinstance(spec, tuple):
        return any(_isinstance(obj, s) for s in spec)
    if isinstance(spec, RepoEnum):
        return isinstance(obj, EnumMember) and obj.cls_name == spec.name
    if isinstance(spec, RepoClass):
        if isinstance(obj, Instance):
            return obj._cls.node is spec.node or spec.node.name in [norm(b).split('.')[-1] for b in obj._cls.node.bases]
        return getattr(type(obj), '__name__', None) == spec.node.name or getattr(obj, '_repo_class_name', None) == spec.node.name
    if isinstance(spec, (ExternalRef, ModuleRef)):
        return False
    if isinstance(spec, type):
        return isinstance(obj, spec)
    return False


def members_as_values(members):
    for k, m in members.items():
        yield k, m.value


def _as_load(target):
    t = ast.parse(ast.unparse(target), mode='eval').body
    return ast.copy_location(t, target)
